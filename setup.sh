#!/bin/bash
# Build the framework from files on disk only (offline): Coq development (full .vo), extraction, OCaml
# model driver, sanitizer build of /repo's working tree and every C harness.
set -e
cd "$(dirname "$0")"
python3 - <<'PY'
import sys, glob, os
sys.path.insert(0, 'lib')
import vlib
ok, log = vlib.build_coq()
if not ok:
    # make -k has built everything that builds; a file that does not is reported by the check of the property it belongs to
    print(log[-3000:]); print("WARNING: some Coq files did not build (see above)")
for P in vlib.extract_props():
    try:
        vlib.build_mdriver(P)
    except vlib.BuildError as e:
        print("WARNING:", e)
clib = vlib.build_clib()
for h in sorted(glob.glob('harness/*.c')):
    try:
        vlib.build_cdriver(os.path.basename(h)[:-2], clib)
    except vlib.BuildError as e:
        print("WARNING:", e)
print("setup ok")
PY
