#!/bin/bash
# Build the framework from files on disk only (offline): Coq development (full .vo), extraction, OCaml
# model driver, sanitizer build of /repo's working tree and every C harness.
set -e
cd "$(dirname "$0")"
python3 - <<'PY'
import sys, glob, os
sys.path.insert(0, 'lib')
import vlib
ok, log = vlib.build_coq()
if not ok:
    print(log[-5000:]); sys.exit(1)
for P in vlib.extract_props():
    vlib.build_mdriver(P)
clib = vlib.build_clib()
for h in sorted(glob.glob('harness/*.c')):
    vlib.build_cdriver(os.path.basename(h)[:-2], clib)
print("setup ok")
PY
