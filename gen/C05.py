HARNESS = "c05"
STALE_RERUN = True   # operands also re-run as stale external polynomials (see check)
LEVEL = "translation_validation"
TIMEOUT = 900
"""C05 case generator: factorizations.  Every random choice comes from the one `rng` passed in.

  ufac P c0,..,cn | c f1 m1 f2 m2 ...    full factorization (P = 0: Z[x], else Z_P[x]); after "|" the PLANTED
  usqf P c0,..,cn | ...                  factorisation (a hint: the model-side checkers decide irreducibility
  msqf ORD poly   | ...                  themselves and only use the hint when they certified it)
  mcf  ORD poly
"""

PRIMES = [2, 3, 5, 7, 13, 101]

# ----------------------------------------------------------------------------- dense polynomials, low degree first
def pmul(a, b, p=0):
    r = [0] * (len(a) + len(b) - 1)
    for i, x in enumerate(a):
        if x:
            for j, y in enumerate(b):
                r[i + j] += x * y
    if p:
        r = [c % p for c in r]
    return r


def ppow(a, n, p=0):
    r = [1]
    for _ in range(n):
        r = pmul(r, a, p)
    return r


def pnorm(a):
    a = list(a)
    while a and a[-1] == 0:
        a.pop()
    return a


def sym(c, p):
    c %= p
    return c - p if c > p // 2 else c


def dense(a):
    return ",".join(str(c) for c in a)


def pdivmod_p(a, b, p):
    """a, b reduced mod p, b monic: (quot, rem)"""
    a = list(a)
    q = [0] * max(1, len(a) - len(b) + 1)
    while len(a) >= len(b) and pnorm(a):
        a = pnorm(a)
        if len(a) < len(b):
            break
        t = a[-1]
        k = len(a) - len(b)
        q[k] = t
        for i, c in enumerate(b):
            a[k + i] = (a[k + i] - t * c) % p
    return q, pnorm(a)


def irreducible_mod(f, p):
    """brute force (small p^deg only): f monic mod p"""
    d = len(f) - 1
    if d <= 1:
        return d == 1
    import itertools
    for k in range(1, d // 2 + 1):
        for low in itertools.product(range(p), repeat=k):
            g = list(low) + [1]
            if not pdivmod_p(f, g, p)[1]:
                return False
    return True


def random_irreducible_mod(rng, p, d):
    for _ in range(200):
        f = [rng.randrange(p) for _ in range(d)] + [1]
        if d >= 1 and f[0] == 0 and d > 1:
            continue
        if irreducible_mod(f, p):
            return f
    return [rng.randrange(1, p), 1]


# ----------------------------------------------------------------------------- irreducibles over Z
Z_POOL = [
    [1, 1], [-1, 1], [2, 1], [-3, 1], [5, 1], [-7, 1], [1, 2], [-1, 2], [3, 2], [1, 3], [-2, 3], [5, 7],   # linear
    [1, 0, 1], [1, 1, 1], [2, 0, 1], [-2, 0, 1], [3, 0, 1], [1, -1, 1], [-1, -1, 1], [5, 1, 1], [1, 0, 2], [1, 1, 2],
    [2, 2, 3], [7, 0, -1][::1], [-3, 0, 1],
    [-2, 0, 0, 1], [1, 1, 0, 1], [-1, -1, 0, 1], [3, 0, 0, 2], [1, 0, -3, 1],
    [1, 0, 0, 0, 1], [1, 0, -10, 0, 1], [1, 1, 1, 1, 1], [1, 0, -1, 0, 1], [2, 0, 0, 0, 1], [1, 0, 2, 0, 4][::1], [9, 0, -2, 0, 1][::1],
    [-1, -1, 0, 0, 0, 1], [1, 0, 0, 1, 0, 0, 1], [1, 1, 1, 1, 1, 1, 1],
]
# irreducible but split modulo every prime (degree certificates cannot exist)
SPLIT_EVERYWHERE = [[1, 0, 0, 0, 1], [1, 0, -10, 0, 1], [1, 0, -1, 0, 1], [4, 0, 2, 0, 1][::1], [1, 0, 0, 0, 0, 0, 0, 0, 1],
                    [1, 0, 0, 0, -1, 0, 0, 0, 1], [576, 0, -960, 0, 352, 0, -40, 0, 1], [1, -1, 0, 1, -1, 1, 0, -1, 1]]
NONMONIC = [[1, 2], [-1, 2], [3, 2], [1, 3], [-2, 3], [5, 7], [1, 0, 2], [1, 1, 2], [2, 2, 3], [3, 0, 0, 2], [1, 0, 0, 0, 3], [-1, 0, 6]]


def random_Z_factor(rng):
    k = rng.random()
    if k < 0.55:
        return list(rng.choice(Z_POOL))
    if k < 0.70:
        return list(rng.choice(SPLIT_EVERYWHERE[:4]))
    d = rng.choice([1, 2, 2, 3, 3, 4, 5, 6])
    f = [rng.randint(-9, 9) for _ in range(d)] + [rng.choice([1, 1, 1, 2, 3, -1])]
    if f[0] == 0:
        f[0] = rng.choice([1, -1, 2, 3])
    return f


def make_primitive_pos(f):
    from math import gcd
    g = 0
    for c in f:
        g = gcd(g, c)
    f = [c // g for c in f]
    if f[-1] < 0:
        f = [-c for c in f]
    return f


def mults(rng, n, p=0):
    pats = [[1] * n, [rng.randint(1, 3) for _ in range(n)], [i + 1 for i in range(n)], [rng.choice([1, 2, 4]) for _ in range(n)]]
    if p and p <= 13:
        pats += [[rng.choice([p, 1, p + 1, 2 * p if p <= 5 else p, 2]) for _ in range(n)], [p] * n, [rng.choice([1, p]) for _ in range(n)]]
    return rng.choice(pats)


def upoly_case(rng, op, p, big=False):
    """product of planted factors^mult times a constant (and a power of x)"""
    if p == 0:
        kind = rng.random()
        if kind < 0.12:      # many small factors: recombination
            n = rng.randint(5, 9)
            facs = []
            while len(facs) < n:
                f = make_primitive_pos(rng.choice(Z_POOL[:23] if rng.random() < 0.8 else SPLIT_EVERYWHERE[:4]))
                if f not in facs and f[-1] == 1:
                    facs.append(f)
            ms = [1] * n if rng.random() < 0.7 else [rng.choice([1, 1, 2]) for _ in range(n)]
        elif kind < 0.20:    # irreducible that splits modulo every prime, alone or with company
            facs = [list(rng.choice(SPLIT_EVERYWHERE if op == "ufac" else SPLIT_EVERYWHERE[:6]))]
            if rng.random() < 0.5:
                g = make_primitive_pos(random_Z_factor(rng))
                if g != facs[0] and g[-1] == 1:
                    facs.append(g)
            ms = mults(rng, len(facs))
        else:
            n = rng.choice([1, 1, 2, 2, 3, 3, 4, 5])
            facs = []
            while len(facs) < n:
                f = make_primitive_pos(random_Z_factor(rng))
                if f not in facs:
                    facs.append(f)
            ms = mults(rng, n)
        # keep the total degree moderate
        while sum((len(f) - 1) * m for f, m in zip(facs, ms)) > (30 if big else 20) and max(ms) > 1:
            ms = [max(1, m - 1) for m in ms]
        while sum((len(f) - 1) * m for f, m in zip(facs, ms)) > (30 if big else 20) and len(facs) > 1:
            facs.pop(); ms.pop()
        c = rng.choice([1, 1, 1, -1, 2, -3, 6, -12, 35, 2**40 + 1, -(10**12)])
        xk = rng.choice([0, 0, 0, 0, 1, 2, 5])
    else:
        n = rng.choice([1, 2, 2, 3, 3, 4, 5, 6])
        maxd = {2: 6, 3: 5, 5: 4, 7: 4, 13: 3, 101: 3}[p]
        facs = []
        tries = 0
        while len(facs) < n and tries < 50:
            tries += 1
            f = random_irreducible_mod(rng, p, rng.randint(1, maxd))
            if f not in facs and f != [0, 1]:
                facs.append(f)
        ms = mults(rng, len(facs), p)
        lim = 40 if big else 28
        while sum((len(f) - 1) * m for f, m in zip(facs, ms)) > lim and len(facs) > 1:
            facs.pop(); ms.pop()
        while sum((len(f) - 1) * m for f, m in zip(facs, ms)) > lim:
            ms = [max(1, m // 2) for m in ms]
        c = rng.choice([1, 1, rng.randrange(1, p), p - 1])
        xk = rng.choice([0, 0, 0, 1, 2, p, p + 1 if p < 20 else 1])
    prod = [c]
    for f, m in zip(facs, ms):
        prod = pmul(prod, ppow(f, m, p), p)
    prod = [0] * xk + prod
    planted = [(f, m) for f, m in zip(facs, ms)]
    if xk:
        planted.append(([0, 1], xk))
    if p:
        prod = [sym(x, p) for x in prod]
        if rng.random() < 0.3:       # any representative is a valid input
            prod = [x + p * rng.choice([0, 0, 1, -1]) for x in prod]
            if (prod[-1] % p) == 0:
                prod[-1] += 1
    if not pnorm(prod if not p else [x % p for x in prod]):
        return None
    hint = " ".join("%s %d" % (dense(f), m) for f, m in planted)
    return "%s %d %s | %d %s" % (op, p, dense(prod), c, hint)


# ----------------------------------------------------------------------------- multivariate (sparse dict monomial -> coeff)
def mmul(a, b):
    r = {}
    for m1, c1 in a.items():
        for m2, c2 in b.items():
            m = tuple(x + y for x, y in zip(m1, m2))
            r[m] = r.get(m, 0) + c1 * c2
    return {m: c for m, c in r.items() if c}


def mpow(a, n):
    r = {(0, 0, 0): 1}
    for _ in range(n):
        r = mmul(r, a)
    return r


def mtext(a):
    if not a:
        return "0"
    ts = []
    for m, c in sorted(a.items(), reverse=True):
        ts.append(str(c) + "".join("*x%d^%d" % (i, e) for i, e in enumerate(m) if e))
    return "+".join(ts)


M_POOL = [
    {(1, 0, 0): 1, (0, 0, 0): 1}, {(1, 0, 0): 1, (0, 0, 0): -2}, {(0, 1, 0): 1, (0, 0, 0): 1}, {(0, 0, 1): 1, (0, 0, 0): -1},
    {(1, 0, 0): 1, (0, 1, 0): 1}, {(1, 0, 0): 1, (0, 1, 0): -1}, {(1, 1, 0): 1, (0, 0, 0): 1}, {(2, 0, 0): 1, (0, 1, 0): 1},
    {(2, 0, 0): 1, (0, 2, 0): 1, (0, 0, 0): -1}, {(1, 0, 0): 2, (0, 1, 0): 3, (0, 0, 0): 1}, {(1, 0, 1): 1, (0, 1, 0): 1},
    {(0, 2, 0): 1, (0, 0, 1): -1}, {(1, 1, 1): 1, (0, 0, 0): 1}, {(2, 0, 0): 1, (0, 0, 0): 1}, {(0, 1, 0): 1, (0, 0, 1): 1, (1, 0, 0): 1},
    {(1, 0, 0): 1}, {(0, 1, 0): 1}, {(0, 0, 1): 1}, {(3, 0, 0): 1, (0, 1, 0): -2}, {(0, 2, 0): 1, (0, 0, 0): 1}, {(0, 1, 1): 1, (0, 0, 0): -1},
]


def mpoly_case(rng, op):
    n = rng.choice([1, 2, 2, 3, 3])
    facs = []
    while len(facs) < n:
        f = rng.choice(M_POOL)
        if f not in facs:
            facs.append(f)
    ms = [rng.choice([1, 1, 2, 2, 3]) for _ in range(n)]
    while sum(sum(max(m) for m in zip(*f.keys())) * k for f, k in zip(facs, ms)) > 9 and max(ms) > 1:
        ms = [max(1, k - 1) for k in ms]
    c = rng.choice([1, 1, -1, 2, -3, 4, -12, 9])
    prod = {(0, 0, 0): c}
    for f, k in zip(facs, ms):
        prod = mmul(prod, mpow(f, k))
    order = rng.choice(["-", "012", "021", "102", "120", "201", "210"])
    hint = " ".join("%s %d" % (mtext(f), k) for f, k in zip(facs, ms))
    return "%s %s %s | %d %s" % (op, order, mtext(prod), c, hint)


def generate(rng, tier, corpus_only=False):
    n = 1.2 if tier == "quick" else 8
    cases = []
    plan = [("ufac", 0, int(170 * n)), ("usqf", 0, int(110 * n)), ("msqf", None, int(90 * n)), ("mcf", None, int(40 * n))]
    for p in PRIMES:
        plan += [("ufac", p, int(32 * n)), ("usqf", p, int(28 * n))]
    for op, p, cnt in plan:
        for _ in range(cnt):
            c = mpoly_case(rng, op) if p is None else upoly_case(rng, op, p, big=(tier != "quick" and rng.random() < 0.3))
            if c:
                cases.append(c)
    for p in PRIMES:          # non-zero constants of Z_p
        c = rng.randrange(1, p)
        cases.append("ufac %d %d | %d" % (p, c, c))
        cases.append("usqf %d %d | %d" % (p, sym(c, p), c))
    # non-monic primitive polynomials over Z and factors of x in the FULL factorization get their own tags
    for _ in range(int(12 * n)):
        facs = rng.sample(NONMONIC, rng.choice([1, 2, 2, 3]))
        if rng.random() < 0.4:
            facs.append(rng.choice(Z_POOL[:20]))
        facs = [make_primitive_pos(f) for f in facs]
        ms = [rng.choice([1, 1, 2]) for _ in facs]
        prod = [rng.choice([1, -1, 3])]
        c = prod[0]
        for f, m in zip(facs, ms):
            prod = pmul(prod, ppow(f, m))
        cases.append("ufac 0 %s | %d %s" % (dense(prod), c, " ".join("%s %d" % (dense(f), m) for f, m in zip(facs, ms))))
    # reducible polynomials whose CONSTANT term dominates all other coefficients (the coefficient bound that decides how
    # far the modular factors are lifted depends on it): (x-a)(x+a+1), x^4+4k^4 = (x^2+2kx+2k^2)(x^2-2kx+2k^2), ...
    for _ in range(int(14 * n)):
        k = rng.random()
        if k < 0.4:
            a = rng.choice([100, 101, 999, 5000, 10**5, 10**6 + 3, rng.randint(50, 10**7)])
            facs = [[-a, 1], [a + 1, 1]]
        elif k < 0.75:
            kk = rng.choice([5, 7, 10, 12, 50, 300, rng.randint(4, 2000)])
            facs = [[2 * kk * kk, 2 * kk, 1], [2 * kk * kk, -2 * kk, 1]]
        else:
            a = rng.randint(100, 10**5); b = rng.randint(100, 10**5)
            facs = [[-a, 1], [b, 1, 1]]
        c = rng.choice([1, 1, -1, 2])
        prod = [c]
        for f in facs:
            prod = pmul(prod, f)
        cases.append("ufac 0 %s | %d %s" % (dense(prod), c, " ".join("%s 1" % dense(f) for f in facs)))
    return cases


def _split(case):
    t = case.split(" | ")[0].split()
    return t


def tag(case):
    t = _split(case)
    if t[0] in ("msqf", "mcf"):
        return t[0]
    ring = "Z" if t[1] == "0" else "Zp"
    tg = t[0] + ":" + ring
    if t[0] == "ufac" and ring == "Z":
        from math import gcd
        cs = [int(x) for x in t[2].split(",")]
        g = 0
        for c in cs:
            g = gcd(g, c)
        if cs[0] == 0 and len(cs) > 1:
            tg += ":x"
        elif g and abs(cs[-1]) != g:
            tg += ":nonmonic"
    if t[0] == "ufac" and ring == "Zp" and "," not in t[2]:
        tg += ":const"
    return tg


def nontrivial(case):
    """non-trivial: the input is not a constant and has at least one factor of multiplicity >= 1"""
    t = _split(case)
    if t[0] in ("msqf", "mcf"):
        return "x" in t[2]
    return "," in t[2]


def finding_id(case, c_out, m_out):
    if c_out == "ABORT":
        tg = tag(case)
        if tg == "ufac:Z:nonmonic":
            return "C05-factorZ-nonmonic-abort"
        if tg == "ufac:Z:x":
            return "C05-factorZ-xfactor-abort"
        if tg == "ufac:Zp:const":
            return "C05-factorZp-constant-abort"
    return None


def explain(case, c_out, m_out):
    return ("case = operation, modulus (0 = Z) or variable order, input polynomial | planted factorisation; "
            "impl = constant, number of factors, (factor, multiplicity)*; model = verdict of the proved checkers "
            "(multiply back, square-free / coprime / irreducible certificates)")


def extra_coverage(cases, couts, mouts):
    notes = {}
    for m in mouts:
        if m and m.startswith("CHECK ok"):
            for w in m[len("CHECK ok"):].replace(",", " ").split():
                notes[w] = notes.get(w, 0) + 1
    return {"irreducibility_certificates": notes}


RULE = ("seeded structured generator gen/C05.py: products of planted (mostly irreducible) factors with multiplicity patterns "
        "(incl. multiples of p), powers of x, signed content, polynomials that split modulo every prime, many small factors; "
        "distinct = distinct case line; non-trivial = non-constant input")
ASSUMPTIONS = ["the prime moduli used are < 250 (libpoly's Berlekamp limit)"]
TRUSTED = ["ocaml/p_c05.ml: choice of primes / certificates is untrusted search; every accepting decision is an extracted checker",
           "multivariate square-freeness and coprimality: specialisation to univariate images (ORACLE, not proved)",
           "irreducibility verdicts tagged rabin-oracle / bounded-search-oracle / UNVERIFIED are not backed by a theorem"]
