HARNESS = "c16"
STALE_RERUN = True   # operands also re-run as stale external polynomials (see check)
LEVEL = "proof"
"""C16 case generator: bound inference (ib) and Fourier-Motzkin resolution (fm).
Every random choice comes from the one `rng` passed in.  The last token of a case (#...) is the branch tag the
generator aimed at; both drivers ignore it.

  ib <order> <poly> <cond> <negated> <pre> #tag
  fm <order> <p1> <c1> <p2> <c2> <rmode> <v0> .. <v7> #tag            (see harness/c16.c)
"""
from fractions import Fraction

NV = 8
CONDS = ["lt", "le", "eq", "ne", "gt", "ge"]
NEGATE = {"lt": "ge", "le": "gt", "eq": "ne", "ne": "eq", "gt": "le", "ge": "lt"}

ASSUMPTIONS = [
    "the variable order lists every variable of the context (the drivers always pass a permutation of x0..x7)",
    "resolve_fm: at least one of the two polynomials is not a constant (two constants run into "
    "assert(C->type == COEFFICIENT_POLYNOMIAL) of coefficient_reductum_m), and the model assigns every variable below the top one",
]
TRUSTED = [
    "the sign of a non-numeric leading coefficient under the model (coefficient_sgn) is an argument of the Coq model; "
    "the driver passes the exact sign computed with the reference arithmetic of RefAlg.v and also compares it with lp_polynomial_sgn",
    "the number of real roots of the per-variable quadratic is read off the discriminant in the model; the end points "
    "libpoly isolates are compared by denotation with RefAlg.rn_roots of the model's quadratic",
]
EXPLANATION = ("ib: return code, every interval of the interval assignment (end points by denotation = real roots of the model's "
               "quadratic, strictness, untouched entries) and every explaining polynomial (up to a positive factor) are compared with "
               "the extracted model; monitors on the implementation's output: roots of the explaining polynomial = inferred end "
               "points, sample points satisfying the constraint lie inside the returned intervals / no sample point satisfies a "
               "constraint reported as conflict.  fm: success flag, resolvent, its condition, the appended assumptions and their "
               "signs under the model are compared; monitors: the eliminated variable does not occur in R, R cond holds at sample "
               "points where both premises hold and the assumptions keep their signs.")


# ------------------------------------------------------------------------------------------------ text helpers
def term(c, mono):
    """mono: dict var -> exp"""
    s = str(c)
    for v in sorted(mono):
        if mono[v] > 0:
            s += "*x%d^%d" % (v, mono[v])
    return s


def poly_text(terms):
    """terms: list of (coef, {var: exp}); merged and zero-free (the parsers canonicalise the order)"""
    acc = {}
    for c, m in terms:
        k = tuple(sorted((v, e) for v, e in m.items() if e > 0))
        acc[k] = acc.get(k, 0) + c
    out = [term(c, dict(k)) for k, c in acc.items() if c != 0]
    return "+".join(out) if out else "0"


def order_text(rng):
    perm = list(range(NV))
    rng.shuffle(perm)
    return perm


def small(rng, lo=-9, hi=9, nz=False):
    while True:
        v = rng.randint(lo, hi)
        if v or not nz:
            return v


# machine-word boundaries: values whose square / product / 4-fold leaves 32 or 64 bits, and multi-limb values.
# The models compute in unbounded Z, so any machine-word shortcut in the C code shows up as a disagreement.
WIDE_B = [46340, 46341, 65536, 70000, 2**31 - 1, 2**31, 2**31 + 1, 3037000499, 3037000500, 3037000501, 4000000000,
          2**32 - 1, 2**32, 2**32 + 1, 6000000000, 2**62, 2**63 - 1, 2**63, 2**63 + 1, 2**64 - 1, 2**64, 2**64 + 1,
          2**64 + 1]
HUGE_B = [10**25 + 7, 2**127 + 5]      # several limbs (rare: the reference root isolation gets slow)
WIDE_A = [1, 1, 3, 2**29, 2**30, 2**31 - 1, 2**31, 2**32 + 1, 2**61, 2**62, 2**63 - 1, 2**63, 2**64 + 3]
WIDE_C = [2**31, 2**32 + 1, 2**62, 2**63, 2**64 + 1, 9223372030926249001, 10**30]


def wide(rng, pool):
    if pool is WIDE_B and rng.random() < 0.05:
        pool = HUGE_B
    return rng.choice([1, -1]) * rng.choice(pool)


# ------------------------------------------------------------------------------------------------ infer_bounds
def gen_ib(rng):
    perm = order_text(rng)
    k = rng.choice([1, 1, 2, 2, 2, 3, 3, 4])
    vs = rng.sample(range(NV), k)
    shape = rng.random()
    terms = []
    tag = "sq%d" % k
    D = Fraction(0)
    big = rng.random() < 0.06
    wd = rng.random() < 0.07           # machine-word boundary coefficients
    exact = rng.random() < 0.45        # B = 2 A t: the square completes over the integers
    if wd:
        tag = "wide%d" % k
    AB = []
    for v in vs:
        A = rng.choice([1, 1, 1, 2, 3, 4, 5, 7, 9, 12]) * (1000003 if big and rng.random() < 0.5 else 1)
        if wd and rng.random() < 0.4:
            A = rng.choice(WIDE_A)
        if exact:
            t = rng.choice([0, 0, 1, -1, 2, -3, 5])
            B = 2 * A * t
        else:
            B = rng.choice([0, 0, 1, -1, 2, 3, -5, 7, -8, 11])
        if wd and rng.random() < 0.6:
            B = wide(rng, WIDE_B)
        AB.append((v, A, B))
        D += Fraction(B * B, 4 * A)
    # the constant: D_final = D - C0
    dk = rng.random()
    if dk < 0.2:
        want = "Dneg"
        C0 = int(D) + rng.choice([1, 2, 5, 40]) + (0 if D == int(D) else 1)
    elif dk < 0.4 and D.denominator == 1:
        want = "Dzero"
        C0 = int(D)
    elif dk < 0.6:
        want = "Dsquare"
        r = rng.choice([1, 2, 3, 5, 10])
        C0 = int(D) - r * r if D.denominator == 1 else int(D) - r * r
    else:
        want = "Dpos"
        C0 = int(D) - rng.choice([1, 2, 3, 5, 6, 7, 10, 11, 13, 1000, 10**12 + 1] + (WIDE_C if wd else []))
    tag += ":" + want
    for v, A, B in AB:
        terms.append((A, {v: 2}))
        terms.append((B, {v: 1}))
    terms.append((C0, {}))
    # ---- shapes that must be refused (or are boundary cases of the peeling loop)
    if shape < 0.30:
        v = rng.choice(vs)
        kind = rng.choice(["negA", "zeroA", "paramA", "paramB", "cross", "cubic", "linvar", "mixedsign", "biquad"])
        others = [u for u in range(NV) if u != v]
        u = rng.choice(others)
        if kind == "negA":
            terms = [(-c, m) if m == {v: 2} else (c, m) for c, m in terms]
        elif kind == "zeroA":
            terms = [(c, m) for c, m in terms if m != {v: 2}] + [(small(rng, nz=True), {v: 1})]
        elif kind == "paramA":
            terms.append((small(rng, nz=True), {v: 2, u: 1}))
        elif kind == "paramB":
            terms.append((small(rng, nz=True), {v: 1, u: 1}))
        elif kind == "cross":
            terms.append((small(rng, nz=True), {v: 1, u: 2}))
        elif kind == "cubic":
            terms.append((small(rng, nz=True), {v: rng.choice([3, 4])}))
        elif kind == "linvar":
            terms.append((small(rng, nz=True), {u: 1}))
        elif kind == "mixedsign":
            terms.append((-rng.choice([1, 2, 3]), {u: 2}))
        elif kind == "biquad":
            terms.append((rng.choice([1, 2]), {v: 2, u: 2}))
        tag = "refuse:" + kind
    elif shape < 0.34:
        terms = [(rng.choice([0, 0, 5, -3]), {})]
        tag = "constant"
    # ---- condition, polarity, sign of the polynomial
    if rng.random() < 0.65:
        eff = rng.choice(["lt", "le", "le", "eq"])
        sign = 1
        if rng.random() < 0.5:
            # the same constraint written with the opposite sign
            sign = -1
            eff = {"lt": "gt", "le": "ge", "eq": "eq"}[eff]
        neg = rng.randint(0, 1)
        cond = NEGATE[eff] if neg else eff
    else:
        cond = rng.choice(CONDS)
        neg = rng.randint(0, 1)
        sign = rng.choice([1, -1])
        eff = NEGATE[cond] if neg else cond
    if sign < 0:
        terms = [(-c, m) for c, m in terms]
    tag += ":" + eff
    return "ib %s %s %s %d %d #ib:%s" % (",".join(map(str, perm)), poly_text(terms), cond, neg, rng.randint(0, 1), tag)


# ------------------------------------------------------------------------------------------------ resolve_fm
ALG = [("r:-2,0,1:1", "sqrt2"), ("r:-2,0,1:0", "-sqrt2"), ("r:-3,0,1:1", "sqrt3"), ("r:-2,0,0,1:0", "cbrt2"),
       ("r:-1,-1,1:1", "phi"), ("r:-1,-1,1:0", "1-phi")]


def value_token(rng, allow_alg=True):
    k = rng.random()
    if k < 0.45:
        return "z:%d" % rng.choice([0, 0, 1, -1, 2, -2, 3, 5, -7])
    if k < 0.65:
        n = small(rng, nz=True)
        d = rng.choice([2, 3, 5, 7])
        f = Fraction(n, d)
        return "q:%d/%d" % (f.numerator, f.denominator)
    if k < 0.8 or not allow_alg:
        a = rng.choice([1, -1, 3, -5, 7])
        return "d:%d/%d" % (a, rng.choice([1, 2, 3]))
    return rng.choice(ALG)[0]


def value_of_token_approx(t):
    """Fraction for exact tokens, None for algebraic ones"""
    if t.startswith("z:"):
        return Fraction(int(t[2:]))
    if t.startswith("q:"):
        a, b = t[2:].split("/")
        return Fraction(int(a), int(b))
    if t.startswith("d:"):
        a, n = t[2:].split("/")
        return Fraction(int(a), 2 ** int(n))
    return None


def lower_poly(rng, lows, vals, want=None):
    """a polynomial over the lower variables as a term list; `want` in {None, 'zero'}: vanish under the model
    (only possible through a rational value)"""
    if not lows:
        return [(small(rng, nz=True), {})]
    y = rng.choice(lows)
    vy = value_of_token_approx(vals[y])
    if want == "zero":
        if vy is None:
            # algebraic value: use its minimal polynomial where we know it
            tok = vals[y]
            if tok.startswith("r:-2,0,1"):
                return [(1, {y: 2}), (-2, {})]
            if tok.startswith("r:-3,0,1"):
                return [(1, {y: 2}), (-3, {})]
            if tok.startswith("r:-1,-1,1"):
                return [(1, {y: 2}), (-1, {y: 1}), (-1, {})]
            return [(1, {y: 3}), (-2, {})]
        # den*y - num
        s = rng.choice([1, -1, 2])
        return [(s * vy.denominator, {y: 1}), (-s * vy.numerator, {})]
    k = rng.random()
    if k < 0.35:
        return [(small(rng, nz=True), {y: 1}), (small(rng), {})]
    if k < 0.55 and len(lows) > 1:
        z = rng.choice([u for u in lows if u != y])
        return [(small(rng, nz=True), {y: 1, z: 1}), (small(rng), {})]
    if k < 0.75:
        return [(rng.choice([1, -1, 2]), {y: 2}), (small(rng), {})]
    if k < 0.9:
        return [(small(rng, nz=True), {y: 1})]
    return [(1, {y: 2}), (rng.choice([-2, -3, 2]), {})]


def mul_x(terms, x, e):
    return [(c, dict(list(m.items()) + [(x, e)])) for c, m in terms]


def gen_fm(rng):
    perm = order_text(rng)                       # bottom first
    pos = rng.randint(1, NV - 1)
    x = perm[pos]
    lows = perm[:max(0, pos)]
    lows_used = lows[-3:] if len(lows) > 3 else lows
    n_alg = 0
    vals = ["none"] * NV
    for v in lows:
        t = value_token(rng, allow_alg=(n_alg < 1))
        if t.startswith("r:"):
            n_alg += 1
        vals[v] = t
    if rng.random() < 0.3:
        vals[x] = value_token(rng, allow_alg=False)   # the top variable may or may not be assigned
    tags = []
    wd = rng.random() < 0.12          # machine-word boundary coefficients

    def side():
        kind = rng.random()
        terms = []
        if kind < 0.45:
            lc = [(small(rng, -5, 5, nz=True), {})]
            if wd:
                lc = [(wide(rng, WIDE_B), {})]
            tags.append("num")
        elif kind < 0.85:
            lc = lower_poly(rng, lows_used, vals)
            tags.append("par")
        else:
            lc = lower_poly(rng, lows_used, vals, want="zero")   # vanishing leading coefficient: not linear any more
            tags.append("lc0")
        terms += mul_x(lc, x, 1)
        hk = rng.random()
        if hk < 0.22:
            # a higher-degree term whose coefficient vanishes under the model: reductum drops it
            terms += mul_x(lower_poly(rng, lows_used, vals, want="zero"), x, rng.choice([2, 2, 3]))
            tags.append("drop")
            if rng.random() < 0.3:
                terms += mul_x(lower_poly(rng, lows_used, vals, want="zero"), x, 4)
        elif hk < 0.30:
            terms += mul_x(lower_poly(rng, lows_used, vals), x, 2)          # most likely stays quadratic: refused
            tags.append("deg2")
        if rng.random() < 0.6:
            terms.append((wide(rng, WIDE_B + WIDE_C) if wd and rng.random() < 0.7 else small(rng), {}))
        else:
            terms += lower_poly(rng, lows_used, vals)
        if wd and rng.random() < 0.4:
            terms = [(c * rng.choice(WIDE_A), m) for c, m in terms]
        return terms

    t1, t2 = side(), side()
    sp = rng.random()
    if sp < 0.04:
        t2 = lower_poly(rng, lows_used, vals) if lows_used else [(1, {x: 1})]     # p2 without the top variable
        tags.append("othertop")
    elif sp < 0.07:
        t1 = [(small(rng, nz=True), {})]                                           # p1 constant
        tags.append("const1")
    p1, p2 = poly_text(t1), poly_text(t2)
    if p1 == "0" or ("x" not in p1 and "x" not in p2):
        p1 = term(1, {x: 1})
    c1, c2 = rng.choice(CONDS), rng.choice(CONDS)
    if rng.random() < 0.5:
        # bias to the pairs the table accepts
        c1 = rng.choice(["lt", "le", "gt", "ge"])
        c2 = rng.choice(["lt", "le", "gt", "ge", "eq"])
    return "fm %s %s %s %s %s %d %s #fm:%s%s:%s%s" % (",".join(map(str, perm)), p1, c1, p2, c2, rng.choice([0, 0, 1, 2, 3]),
                                                     " ".join(vals), "wide-" if wd else "", "+".join(tags[:2]), c1, c2)


def generate(rng, tier):
    n = 6000 if tier == "quick" else 120000
    cases = []
    for _ in range(n):
        if rng.random() < 0.5:
            cases.append(gen_ib(rng))
        else:
            cases.append(gen_fm(rng))
    return cases


def tag(case):
    """coarse branch tag: ib:<shape>[:<refusal kind>] or fm:<kinds of the two leading coefficients>"""
    t = case.split()
    if t and t[-1].startswith("#"):
        f = t[-1][1:].split(":")
        if f[0] == "ib":
            return ":".join(f[:3]) if f[1] == "refuse" else ":".join(f[:2])
        return ":".join(f[:2])
    return t[0]


def nontrivial(case):
    t = case.split()
    if t[0] == "ib":
        return "^2" in t[2]
    if t[0] == "fm":
        return "x" in t[2] and "x" in t[4]
    return False


def explain(case, c_out, m_out):
    return ("model driver verdict: %s.  C output tokens: ib = code, 8 intervals a_open|lower|upper|b_open, 8 explaining "
            "polynomials; fm = ok, R, condition, number of appended assumptions, then polynomial/sign pairs." % m_out)


def extra_coverage(cases, couts, mouts):
    ib = {"1": 0, "0": 0, "-1": 0}
    fm = {"1": 0, "0": 0}
    alg_ends = 0
    with_assum = 0
    for c, o in zip(cases, couts):
        if not o:
            continue
        t = o.split()
        if c.startswith("ib") and t and t[0] in ib:
            ib[t[0]] += 1
            if "|a:" in o:
                alg_ends += 1
        elif c.startswith("fm") and t and t[0] in fm:
            fm[t[0]] += 1
            if len(t) > 3 and t[3] != "0":
                with_assum += 1
    return {"ib_return_codes": ib, "ib_with_irrational_end_points": alg_ends, "fm_success": fm,
            "fm_with_recorded_assumptions": with_assum}
