HARNESS = "c17"
LEVEL = "proof"
"""C17 case generator: scalar numbers.  Every random choice comes from the one `rng` passed in."""

BIG = [2**63 - 1, 2**63, 2**64 - 1, 2**64, 2**64 + 1, 2**127 + 12345, 3**90, 2**200 + 1, 10**40 + 7]
MODULI = [1, 2, 3, 4, 5, 6, 7, 8, 9, 12, 13, 16, 101, 2**32, 2**32 + 15, 2**61 - 1, 2**64 + 13, (2**64 + 13) * 3,
          2**89 - 1, 10**30, 15485863 * 32452843]


def isprime(n):
    if n < 2:
        return False
    for p in (2, 3, 5, 7, 11, 13, 17, 19, 23, 29, 31, 37):
        if n % p == 0:
            return n == p
    d, s = n - 1, 0
    while d % 2 == 0:
        d //= 2
        s += 1
    for a in (2, 3, 5, 7, 11, 13, 17, 19, 23, 29, 31, 37):
        x = pow(a, d, n)
        if x in (1, n - 1):
            continue
        for _ in range(s - 1):
            x = x * x % n
            if x == n - 1:
                break
        else:
            return False
    return True


def zint(rng):
    k = rng.random()
    if k < 0.25:
        v = rng.randint(-20, 20)
    elif k < 0.45:
        v = rng.choice([1, -1]) * (2 ** rng.randint(0, 130) + rng.choice([-1, 0, 1]))
    elif k < 0.65:
        v = rng.choice([1, -1]) * rng.choice(BIG) + rng.randint(-2, 2)
    else:
        v = rng.randint(-10**rng.randint(1, 45), 10**rng.randint(1, 45))
    return v


def ring_lb(m): return -((m - 1) // 2)
def ring_ub(m): return m // 2


def in_ring(rng, m):
    """a representative in the symmetric range, biased to the boundaries"""
    if m == 0:
        return zint(rng)
    lb, ub = ring_lb(m), ring_ub(m)
    k = rng.random()
    if k < 0.35:
        return rng.choice([lb, ub, lb + 1 if lb + 1 <= ub else lb, ub - 1 if ub - 1 >= lb else ub, 0])
    return rng.randint(lb, ub)


def modulus(rng):
    k = rng.random()
    if k < 0.2:
        return 0
    if k < 0.8:
        return rng.choice(MODULI)
    return rng.randint(2, 10**rng.randint(1, 30))


def dy(rng):
    """normalised dyadic (a, n)"""
    k = rng.random()
    if k < 0.1:
        return (0, 0)
    if k < 0.35:
        return (zint(rng), 0)
    n = rng.choice([1, 1, 2, 3, 5, 8, 63, 64, 65, 200, rng.randint(1, 130)])
    a = zint(rng) | 1
    return (a, n)


def rat(rng):
    from math import gcd
    k = rng.random()
    if k < 0.15:
        return (zint(rng), 1)
    d = abs(zint(rng)) or 1
    if k < 0.4:
        d = 2 ** rng.randint(1, 70)
    n = zint(rng)
    g = gcd(n, d)
    return (n // g, d // g)


def exhaustive_small_rings(maxm):
    """every modulus 2..maxm, every pair of residues in the symmetric range, every binary/unary ring operation"""
    from math import gcd
    cases = []
    for m in range(2, maxm + 1):
        pr = 1 if isprime(m) else 0
        rs = list(range(ring_lb(m), ring_ub(m) + 1))
        for a in rs:
            for op in ("ineg", "iinc", "idec", "isgn", "iinring", "iabs"):
                cases.append("%s %d %d" % (op, m, a))
            cases.append("inorm %d %d" % (m, a + m)); cases.append("inorm %d %d" % (m, a - m)); cases.append("inorm %d %d" % (m, a * m + a))
            if gcd(a, m) == 1:
                cases.append("iinv %d %d" % (m, a))
            for b in rs:
                for op in ("iadd", "isub", "imul", "icmp"):
                    cases.append("%s %d %d %d" % (op, m, a, b))
                if not (pr and a == 0):
                    cases.append("idivides %d %d %d %d" % (m, pr, a, b))
                prod = (a * b) % m
                if prod > ring_ub(m):
                    prod -= m
                cases.append("idivexact %d %d %d" % (m, prod, b))
    return cases


def generate(rng, tier, corpus_only=False):
    n = 6000 if tier == "quick" else 120000
    cases = exhaustive_small_rings(7 if tier == "quick" else 16)
    iops2 = ["iadd", "isub", "imul"]
    for _ in range(n):
        k = rng.random()
        if k < 0.40:
            m = modulus(rng)
            op = rng.choice(iops2 + ["ineg", "iabs", "iinc", "idec", "ipow", "imulpow2", "imulint", "iaddmul", "isubmul",
                                     "iaddmulint", "isgn", "icmp", "icmpint", "iiszero", "iinring", "inorm", "iinv",
                                     "idivides", "idivexact", "idivZ", "igcd", "isqrt", "ringbounds"])
            a, b, s = in_ring(rng, m), in_ring(rng, m), in_ring(rng, m)
            if op in iops2:
                cases.append("%s %d %d %d" % (op, m, a, b))
            elif op in ("ineg", "iabs", "iinc", "idec"):
                cases.append("%s %d %d" % (op, m, a))
            elif op == "ipow":
                cases.append("%s %d %d %d" % (op, m, a, rng.choice([0, 1, 2, 3, 5, 17, 64]) if m else rng.choice([0, 1, 2, 3, 7])))
            elif op == "imulpow2":
                cases.append("%s %d %d %d" % (op, m, a, rng.choice([0, 1, 2, 31, 63, 64, 100])))
            elif op == "imulint":
                cases.append("%s %d %d %d" % (op, m, a, rng.choice([0, 1, -1, 2, -3, 2**31, -2**62, 2**63 - 1, -2**63])))
            elif op in ("iaddmul", "isubmul"):
                cases.append("%s %d %d %d %d" % (op, m, s, a, b))
            elif op == "iaddmulint":
                # b an int; INT_MIN excluded (negating it in C is signed overflow, outside the documented domain)
                cases.append("%s %d %d %d %d" % (op, m, s, a, rng.choice([0, 1, -1, 7, -9, 2**31 - 1, -(2**31 - 1)])))
            elif op in ("isgn", "iiszero", "iinring", "inorm"):
                cases.append("%s %d %d" % (op, m, zint(rng) if rng.random() < 0.7 else a))
            elif op == "icmp":
                x, y = (zint(rng), zint(rng)) if rng.random() < 0.5 else (a, b)
                if m and rng.random() < 0.3:
                    y = x + m * rng.randint(-3, 3)
                cases.append("%s %d %d %d" % (op, m, x, y))
            elif op == "icmpint":
                cases.append("%s %d %d %d" % (op, m, zint(rng), rng.choice([0, 1, -1, 5, -2**63, 2**63 - 1, rng.randint(-100, 100)])))
            elif op == "iinv":
                from math import gcd
                if m >= 2 and gcd(a, m) == 1:
                    cases.append("%s %d %d" % (op, m, a))
            elif op == "idivides":
                if m == 0:
                    x = zint(rng)
                    y = x * rng.randint(-5, 5) if rng.random() < 0.5 else zint(rng)
                    cases.append("%s 0 0 %d %d" % (op, x, y))
                elif m >= 2:
                    # prime rings: the code documents "a in the ring"; a = 0 excluded (restriction, see Properties_C17)
                    pr = 1 if isprime(m) else 0
                    if pr and a == 0:
                        a = 1
                    cases.append("%s %d %d %d %d" % (op, m, pr, a, b))
            elif op == "idivexact":
                from math import gcd
                if m == 0:
                    x = zint(rng) or 1
                    cases.append("%s 0 %d %d" % (op, x * zint(rng), x))
                elif m >= 2:
                    g = gcd(b, m)
                    x = in_ring(rng, m)
                    prod = (x * b) % m
                    if prod > ring_ub(m):
                        prod -= m
                    cases.append("%s %d %d %d" % (op, m, prod, b))
            elif op == "idivZ":
                y = zint(rng) or 3
                cases.append("%s %d %d" % (op, zint(rng), y))
            elif op == "igcd":
                g = abs(zint(rng))
                cases.append("%s %d %d" % (op, g * rng.randint(-50, 50), g * rng.randint(-50, 50)))
            elif op == "isqrt":
                v = abs(zint(rng))
                cases.append("%s %d" % (op, rng.choice([v, v * v, v * v - 1 if v else 0, v * v + 1])))
            elif op == "ringbounds" and m >= 1:
                cases.append("%s %d" % (op, m))
        elif k < 0.65:
            op = rng.choice(["qcons", "qadd", "qsub", "qmul", "qdiv", "qneg", "qinv", "qpow", "qmul2exp", "qdiv2exp",
                             "qaddint", "qobs", "qcmp", "qcmpint", "qcmpdy", "qfromdy"])
            x, y = rat(rng), rat(rng)
            if op == "qcons":
                d = zint(rng) or 1
                g = rng.randint(1, 12)
                if rng.random() < 0.25:
                    # unit and tiny denominators of either sign (nothing to cancel, but the sign must move to the numerator)
                    d, g = rng.choice([1, -1, -1, 2, -2, -3]), 1
                cases.append("%s %d %d" % (op, zint(rng) * g, d * g))
            elif op in ("qadd", "qsub", "qmul", "qdiv", "qcmp"):
                if rng.random() < 0.2:
                    y = x if rng.random() < 0.5 else (-x[0], x[1])
                cases.append("%s %d %d %d %d" % (op, x[0], x[1], y[0], y[1]))
            elif op in ("qneg", "qinv", "qobs"):
                cases.append("%s %d %d" % (op, x[0], x[1]))
            elif op == "qpow":
                cases.append("%s %d %d %d" % (op, x[0], x[1], rng.choice([0, 1, 2, 3, 4, 7, 8])))
            elif op in ("qmul2exp", "qdiv2exp"):
                cases.append("%s %d %d %d" % (op, x[0], x[1], rng.choice([0, 1, 2, 5, 63, 64, 70])))
            elif op == "qaddint":
                cases.append("%s %d %d %d" % (op, x[0], x[1], zint(rng)))
            elif op == "qcmpint":
                z = zint(rng) if rng.random() < 0.5 else x[0] // x[1] + rng.choice([0, 1])
                cases.append("%s %d %d %d" % (op, x[0], x[1], z))
            elif op == "qcmpdy":
                d = dy(rng)
                if rng.random() < 0.3:
                    x = (d[0], 2 ** d[1])
                cases.append("%s %d %d %d %d" % (op, x[0], x[1], d[0], d[1]))
            elif op == "qfromdy":
                d = dy(rng)
                cases.append("%s %d %d" % (op, d[0], d[1]))
        else:
            if rng.random() < 0.06:
                # construction from doubles: exact value from Python (IEEE double), incl. subnormal-free extremes
                import struct
                k2 = rng.random()
                if k2 < 0.3:
                    x = float(rng.randint(-2**53, 2**53)) * 2.0 ** rng.randint(-80, 80)
                elif k2 < 0.6:
                    x = rng.uniform(-1e6, 1e6)
                elif k2 < 0.8:
                    x = rng.choice([0.0, 1.0, -1.0, 0.5, -0.75, 0.1, 1e300, -1e-300, 2.0**-1000, 3.0 * 2.0**1000, 1.0 / 3.0])
                else:
                    x = struct.unpack("<d", struct.pack("<Q", rng.getrandbits(64) & 0x7fefffffffffffff | (rng.getrandbits(1) << 63)))[0]
                    if abs(x) < 2.0**-1020:
                        x = 1.5
                nn, dd = x.as_integer_ratio()
                cases.append("dfromd %s %d %d" % (x.hex(), nn, dd))
                continue
            op = rng.choice(["dcons", "dadd", "dsub", "dmul", "dneg", "dneg", "daddint", "dmul2exp", "dmul2exp", "ddiv2exp",
                             "dpow", "dobs", "dcmp", "dcmpint", "dcmprat", "droot", "dbetween"])
            a, b, u = dy(rng), dy(rng), dy(rng)
            if op == "dcons":
                cases.append("%s %d %d" % (op, rng.choice([0, 1, -1, 6, -40, 2**62, -2**63, rng.randint(-2**40, 2**40)]),
                                           rng.choice([0, 1, 2, 3, 40, 64, 100])))
            elif op in ("dadd", "dsub", "dmul"):
                if rng.random() < 0.25:
                    b = (a[0] if rng.random() < 0.5 else -a[0], a[1])
                elif op != "dmul" and rng.random() < 0.2:
                    # cancellation that leaves a numerator with MANY trailing zero bits over a large exponent: the result
                    # must be normalised by stripping k >= 60 (also > 64, > 128) factors of two
                    k2, n2 = rng.choice([60, 63, 64, 65, 66, 90, 127, 128, 129, 200]), rng.choice([64, 65, 66, 100, 130, 200, 260])
                    v = rng.randint(-2**20, 2**20) | 1
                    a = ((rng.randint(-50, 50) | 1) * 2**k2 + v, n2)
                    b = (-v, n2) if op == "dadd" else (v, n2)
                    if rng.random() < 0.3:
                        a, b = (b, a) if op == "dadd" else (a, b)
                cases.append("%s %d %d %d %d %d %d" % (op, a[0], a[1], b[0], b[1], u[0], u[1]))
            elif op == "dneg":
                cases.append("%s %d %d %d %d" % (op, a[0], a[1], u[0], u[1]))
            elif op == "daddint":
                cases.append("%s %d %d %d %d %d" % (op, a[0], a[1], zint(rng), u[0], u[1]))
            elif op in ("dmul2exp", "ddiv2exp"):
                n = rng.choice([0, 1, 2, a[1], a[1] + 1, max(a[1] - 1, 0), 64, 200])
                cases.append("%s %d %d %d %d %d" % (op, a[0], a[1], n, u[0], u[1]))
            elif op == "dpow":
                cases.append("%s %d %d %d %d %d" % (op, a[0], a[1], rng.choice([0, 1, 2, 3, 6]), u[0], u[1]))
            elif op == "dobs":
                cases.append("%s %d %d" % (op, a[0], a[1]))
            elif op == "dcmp":
                if rng.random() < 0.3:
                    b = (a[0] + rng.choice([-2, 0, 2]) if a[1] else a[0] + rng.choice([-1, 0, 1]), a[1])
                cases.append("%s %d %d %d %d" % (op, a[0], a[1], b[0], b[1]))
            elif op == "dcmpint":
                z = zint(rng) if rng.random() < 0.4 else (a[0] >> a[1]) + rng.choice([0, 1])
                cases.append("%s %d %d %d" % (op, a[0], a[1], z))
            elif op == "dcmprat":
                q = rat(rng)
                if rng.random() < 0.3:
                    q = (a[0], 2 ** a[1])
                cases.append("%s %d %d %d %d" % (op, a[0], a[1], q[0], q[1]))
            elif op == "droot":
                aa = (abs(a[0]), a[1]) if a[1] < 80 else (abs(a[0]), a[1] % 70)
                if aa[1] and aa[0] % 2 == 0:
                    aa = (aa[0] + 1, aa[1])
                if rng.random() < 0.3:   # perfect powers
                    n = rng.choice([2, 3, 4, 5])
                    r = rng.randint(1, 50) * 2 + 1
                    e = rng.randint(0, 4)
                    aa = (r ** n, e * n)
                    cases.append("droot %d %d %d %d %d" % (aa[0], aa[1], n, rng.choice([0, 1, 5, 16, 33]), rng.randint(0, 1)))
                else:
                    cases.append("droot %d %d %d %d %d" % (aa[0], aa[1], rng.choice([1, 2, 3, 3, 4, 5, 7]),
                                                          rng.choice([0, 1, 2, 5, 7, 16, 33, 64]), rng.randint(0, 1)))
            elif op == "dbetween":
                x, y = rat(rng), rat(rng)
                if rng.random() < 0.5:
                    from fractions import Fraction
                    f = Fraction(x[0], x[1]) + Fraction(1, rng.choice([1, 2, 3, 1000, 2**40, 10**30]))
                    y = (f.numerator, f.denominator)
                if x[0] * y[1] == y[0] * x[1]:
                    continue
                if x[0] * y[1] > y[0] * x[1]:
                    x, y = y, x
                cases.append("dbetween %d %d %d %d" % (x[0], x[1], y[0], y[1]))
    return cases


def tag(case):
    """branch tag of a case = operation name (+ ring kind)"""
    t = case.split()
    if t[0][0] == "i" and len(t) > 1:
        return t[0] + (":Z" if t[1] == "0" else ":Zm")
    return t[0]


def nontrivial(case):
    """non-trivial: involves a non-zero operand and, for ring ops, a modulus >= 2"""
    t = case.split()
    nums = [x for x in t[1:] if x.lstrip("-").isdigit()]
    if all(x in ("0", "1") for x in nums):
        return False
    return True


def extra_coverage(cases, couts, mouts):
    return {"exhaustive_subspace": "all moduli 2..7 (quick) / 2..16 (thorough) x all residue pairs x ring operations enumerated completely; the rest is sampled",
            "exhaustive": False}
