HARNESS = "c07"
LEVEL = "translation_validation"
TIMEOUT = 7200   # model driver (the verified acceptance checker recomputes Sturm chains: thorough runs take 20-40 min on a loaded machine)
"""C07 case generator: real algebraic numbers.  Every random choice comes from the one `rng` passed in.

A case:  seq T0 T1 ... | step step ...      (tokens of harness/valio.h; steps of harness/c07.c)
The generator builds operands with exact (Fraction) Sturm sequences so that every `a:` token is an admissible
argument of lp_algebraic_number_construct (primitive polynomial, positive leading coefficient, non-zero constant term,
open dyadic interval with exactly one root and a sign change) and every `r:` token names an existing root."""
from fractions import Fraction as F
from math import gcd

# ------------------------------------------------------------------ exact polynomial helpers (coefficients low first)

def ptrim(p):
    p = list(p)
    while p and p[-1] == 0:
        p.pop()
    return p


def peval(p, x):
    r = F(0)
    for c in reversed(p):
        r = r * x + c
    return r


def pmul(a, b):
    if not a or not b:
        return []
    r = [0] * (len(a) + len(b) - 1)
    for i, x in enumerate(a):
        for j, y in enumerate(b):
            r[i + j] += x * y
    return r


def pderiv(p):
    return ptrim([i * c for i, c in enumerate(p)][1:])


def prem(a, b):
    a = [F(x) for x in a]
    b = [F(x) for x in b]
    while len(a) >= len(b) and a:
        q = a[-1] / b[-1]
        s = len(a) - len(b)
        for i, c in enumerate(b):
            a[s + i] -= q * c
        a = ptrim(a)
    return a


def sturm(p):
    ch = [[F(c) for c in p], [F(c) for c in pderiv(p)]]
    while ch[-1]:
        r = prem(ch[-2], ch[-1])
        ch.append([-c for c in r])
    ch.pop()
    return ch


def sgn(x):
    return (x > 0) - (x < 0)


def variations(ch, x):
    """x a Fraction, or '-inf' / '+inf'"""
    signs = []
    for q in ch:
        if x == '+inf':
            s = sgn(q[-1])
        elif x == '-inf':
            s = sgn(q[-1]) * (-1 if (len(q) - 1) % 2 else 1)
        else:
            s = sgn(peval(q, x))
        if s:
            signs.append(s)
    return sum(1 for a, b in zip(signs, signs[1:]) if a != b)


def primitive(p):
    p = ptrim(p)
    g = 0
    for c in p:
        g = gcd(g, c)
    p = [c // g for c in p]
    if p[-1] < 0:
        p = [-c for c in p]
    return p


class Poly:
    """a polynomial with its Sturm chain and isolated real roots (intervals with dyadic ends, p(lo) != 0 != p(hi))"""
    cache = {}

    def __init__(self, p):
        self.p = ptrim(p)
        self.ch = sturm(self.p)
        self.nroots = variations(self.ch, '-inf') - variations(self.ch, '+inf')
        self.iso = None

    @staticmethod
    def get(p):
        k = tuple(p)
        if k not in Poly.cache:
            Poly.cache[k] = Poly(p)
        return Poly.cache[k]

    def count(self, lo, hi):
        """distinct roots in the open interval (lo, hi); requires p(lo) != 0 != p(hi)"""
        return variations(self.ch, lo) - variations(self.ch, hi)

    def isolate(self):
        if self.iso is not None:
            return self.iso
        b = 1
        while variations(self.ch, F(-b)) - variations(self.ch, F(b)) != self.nroots or peval(self.p, F(b)) == 0 or peval(self.p, F(-b)) == 0:
            b *= 2
        out = []

        def rec(lo, hi, n):
            if n == 0:
                return
            if n == 1:
                out.append((lo, hi))
                return
            m = (lo + hi) / 2
            k = 0
            while peval(self.p, m) == 0:      # avoid splitting on a root
                k += 1
                m = lo + (hi - lo) * F(2 ** k + 1, 2 ** (k + 2))
            nl = self.count(lo, m)
            rec(lo, m, nl)
            rec(m, hi, n - nl)
        rec(F(-b), F(b), self.nroots)
        self.iso = out
        return out


def dy_tok(x):
    """Fraction with power-of-two denominator -> 'a/n'"""
    n = x.denominator.bit_length() - 1
    assert x.denominator == 1 << n
    return "%d/%d" % (x.numerator, n)


def coeffs(p):
    return ",".join(str(c) for c in p)


# ------------------------------------------------------------------ operand tokens

SQRT2 = [-2, 0, 1]
SQRT3 = [-3, 0, 1]
S23 = [1, 0, -10, 0, 1]          # sqrt2 + sqrt3 and conjugates
CBRT2 = [-2, 0, 0, 1]
GOLD = [-1, -1, 1]
FIXED = [SQRT2, SQRT3, S23, CBRT2, GOLD, [-5, 0, 1], [-2, 0, 0, 0, 1], [1, -3, 0, 1], [-1, -1, 0, 1], [2, -4, 0, 1], [-1, 0, 8]]
# secretly rational: linear polynomials and products with a rational root
SECRET = [[-1, 2], [-1, 3], [7, 3], [-3, 1], [2, -4, -1, 2], [2, -6, -1, 3], [6, -2, -3, 1], [14, 6, -7, -3], [6, -4, -3, 2],
          [-3, 4], [5, 8], [-1, 0, 4], [-9, 0, 4], [-1, 0, 0, 8]]
GRID = sorted(set([F(k) for k in range(-9, 10)] + [F(k, 2) for k in range(-9, 10)] + [F(k, 4) for k in range(-8, 9)] +
                  [F(k, 16) for k in (-3, -1, 1, 3, 5, 23, 25)] + [F(32), F(-32), F(100), F(-100)]))


# sparse polynomials of degree 5..8 (large powers) and 9..11 (products with low-degree numbers): long remainder
# sequences with DEGREE GAPS in the library's subresultant code (S_e_optimized), cheap for the reference
HIGH_POW = [[-3, 0, 0, 0, 0, 0, 1], [-2, 0, 0, 0, 0, 1], [-1, -1, 0, 0, 0, 0, 0, 1], [-5, 0, 0, 0, 0, 0, 0, 0, 1],
            [-2, 0, 0, 0, 0, 0, 1], [-1, -1, 0, 0, 0, 1], [-3, 0, 0, 0, 0, 0, 0, 1], [1, -3, 0, 0, 0, 0, 1], [-7, 0, 0, 0, 0, 2]]
HIGH_MUL = [[-2] + [0] * 10 + [1], [-3] + [0] * 8 + [1], [-2] + [0] * 9 + [1], [-1, -1] + [0] * 7 + [1], [-5] + [0] * 10 + [1],
            [-3] + [0] * 10 + [2]]
LOW_MUL = [SQRT2, SQRT3, CBRT2, GOLD, [-5, 0, 1], [-1, -1, 0, 1], [1, -3, 0, 1], [-3, 0, 0, 1]]


def root_token(rng, p, positive=True):
    P = Poly.get(p)
    idx = P.nroots - 1 if positive else rng.randrange(P.nroots)
    if rng.random() < 0.5:
        return "r:%s:%d" % (coeffs(p), idx)
    return alg_token(rng, p, idx)[0]


def high_degree_case(rng):
    """large powers of degree 5..8 numbers; sums / products of a degree 2..3 with a degree 9..11 number"""
    k = rng.random()
    if k < 0.5:
        x = root_token(rng, rng.choice(HIGH_POW), rng.random() < 0.7)
        n = rng.randint(5, 13)
        steps = ["pow:1:0:%d" % n, "sgn:1", rng.choice(["floor:1", "ceil:1", "cmpz:1:f", "isint:1", "cmpd:1:m"])]
        if rng.random() < 0.4:
            steps += ["pow:2:0:%d" % rng.randint(5, 13), "cmp:1:2"]
        return "seq %s | %s" % (x, " ".join(steps))
    if k < 0.9:
        op = rng.choice(["mul", "mul", "div", "add", "sub"])
        if op in ("add", "sub"):
            # sums are dense: keep to degree 2 with degree 9..10 (reference cost ~0.1 s)
            x = root_token(rng, rng.choice([SQRT2, SQRT3, GOLD, [-5, 0, 1]]), rng.random() < 0.6)
            y = root_token(rng, rng.choice([[-3] + [0] * 8 + [1], [-2] + [0] * 9 + [1], [-1, -1] + [0] * 7 + [1]]), rng.random() < 0.7)
        else:
            x = root_token(rng, rng.choice(LOW_MUL), rng.random() < 0.6)
            y = root_token(rng, rng.choice(HIGH_MUL), rng.random() < 0.7)
        if rng.random() < 0.5:
            x, y = y, x
        steps = ["%s:2:0:1" % op, "sgn:2", rng.choice(["floor:2", "ceil:2", "cmpz:2:f", "isint:2", "cmpd:2:m"])]
        return "seq %s %s | %s" % (x, y, " ".join(steps))
    # two binomials of coprime degrees
    x = root_token(rng, rng.choice([[-3, 0, 0, 0, 0, 0, 1], [-2, 0, 0, 0, 0, 1], [-2, 0, 0, 0, 0, 0, 0, 1]]))
    y = root_token(rng, rng.choice([[-2] + [0] * 10 + [1], [-3] + [0] * 8 + [1]]))
    return "seq %s %s | %s:2:0:1 sgn:2 floor:2 cmpd:2:m" % (x, y, rng.choice(["mul", "div"]))


# ---- "twins": two numbers given with IDENTICAL isolating intervals (the equal-interval branch of cmp: gcd test,
# reduce_polynomial, bisection race), reducible polynomials sharing factors with / without a common root in the
# interval, dyadic / rational numbers hidden behind polynomials and sitting at the mid point of the shared interval
TWIN_FACTORS = [[-3, 0, 1], [1, 0, 1], [-5, 1], [-7, 0, 1], [1, 2], [3, 1], [-11, 0, 2], [1, 1, 1], [-10, 0, 0, 1], [9, 4]]


def no_root_in(s, lo, hi):
    S = Poly.get(s)
    return peval(s, lo) != 0 and peval(s, hi) != 0 and S.count(lo, hi) == 0


def twin_token(rng, p, lo, hi, shared=None):
    """a: token for the root of p in (lo,hi), p multiplied by factors without roots there (product kept square-free)"""
    q = list(p)
    fs = [shared] if shared else []
    if rng.random() < 0.5:
        fs.append(rng.choice(TWIN_FACTORS))
    for f in fs:
        if f is None or not no_root_in(f, lo, hi):
            continue
        q2 = pmul(q, f)
        if len(Poly.get(q2).ch[-1]) == 1 and q2[0] != 0:
            q = q2
    q = primitive(q)
    assert Poly.get(q).count(lo, hi) == 1 and peval(q, lo) * peval(q, hi) < 0
    return "a:%s:%s:%s" % (coeffs(q), dy_tok(lo), dy_tok(hi))


def twins_case(rng):
    from math import floor
    # the first number and a tight interval around it that the constructor leaves alone (width < 1/2, no integer inside)
    while True:
        p = rng.choice(FIXED + [[-4, 3], [-11, 8], [-3, 8], [-7, 5], [-1, 3]] + [random_poly(rng)])
        p = primitive(p)
        P = Poly.get(p)
        idx = rng.randrange(P.nroots)
        lo, hi = approx(P, idx, rng.choice([2, 3, 3, 4, 6, 10]))
        if lo == hi:
            # dyadic root: put it at the mid point of an interval
            w = F(1, 2 ** rng.choice([3, 4, 6]))
            lo, hi = lo - w, hi + w
        if hi - lo >= F(1, 2) or floor(lo) + 1 < hi or P.count(lo, hi) != 1 or peval(p, lo) == 0 or peval(p, hi) == 0:
            continue
        break
    shared = rng.choice(TWIN_FACTORS + [None, None])
    if shared is not None and not no_root_in(shared, lo, hi):
        shared = None
    x = twin_token(rng, p, lo, hi, shared)
    k = rng.random()
    mid = (lo + hi) / 2
    extra = []
    if k < 0.3:
        # the SAME number with another polynomial (common root in the interval)
        y = twin_token(rng, p, lo, hi, rng.choice(TWIN_FACTORS))
    else:
        # a DIFFERENT number in the same interval: the (dyadic) mid point, another rational, or a square root
        while True:
            t = rng.choice([F(1, 2), F(1, 2), F(1, 3), F(2, 3), F(1, 4), F(3, 4), F(2, 5), F(1, 8), F(7, 8)])
            v = lo + (hi - lo) * t
            if peval(p, v) != 0:
                break
        pv = [-v.numerator, v.denominator]
        if rng.random() < 0.25 and lo > 0:
            r = (v * v).limit_denominator(50)
            cand = primitive([-r.numerator, 0, r.denominator])
            C = Poly.get(cand)
            if peval(cand, lo) * peval(cand, hi) < 0 and C.count(lo, hi) == 1 and len(Poly.get(pmul(cand, p)).ch[-1]) == 1:
                pv = cand
        y = twin_token(rng, pv, lo, hi, shared)
        extra = ["cmpq:0:%d/%d" % (v.numerator, v.denominator), "cmpq:1:%d/%d" % (v.numerator, v.denominator)]
    if rng.random() < 0.5:
        x, y = y, x
    steps = ["copy:2:0", "copy:3:1", "cmp:0:1", "cmp:1:0", "cmp:0:1", "cmp:1:0", "cmp:0:2", "cmp:1:3"] + extra
    steps += [rng.choice(["cmpd:0:%s" % dy_tok(mid), "cmpd:1:%s" % dy_tok(mid), "sgn:0", "floor:1", "cmp:2:3", "sub:4:0:1"])]
    if steps[-1].startswith("sub"):
        steps.append("sgn:4")
    return "seq %s %s | %s" % (x, y, " ".join(steps))


# ---- "hp": WIDE isolating intervals with a HIGH-PRECISION end point (k/2^60, k/2^100, k/2^130 next to an end with a
# small denominator), given explicitly or produced by a history (cmp with a high-precision point inside the interval
# refines the operand WITH that point); observed through to_double / to_rational (defect: the number of bisections
# was taken from the denominator exponent of b - a, not from its size)
def hp_token(rng, p, idx=None):
    """a: token for a root of p with a wide interval, one end moved by a tiny 2^-e towards the root"""
    P = Poly.get(p)
    iso = P.isolate()
    if idx is None:
        idx = rng.randrange(len(iso))
    tok, _ = alg_token(rng, p, idx, rng.choice(["wide", "wide", "iso"]))
    _, cs, lo, hi = tok.split(":")
    def fr(s):
        a, n = s.split("/")
        return F(int(a), 2 ** int(n))
    lo, hi = fr(lo), fr(hi)
    e = rng.choice([60, 100, 130, 101, 99])
    k = rng.choice([1, 3, 2 ** 20 + 1])
    if rng.random() < 0.5:
        lo2 = lo + F(k, 2 ** e)
        if peval(P.p, lo2) != 0 and lo2 < hi and P.count(lo2, hi) == 1 and peval(P.p, lo2) * peval(P.p, hi) < 0:
            lo = lo2
    else:
        hi2 = hi - F(k, 2 ** e)
        if peval(P.p, hi2) != 0 and lo < hi2 and P.count(lo, hi2) == 1 and peval(P.p, lo) * peval(P.p, hi2) < 0:
            hi = hi2
    return "a:%s:%s:%s" % (cs, dy_tok(lo), dy_tok(hi)), (P, idx)


def hp_case(rng):
    p = rng.choice(FIXED + [random_poly(rng)])
    p = primitive(p)
    k = rng.random()
    obs = ["todbl:0", "torat:0"]
    if k < 0.5:
        x, _ = hp_token(rng, p)
        steps = list(obs)
        if rng.random() < 0.5:
            steps += ["copy:1:0", "refine:1", "todbl:1", "torat:1", "cmp:0:1"]
        if rng.random() < 0.4:
            steps += ["neg:2:0", "todbl:2", "torat:2"]
        return "seq %s | %s" % (x, " ".join(steps))
    # history: a point with a high-precision value just below / above the root, compared with the number
    x, info = alg_token(rng, p) if rng.random() < 0.6 else ("r:%s:%d" % (coeffs(p), rng.randrange(Poly.get(p).nroots)), None)
    if info is None:
        P = Poly.get(p)
        info = (P, int(x.rsplit(":", 1)[1]))
    lo, hi = approx(info[0], info[1], rng.choice([3, 4, 5, 6]))
    e = rng.choice([60, 100, 130, 99, 101])
    v = (lo - F(1, 2 ** e)) if rng.random() < 0.5 else (hi + F(3, 2 ** e))
    pt = "d:%s" % dy_tok(v)
    steps = ["cmp:0:1", "todbl:0", "torat:0", "cmp:1:0", "todbl:0"]
    if rng.random() < 0.5:
        steps += ["sub:2:0:1", "todbl:2", "torat:2"]
    return "seq %s %s | %s" % (x, pt, " ".join(steps))


# ---- "signmul": products / quotients / powers of two NON-POINT numbers of degree 2..3 chosen BY SIGN (negative x negative
# 40 %, positive x positive and the two mixed patterns 20 % each; both operand orders), each operand in its own refinement
# state (library isolation, bisection states of different widths, lopsided intervals with one coarse and one fine end,
# extra refine steps).  The selection loop of lp_algebraic_number_op filters the roots of the resultant with
# dyadic_interval_mul(I1, I2): which of the four corner products are the ends of the enclosure depends on the signs and on
# the relative widths, and a lost part of the enclosure only shows while the true product lies in it and a second candidate
# is still alive - a few per cent of random states (seeded C07-7 was first caught by luck, then missed).  Hence: the block
# cycles through sign pattern x TARGETED CORNER (lopsided intervals keep the operands next to the chosen ends, i.e. the
# true product in the part of the enclosure contributed by that corner product alone, for several bisection rounds), it is
# large (a case costs ~4 ms) and it is generated AFTER the random cases (their stream is unchanged).
def has_rational_root(p):
    a0, an = abs(p[0]), abs(p[-1])
    for n in range(1, a0 + 1):
        if a0 % n:
            continue
        for d in range(1, an + 1):
            if an % d == 0 and (peval(p, F(n, d)) == 0 or peval(p, F(-n, d)) == 0):
                return True
    return False


def lowdeg_irrational_poly(rng):
    """square-free polynomial of degree 2..3 with real roots, none of them rational"""
    while True:
        d = rng.choice([2, 2, 3])
        m = rng.choice([2, 3, 5, 9])
        p = [rng.randint(-m, m) for _ in range(d + 1)]
        if p[0] == 0 or p[-1] == 0:
            continue
        p = primitive(p)
        P = Poly.get(p)
        if P.nroots == 0 or len(P.ch[-1]) != 1 or has_rational_root(p):
            continue
        return p


def root_sign(P, idx):
    lo, hi = P.isolate()[idx]
    if lo >= 0:
        return 1
    if hi <= 0:
        return -1
    return -1 if P.count(lo, F(0)) == 1 else 1


def signed_number(rng, sign):
    """(p, idx): an irrational number of degree 2..3 with the given sign"""
    while True:
        p = rng.choice(SIGNMUL_FIXED) if rng.random() < 0.2 else lowdeg_irrational_poly(rng)
        P = Poly.get(p)
        idxs = [i for i in range(P.nroots) if root_sign(P, i) == sign]
        if idxs:
            return p, rng.choice(idxs)


SIGNMUL_FIXED = [SQRT2, SQRT3, GOLD, [-5, 0, 1], CBRT2, [2, 0, 0, 1], [-4, 5, 5], [1, -3, 0, 1], [-1, -1, 0, 1], [1, 1, 0, 1],
                 [-1, 0, 2], [1, 3, 1], [-3, 0, 0, 1], [3, 0, 0, 1]]


def state_token(rng, p, idx, style=None, fine_end=None):
    """the idx-th root of p in one of several refinement states; "lop": a lopsided interval, the root next to its
    fine end (0 = lower, 1 = upper) for several bisection rounds and the coarse end far away"""
    P = Poly.get(p)
    style = style or rng.choice(["r", "r", "sym", "lop", "lop", "lop", "wide"])
    if style == "r":
        return "r:%s:%d" % (coeffs(p), idx), None
    if style == "wide":
        return alg_token(rng, p, idx, "wide")[0], None
    if style == "sym":
        lo, hi = approx(P, idx, rng.choice([1, 2, 2, 3, 4, 6, 9, 14]))
    else:
        b1 = rng.choice([1, 1, 2, 2, 3])
        b2 = b1 + rng.choice([2, 3, 5, 8, 20])
        c, f = approx(P, idx, b1), approx(P, idx, b2)
        if fine_end is None:
            fine_end = rng.randrange(2)
        lo, hi = (c[0], f[1]) if fine_end else (f[0], c[1])
    return "a:%s:%s:%s" % (coeffs(p), dy_tok(lo), dy_tok(hi)), (lo, hi)


def root_floats(P):
    if not hasattr(P, "fl"):
        P.fl = [float(sum(approx(P, k, 40)) / 2) for k in range(P.nroots)]
    return P.fl


def rival_inside(p, i, I1, q, j, I2):
    """does the enclosure I1 x I2 of the product contain the product of another pair of roots of p and q (a second
    candidate among the roots of the resultant: the selection loop cannot stop before it has refined the operands)"""
    cs = [a * b for a in I1 for b in I2]
    lo, hi = float(min(cs)), float(max(cs))
    xs, ys = root_floats(Poly.get(p)), root_floats(Poly.get(q))
    return any(lo < xs[a] * ys[b] < hi for a in range(len(xs)) for b in range(len(ys)) if (a, b) != (i, j))


SIGNMUL_CASES = set()       # the lines of the block (for the branch tag)
SIGNMUL_COMBOS = [(sx, sy, ex, ey) for (sx, sy) in [(-1, -1), (-1, -1), (1, 1), (-1, 1), (1, -1)] for ex in (0, 1) for ey in (0, 1)]


def signmul_case(rng, k):
    """k-th case of the block: sign pattern and targeted corner product (end of I1 x end of I2 next to which the operands
    lie) cycle through all 16 combinations, negative x negative twice"""
    sx, sy, ex, ey = SIGNMUL_COMBOS[k % len(SIGNMUL_COMBOS)]
    style = "lop" if rng.random() < 0.65 else None
    for _ in range(12):
        p, i = signed_number(rng, sx)
        q, j = signed_number(rng, sy)
        (x, I1), (y, I2) = state_token(rng, p, i, style, ex), state_token(rng, q, j, style, ey)
        if I1 is None or I2 is None or rival_inside(p, i, I1, q, j, I2):
            break
    steps = []
    for s in (0, 1):
        if rng.random() < 0.2:
            steps += ["refine:%d" % s] * rng.randint(1, 3)
    a, b = rng.choice([(0, 1), (1, 0)])
    r = rng.random()
    if r < 0.6:
        steps += ["mul:2:%d:%d" % (a, b), "mul:3:%d:%d" % (b, a), "cmp:2:3"]
    elif r < 0.8:
        steps += ["div:2:%d:%d" % (a, b), "sgn:2", "div:3:%d:%d" % (b, a), "cmp:2:3"]
    else:
        n, m = rng.choice([2, 2, 3, 4]), rng.choice([2, 3])
        steps += ["pow:2:%d:%d" % (a, n), "sgn:2", "mul:3:%d:%d" % (a, b), "pow:4:%d:%d" % (b, m), "cmp:3:2"]
    return "seq %s %s | %s" % (x, y, " ".join(steps))


def random_poly(rng):
    while True:
        d = rng.choice([2, 3, 3, 4, 4])
        m = rng.choice([2, 3, 5, 9])
        p = [rng.randint(-m, m) for _ in range(d + 1)]
        if p[0] == 0 or p[-1] == 0:
            continue
        p = primitive(p)
        P = Poly.get(p)
        if P.nroots == 0:
            continue
        # square-free?  (gcd with derivative constant <=> last Sturm element constant)
        if len(P.ch[-1]) != 1:
            continue
        return p


def near_pair_poly(rng, arith=True):
    """(x^2 - c)(2^k (x^2 - c) - 1): roots +-sqrt(c), +-sqrt(c + 2^-k); small k where resultants will be taken"""
    c = rng.choice([2, 3, 5])
    k = rng.choice([1, 3, 6, 10]) if arith else rng.choice([1, 3, 8, 16, 24, 40, 70])
    a = [-c, 0, 1]
    b = [-(2 ** k) * c - 1, 0, 2 ** k]
    return pmul(a, b), a, b


def alg_token(rng, p, idx=None, style=None):
    """an `a:` token for the idx-th real root of the square-free primitive polynomial p"""
    P = Poly.get(p)
    iso = P.isolate()
    if idx is None:
        idx = rng.randrange(len(iso))
    lo, hi = iso[idx]
    style = style or rng.choice(["wide", "wide", "iso", "narrow", "grid"])
    if style in ("wide", "grid"):
        # widen to grid points while exactly one root stays inside and the ends are not roots
        los = [g for g in GRID if g < hi and peval(P.p, g) != 0]
        his = [g for g in GRID if g > lo and peval(P.p, g) != 0]
        rng.shuffle(los)
        rng.shuffle(his)
        for l2 in los[:6]:
            l2 = min(l2, lo)
            if peval(P.p, l2) != 0 and P.count(l2, hi) == 1:
                lo = l2
                break
        for h2 in his[:6]:
            h2 = max(h2, hi)
            if peval(P.p, h2) != 0 and P.count(lo, h2) == 1:
                hi = h2
                break
    elif style == "narrow":
        for _ in range(rng.choice([1, 3, 10, 30, 70])):
            m = (lo + hi) / 2
            v = peval(P.p, m)
            if v == 0:
                break
            if sgn(v) == sgn(peval(P.p, lo)):
                lo = m
            else:
                hi = m
    assert P.count(lo, hi) == 1 and peval(P.p, lo) * peval(P.p, hi) < 0
    return "a:%s:%s:%s" % (coeffs(P.p), dy_tok(lo), dy_tok(hi)), (P, idx)


def approx(P, idx, bits):
    lo, hi = P.isolate()[idx]
    while hi - lo > F(1, 2 ** bits):
        m = (lo + hi) / 2
        v = peval(P.p, m)
        if v == 0:
            return m, m
        if sgn(v) == sgn(peval(P.p, lo)):
            lo = m
        else:
            hi = m
    return lo, hi


def rat_token(rng):
    k = rng.random()
    if k < 0.25:
        return "z:%d" % rng.choice([0, 1, -1, 2, -3, 7, rng.randint(-20, 20)])
    if k < 0.55:
        n = rng.choice([1, 1, 2, 3, 6])
        a = rng.randint(-40, 40) | 1
        return "d:%d/%d" % (a, n)
    d = rng.choice([3, 5, 6, 7, 12, 100])
    n = rng.randint(-30, 30)
    g = gcd(n, d)
    n, d = n // g, d // g
    if d == 1:
        return "z:%d" % n
    return "q:%d/%d" % (n, d)


def operand(rng, arith=True):
    """a token and (Poly, idx) when the generator knows an isolating interval (else None)"""
    k = rng.random()
    if k < 0.18:
        return rat_token(rng), None
    if k < 0.50:
        p = rng.choice(FIXED)
        if rng.random() < 0.4:
            P = Poly.get(p)
            idx = rng.randrange(P.nroots)
            return "r:%s:%d" % (coeffs(p), idx), (P, idx)
        return alg_token(rng, p)
    if k < 0.62:
        p = primitive(rng.choice(SECRET))
        P = Poly.get(p)
        if len(P.ch[-1]) != 1 or p[0] == 0 or rng.random() < 0.3:
            idx = rng.randrange(P.nroots)
            return "r:%s:%d" % (coeffs(p), idx), (P, idx)
        return alg_token(rng, p)
    if k < 0.72:
        p, a, b = near_pair_poly(rng, arith)
        P = Poly.get(p)
        idx = rng.randrange(P.nroots)
        if rng.random() < 0.5:
            return "r:%s:%d" % (coeffs(p), idx), (P, idx)
        return alg_token(rng, primitive(p), idx, "iso")
    if k < 0.78:
        # products of the fixed polynomials given to the root isolation (numbers sharing a polynomial)
        p = pmul(rng.choice(FIXED), rng.choice(FIXED + SECRET[:4]))
        P = Poly.get(p)
        idx = rng.randrange(P.nroots)
        return "r:%s:%d" % (coeffs(p), idx), (P, idx)
    p = random_poly(rng)
    if rng.random() < 0.5:
        P = Poly.get(p)
        idx = rng.randrange(P.nroots)
        return "r:%s:%d" % (coeffs(p), idx), (P, idx)
    return alg_token(rng, p)


def same_number_other_repr(rng, info):
    """another token for the same number (different polynomial and/or interval)"""
    P, idx = info
    k = rng.random()
    if k < 0.4 and len(P.ch[-1]) == 1 and P.p[0] != 0:
        return alg_token(rng, primitive(P.p), idx)[0]
    # multiply by another polynomial and find the root's index in the product
    q = rng.choice(FIXED + [[-1, 2], [1, 1], [-7, 0, 1]])
    pq = pmul(P.p, q)
    PQ = Poly.get(pq)
    for bits in (20, 60, 120, 240, 500):
        lo, hi = approx(P, idx, bits)
        if lo == hi:
            eps = F(1, 2 ** bits)
            lo, hi = lo - eps, hi + eps
        if peval(PQ.p, lo) != 0 and peval(PQ.p, hi) != 0 and PQ.count(lo, hi) == 1:
            return "r:%s:%d" % (coeffs(pq), variations(PQ.ch, '-inf') - variations(PQ.ch, lo))
    return "r:%s:%d" % (coeffs(P.p), idx)


def scalar_steps(rng, i, info):
    """observation steps on slot i aimed at the boundaries"""
    st = []
    for _ in range(rng.randint(2, 6)):
        k = rng.random()
        if k < 0.12:
            st.append("sgn:%d" % i)
        elif k < 0.3:
            st.append("cmpz:%d:%s" % (i, rng.choice(["f", "c", "f", "c", "0", "1", "-1", "2", str(rng.randint(-5, 5))])))
        elif k < 0.5:
            lit = "%d/%d" % (rng.randint(-20, 20) | 1, rng.choice([1, 2, 5]))
            if info and rng.random() < 0.6:
                lo, hi = approx(info[0], info[1], rng.choice([3, 10, 40, 90]))
                lit = dy_tok(rng.choice([lo, hi]))
            st.append("cmpd:%d:%s" % (i, rng.choice(["l", "u", "m", "m", lit, lit])))
        elif k < 0.68:
            lit = None
            if info and rng.random() < 0.7:
                lo, hi = approx(info[0], info[1], rng.choice([3, 10, 40, 90]))
                v = rng.choice([lo, hi, (lo + hi) / 2, F(lo).limit_denominator(rng.choice([7, 100, 10 ** 6])),
                                lo + F(1, 3 * 2 ** rng.choice([4, 20, 80]))])
                lit = "%d/%d" % (v.numerator, v.denominator)
            else:
                v = F(rng.randint(-30, 30), rng.choice([1, 3, 7, 10]))
                lit = "%d/%d" % (v.numerator, v.denominator)
            st.append("cmpq:%d:%s" % (i, rng.choice(["l", "u", "m", lit, lit, lit])))
        elif k < 0.78:
            st.append(rng.choice(["floor:%d", "ceil:%d"]) % i)
        elif k < 0.86:
            st.append(rng.choice(["isint:%d", "israt:%d"]) % i)
        elif k < 0.92:
            st.append(rng.choice(["torat:%d", "todbl:%d", "mid:%d"]) % i)
        else:
            st.append("refine:%d" % i)
    return st


BIN = ["add", "sub", "mul", "div"]


def touching_steps(rng, i, free):
    """numbers at the ends of slot i's current interval: comparisons where an open interval meets a point at its end,
    and sums / products whose enclosure touches zero or an integer"""
    K = rng.choice(["l", "u", "l", "u", "m"])
    st = ["point:%d:%d:%s" % (free, i, K)]
    r = rng.random()
    if r < 0.45:
        st += ["cmp:%d:%d" % (i, free), "cmp:%d:%d" % (free, i)]
    elif r < 0.75:
        st += ["sub:%d:%d:%d" % (free + 1, i, free), "sgn:%d" % (free + 1), "floor:%d" % (free + 1), "ceil:%d" % (free + 1)]
        if rng.random() < 0.5:
            st += ["inv:%d:%d" % (free + 2, free + 1), "cmp:%d:%d" % (free + 2, i)]
    else:
        st += ["sub:%d:%d:%d" % (free + 1, free, i), "mul:%d:%d:%d" % (free + 2, free + 1, i), "sgn:%d" % (free + 2),
               "cmpz:%d:f" % (free + 2), "cmpz:%d:c" % (free + 2)]
    return st


def observe_result(rng, k, others):
    st = []
    if rng.random() < 0.8:
        st.append(rng.choice(["sgn:%d", "floor:%d", "ceil:%d", "isint:%d", "israt:%d", "cmpz:%d:f", "cmpz:%d:c", "cmpd:%d:m",
                              "cmpq:%d:l", "torat:%d", "todbl:%d", "mid:%d"]) % k)
    if others and rng.random() < 0.5:
        st.append("cmp:%d:%d" % (k, rng.choice(others)))
    return st


COLLAPSE = [
    # pools and steps whose results collapse to rationals / zero
    ("r:-2,0,1:1 a:-2,0,1:0/0:4/0", ["mul:2:0:1", "isint:2", "sub:3:0:1", "sgn:3", "isint:3", "div:4:0:1", "cmpz:4:1", "add:5:0:1", "israt:5"]),
    ("r:-2,0,1:0 r:-2,0,1:1", ["add:2:0:1", "sgn:2", "mul:3:0:1", "cmpz:3:-2", "div:4:0:1", "cmpz:4:-1", "isint:4", "cmp:0:1", "cmp:1:0"]),
    ("r:1,0,-10,0,1:3 r:-2,0,1:1 r:-3,0,1:1", ["sub:3:0:1", "cmp:3:2", "sub:4:3:2", "sgn:4", "isint:4", "mul:5:0:0", "floor:5"]),
    ("r:1,0,-10,0,1:3 r:1,0,-10,0,1:2", ["mul:2:0:1", "isint:2", "cmpz:2:1", "add:3:0:1", "pow:4:3:2", "cmpz:4:12", "sub:5:0:1", "pow:6:5:2", "cmpz:6:8"]),
    ("r:-2,0,0,1:0 z:2", ["pow:2:0:3", "cmp:2:1", "isint:2", "root:3:1:3", "cmp:3:0", "pow:4:0:2", "mul:5:4:0", "cmpz:5:2"]),
    ("r:-1,-1,1:1 r:-1,-1,1:0 z:1", ["add:3:0:1", "cmp:3:2", "mul:4:0:1", "cmpz:4:-1", "inv:5:0", "sub:6:0:2", "cmp:5:6"]),
    ("q:1/3 q:2/3 d:1/1 z:0", ["add:4:0:1", "isint:4", "mul:5:2:2", "sub:6:0:0", "sgn:6", "div:7:0:1", "cmpd:7:1/1", "mul:8:3:0", "sgn:8", "inv:9:0", "isint:9", "div:10:0:3", "inv:11:3", "root:12:3:2"]),
    ("a:-8,0,12,0,-6,0,1:1/0:2/0 r:-2,0,1:1", ["cmp:0:1", "cmp:1:0", "sub:2:0:1", "sgn:2", "floor:0", "ceil:0"]),
    ("z:4 q:9/4 d:-1/0 r:-2,0,1:0", ["root:4:0:2", "isint:4", "root:5:1:2", "israt:5", "cmpq:5:3/2", "root:6:2:2", "root:7:3:2", "root:8:0:1", "cmp:8:0"]),
]


def one_case(rng, tier):
    if rng.random() < 0.05:
        return high_degree_case(rng)
    if rng.random() < 0.08:
        return twins_case(rng)
    if rng.random() < 0.07:
        return hp_case(rng)
    kind = rng.random()
    if kind < 0.04:
        pool, steps = rng.choice(COLLAPSE)
        return "seq %s | %s" % (pool, " ".join(steps))
    if kind < 0.34:
        # one arithmetic operation on two operands with fresh / pre-used / aliased output, then observations
        x, xi = operand(rng)
        y, yi = operand(rng)
        if rng.random() < 0.15 and xi:
            y = same_number_other_repr(rng, xi)
        op = rng.choice(BIN)
        k = rng.choice([2, 2, 0, 1])
        steps = ["%s:%d:0:1" % (op, k)] + observe_result(rng, k, [0, 1])
        if rng.random() < 0.3:
            steps.append("%s:3:1:0" % rng.choice(BIN))
            steps += observe_result(rng, 3, [0, 1, 2])
        return "seq %s %s | %s" % (x, y, " ".join(steps))
    if kind < 0.46:
        # unary operations
        x, xi = operand(rng)
        steps = []
        for _ in range(rng.randint(1, 3)):
            op = rng.choice(["neg", "neg", "inv", "inv", "pow", "root"])
            k = rng.choice([1, 1, 2, 0])
            if op in ("neg", "inv"):
                steps.append("%s:%d:0" % (op, k))
            else:
                steps.append("%s:%d:0:%d" % (op, k, rng.choice([1, 2, 2, 3, 3, 4, 5])))
            steps += observe_result(rng, k, [0])
        return "seq %s | %s" % (x, " ".join(steps))
    if kind < 0.62:
        # comparison of two numbers: equal with different representations, nearly equal, or unrelated
        big = rng.random() < 0.5
        x, xi = operand(rng, not big)
        r = rng.random()
        if r < 0.4 and xi:
            y = same_number_other_repr(rng, xi)
        elif r < 0.6:
            p, a, b = near_pair_poly(rng, not big)
            P = Poly.get(p)
            i = rng.randrange(P.nroots)
            j = min(P.nroots - 1, max(0, i + rng.choice([-1, 1])))
            x = "r:%s:%d" % (coeffs(p), i)
            if rng.random() < 0.5:
                y = "r:%s:%d" % (coeffs(p), j)
            else:
                y = alg_token(rng, primitive(p), j, "iso")[0]
            xi = (P, i)
        else:
            y, _ = operand(rng, not big)
        steps = ["cmp:0:1", "cmp:1:0"]
        if rng.random() < 0.3:
            steps = ["refine:0", "cmp:1:0", "cmp:0:1", "cmp:0:0"]
        if not big and rng.random() < 0.6:
            steps += ["sub:2:0:1", "sgn:2"]
        steps += scalar_steps(rng, 0, xi)[:2]
        return "seq %s %s | %s" % (x, y, " ".join(steps))
    if kind < 0.76:
        # scalar observations on one number
        x, xi = operand(rng, False)
        return "seq %s | %s" % (x, " ".join(scalar_steps(rng, 0, xi)))
    if kind < 0.84:
        # the number against the ends of its own interval
        x, xi = operand(rng, True)
        steps = []
        if rng.random() < 0.4:
            steps.append("refine:0")
        steps += touching_steps(rng, 0, 1)
        if rng.random() < 0.4:
            steps += touching_steps(rng, 0, 4)
        return "seq %s | %s" % (x, " ".join(steps))
    # operation sequences on a pool, results fed back
    n = rng.randint(2, 4)
    toks = [operand(rng)[0] for _ in range(n)]
    nslots = n
    steps = []
    for _ in range(rng.randint(3, 7 if tier == "quick" else 10)):
        k = rng.random()
        dest = nslots if rng.random() < 0.6 else rng.randrange(nslots)
        if k < 0.55:
            steps.append("%s:%d:%d:%d" % (rng.choice(BIN), dest, rng.randrange(nslots), rng.randrange(nslots)))
        elif k < 0.70:
            steps.append("%s:%d:%d" % (rng.choice(["neg", "inv"]), dest, rng.randrange(nslots)))
        elif k < 0.80:
            steps.append("%s:%d:%d:%d" % (rng.choice(["pow", "root"]), dest, rng.randrange(nslots), rng.choice([2, 2, 3])))
        elif k < 0.9:
            steps.append("cmp:%d:%d" % (rng.randrange(nslots), rng.randrange(nslots)))
            continue
        else:
            steps += observe_result(rng, rng.randrange(nslots), [])
            continue
        if dest == nslots:
            nslots += 1
    return "seq %s | %s" % (" ".join(toks), " ".join(steps))


CLOSEROOT_CASES = set()


def closeroot_case(rng, k):
    """n-th roots of positive algebraic numbers whose CONJUGATE is close (both roots of a x^2 - b x + c positive, small
    non-square discriminant): the candidate roots of the n-th root stay unseparated for several refinement rounds of
    lp_algebraic_number_positive_root, so dyadic_rational_root_approx is called with growing precisions that are not
    multiples of n (seeded change C07-14); the result is raised to the n-th power again and compared with the operand."""
    import math
    while True:
        a = rng.choice([1, 1, 1, 2, 3, 4])
        b = rng.randint(5, 60)
        disc = rng.choice([2, 3, 5, 6, 7, 8, 10, 11, 12, 13, 15, 17, 20, 21, 24, 28, 33, 40])
        if (b * b - disc) % (4 * a):
            continue
        c = (b * b - disc) // (4 * a)
        if c <= 0 or math.gcd(math.gcd(a, b), c) != 1 or math.isqrt(disc) ** 2 == disc:
            continue
        break
    n = rng.choice([2, 3, 3, 3, 4, 5])
    idx = k % 2
    x = "r:%d,%d,%d:%d" % (c, -b, a, idx)
    steps = ["refine:0"] * rng.choice([0, 0, 1, 3]) + ["root:1:0:%d" % n, "pow:2:1:%d" % n, "cmp:2:0", "sgn:1", "floor:1"]
    if rng.random() < 0.3:
        steps += ["root:3:1:2", "pow:4:3:%d" % (2 * n), "cmp:4:0"]
    return "seq %s | %s" % (x, " ".join(steps))


def generate(rng, tier, corpus_only=False):
    n = 640 if tier == "quick" else 5000
    cases = ["seq %s | %s" % (p, " ".join(s)) for (p, s) in COLLAPSE]
    while len(cases) < n:
        cases.append(one_case(rng, tier))
    # the structured block comes last: the random stream of the cases above does not depend on it
    for k in range(600 if tier == "quick" else 1800):
        cases.append(signmul_case(rng, k))
        SIGNMUL_CASES.add(cases[-1])
    for k in range(120 if tier == "quick" else 500):
        cases.append(closeroot_case(rng, k))
        CLOSEROOT_CASES.add(cases[-1])
    return cases


def tag(case):
    """branch tag: the first step's operation; pools with more than two operands are operation sequences"""
    t = case.split()
    bar = t.index("|")
    if case in CLOSEROOT_CASES:
        return "closeroot"
    if case in SIGNMUL_CASES:
        return "signmul-" + [s.split(":")[0] for s in t[bar + 1:] if not s.startswith("refine")][0]
    if bar > 3:
        return "sequence"
    if any(s.startswith("point:") for s in t[bar + 1:]):
        return "touching"
    if bar == 3 and t[1].startswith("a:") and t[2].startswith("a:") and t[1].split(":")[2:] == t[2].split(":")[2:]:
        return "twins"
    if any(s.startswith("todbl:") or s.startswith("torat:") for s in t[bar + 1:]) and any(
            x[:2] in ("a:", "d:") and any(int(f.split("/")[1]) >= 55 for f in x.split(":")[1:] if "/" in f and "," not in f) for x in t[1:bar]):
        return "hp-approx"
    if any(len(x.split(":")) > 1 and x[0] in "ra" and x.split(":")[1].count(",") >= 5 for x in t[1:bar]):
        return "highdeg-" + t[bar + 1].split(":")[0]
    if bar + 1 >= len(t):
        return "construct"
    return t[bar + 1].split(":")[0]


def nontrivial(case):
    """at least one operand that is not given as a rational point"""
    return (" a:" in case) or (" r:" in case)


def extra_coverage(cases, couts, mouts):
    steps = {}
    results = {"point": 0, "proper": 0, "skip": 0, "undef": 0}
    for c, o in zip(cases, couts):
        t = c.split()
        bar = t.index("|")
        for s in t[bar + 1:]:
            op = s.split(":")[0]
            steps[op] = steps.get(op, 0) + 1
        if o:
            parts = o.split(" | ")
            if len(parts) >= 2:
                for st, tok in zip(t[bar + 1:], parts[1].split()):
                    fs = tok.split(";")
                    op = st.split(":")[0]
                    last = fs[1] if op in ("neg", "inv") and len(fs) > 1 else (fs[0] if op in ("add", "sub", "mul", "div", "pow", "root", "copy") else fs[-1])
                    if tok == "skip":
                        results["skip"] += 1
                    elif tok == "undef":
                        results["undef"] += 1
                    elif last.startswith("p:"):
                        results["point"] += 1
                    elif last.startswith("a:"):
                        results["proper"] += 1
    return {"step_histogram": steps, "step_result_kinds": results}


RULE = ("seeded structured generator gen/C07.py: operands from fixed / random / secretly rational / nearly equal / shared "
        "polynomials as r: (k-th root) or a: (polynomial + isolating dyadic interval, wide, tight or touching integers) tokens; "
        "single operations with fresh / pre-used / aliased outputs, comparisons of equal numbers in different representations, "
        "scalar comparisons at the interval ends / floor / ceiling, and operation sequences with results fed back; "
        "a final structured block (signmul) of products / quotients / powers of two non-point numbers of degree 2..3 by sign "
        "pattern x targeted corner product of the interval multiplication, in both operand orders and several refinement states; "
        "distinct = distinct case line; non-trivial = has an irrational-style operand token")
ASSUMPTIONS = ["general operands of degree <= 4 with products of degrees <= 16; sparse operands of degree 5..8 raised to powers <= 13; a degree <= 3 with a degree <= 11 operand; two binomials with degree product <= 70 (other steps are skipped by the harness: the reference resultants are determinant based)",
               "lp_upolynomial_gcd, coefficient_resultant, lp_upolynomial_roots_isolate and the dyadic interval arithmetic are exercised only through the algebraic-number operations (C03/C04/C06/C15 check them directly)"]
TRUSTED = ["RefAlg.v reference arithmetic (Sturm counting, Bareiss resultants) is the oracle of the denotation checks; it is not proved correct (category translation_validation)"]
