HARNESS = "c01"
STALE_RERUN = True   # operands also re-run as stale external polynomials (see check)
STALE_LIMIT = 20000  # quick: every case is re-run with stale external operands
LEVEL = "proof"
"""C01 case generator: operation sequences applied in place on a pool of polynomials.
Every random choice comes from the one `rng` passed in.  The small dictionary arithmetic below only STEERS
the generation (sizes stay bounded; operands that cancel leading terms, re-grow inside the old capacity,
change type constant<->polynomial ...); it is not part of the comparison: expected results come from the
extracted Coq model."""

NV = 8
MODULI = [2, 3, 4, 6, 9, 13, 2**64 + 13, (2**64 + 13) * (2**31 - 1), 2**89 - 1, 10**20]
BIG = [2**63 - 1, 2**63, 2**64 - 1, 2**64, 2**64 + 1, 2**100 + 12345, 3**70, 2**128 - 1, 2**150 + 7, 10**45 + 1]
MAXTERMS = 40
MAXDEG = 24

RULE = ("seeded structured generator gen/C01.py (corpus of past failures first); a case = ring, variable order, pool, "
        "sequence of 1-8 in-place operations; distinct = distinct case line; non-trivial = at least one step whose "
        "result is a non-constant polynomial")
ASSUMPTIONS = ["integer arguments of lp_polynomial_mul_integer / evaluation points are given in the symmetric range of "
               "the ring (the library asserts integer_in_ring)",
               "lp_polynomial_shl is applied to non-constant polynomials only (the library asserts it)",
               "exponents stay below 2^20 (no wrap-around of unsigned)"]
TRUSTED = ["harness/polyio.h canonical printing; ocaml/io.ml parsing/printing"]
EXPLANATION = ("every case is run three ways: real library (sanitizer build), reference model MPoly/UPoly (+ring_norm), and the "
               "faithful model Coefficient.v of the recursive representation with capacity slack; all three must agree at "
               "every step on every pool object (canonical text, degree, main variable) and the stored representation "
               "must be in canonical form (no stored term at or above `size`)")


# ---------------------------------------------------------------- steering arithmetic (monomial = tuple of (var, exp) sorted)
def lb(m): return -((m - 1) // 2)
def ub(m): return m // 2


def red(m, c):
    if m == 0:
        return c
    c %= m
    if c > ub(m):
        c -= m
    return c


def pclean(m, p):
    q = {}
    for k, c in p.items():
        c = red(m, c)
        if c:
            q[k] = c
    return q


def mmul(a, b):
    d = dict(a)
    for x, e in b:
        d[x] = d.get(x, 0) + e
    return tuple(sorted((x, e) for x, e in d.items() if e))


def padd(m, p, q, s=1):
    r = dict(p)
    for k, c in q.items():
        r[k] = r.get(k, 0) + s * c
    return pclean(m, r)


def pmul(m, p, q):
    r = {}
    for k1, c1 in p.items():
        for k2, c2 in q.items():
            k = mmul(k1, k2)
            r[k] = r.get(k, 0) + c1 * c2
    return pclean(m, r)


def ppow(m, p, n):
    r = {(): 1}
    for _ in range(n):
        r = pmul(m, r, p)
    return pclean(m, r)


def rank(order, x):
    return order.index(x) if x in order else len(order) + x


def topvar(order, p):
    vs = {x for k in p for x, _ in k}
    if not vs:
        return None
    return max(vs, key=lambda x: rank(order, x))


def deg_in(p, x):
    return max([dict(k).get(x, 0) for k in p] + [0])


def pderiv(m, p, x):
    r = {}
    for k, c in p.items():
        d = dict(k)
        e = d.get(x, 0)
        if e:
            d[x] = e - 1
            kk = tuple(sorted((y, f) for y, f in d.items() if f))
            r[kk] = r.get(kk, 0) + e * c
    return pclean(m, r)


def text(p):
    if not p:
        return "0"
    return "+".join("%d%s" % (c, "".join("*x%d^%d" % (x, e) for x, e in k)) for k, c in sorted(p.items(), reverse=True))


def term_text(k, c):
    return "%d%s" % (c, "".join("*x%d^%d" % (x, e) for x, e in k))


def big(p):
    return len(p) > MAXTERMS or any(sum(e for _, e in k) > MAXDEG for k in p) or any(abs(c) > 2**700 for c in p.values())


# ---------------------------------------------------------------- random pieces
def coeff(rng, m):
    k = rng.random()
    if m and k < 0.3:
        return rng.choice([lb(m), ub(m), lb(m) + 1, ub(m) - 1, m // 2, m - 1, m, m + 1, -m, 1, -1])
    if k < 0.55:
        return rng.choice([1, -1, 1, -1, 2, -2, 3, -3, 5, -7])
    if k < 0.75:
        return rng.choice([1, -1]) * rng.choice(BIG) + rng.randint(-1, 1)
    return rng.randint(-10**rng.randint(1, 30), 10**rng.randint(1, 30))


def in_ring(rng, m):
    if m == 0:
        return coeff(rng, 0)
    if rng.random() < 0.5:
        return rng.choice([lb(m), ub(m), 0, 1, max(lb(m), -1), min(ub(m), 2), ub(m) - 1 if ub(m) > 0 else 0])
    return rng.randint(lb(m), ub(m))


def rand_poly(rng, m, vars_, kind=None):
    kind = kind or rng.choice(["dense", "sparse", "sparse", "const", "zero", "one", "var", "mono", "lin"])
    p = {}
    if kind == "zero":
        return {}
    if kind == "one":
        return pclean(m, {(): rng.choice([1, -1])})
    if kind == "const":
        return pclean(m, {(): coeff(rng, m)})
    if kind == "var":
        return {((rng.choice(vars_), 1),): 1}
    if kind == "mono":
        k = tuple(sorted((x, rng.randint(1, 3)) for x in rng.sample(vars_, rng.randint(1, min(2, len(vars_))))))
        return pclean(m, {k: coeff(rng, m)})
    if kind == "lin":
        for x in rng.sample(vars_, rng.randint(1, min(3, len(vars_)))):
            p[((x, 1),)] = coeff(rng, m)
        p[()] = coeff(rng, m)
        return pclean(m, p)
    if kind == "dense":
        x = rng.choice(vars_)
        d = rng.randint(1, 5)
        for e in range(d + 1):
            k = ((x, e),) if e else ()
            p[k] = coeff(rng, m)
            if len(vars_) > 1 and rng.random() < 0.3:
                y = rng.choice([v for v in vars_ if v != x])
                p[mmul(k, ((y, rng.randint(1, 2)),))] = coeff(rng, m)
        return pclean(m, p)
    for _ in range(rng.randint(1, 5)):
        k = tuple(sorted((x, rng.randint(1, 4)) for x in rng.sample(vars_, rng.randint(0, min(3, len(vars_))))))
        p[k] = coeff(rng, m)
    return pclean(m, p)


def lead_part(order, p):
    """the terms of maximal degree in the main variable (what must cancel for `size` to drop)"""
    x = topvar(order, p)
    if x is None:
        return dict(p)
    d = deg_in(p, x)
    return {k: c for k, c in p.items() if dict(k).get(x, 0) == d}


def perm_text(order):
    return ",".join(map(str, order)) if order else "-"


# ---------------------------------------------------------------- multivariate cases
def mv_case(rng, tier):
    m = rng.choice([0, 0, 0] + MODULI) if rng.random() < 0.75 else rng.randint(2, 40)
    nvars = rng.choice([1, 1, 2, 2, 3, 4])
    vars_ = rng.sample(range(NV), nvars) if rng.random() < 0.3 else list(range(nvars))
    order = list(vars_)
    rng.shuffle(order)
    k = rng.random()
    if k < 0.15:
        order = order[:rng.randint(0, len(order))]          # some (or all) variables unlisted
    elif k < 0.25:
        order = order + [v for v in range(NV) if v not in order][:2]
    order0 = list(order)
    n = rng.randint(2, 4)
    pool = [rand_poly(rng, m, vars_) for _ in range(n)]
    # related operands: -a, -(leading part of a), a itself
    k = rng.random()
    if k < 0.25:
        pool[1] = pclean(m, {kk: -c for kk, c in pool[0].items()})
    elif k < 0.55:
        pool[0] = rand_poly(rng, m, vars_, rng.choice(["dense", "sparse"]))
        pool[1] = pclean(m, {kk: -c for kk, c in lead_part(order, pool[0]).items()})
    elif k < 0.6:
        pool[1] = dict(pool[0])
    texts = [text(p) for p in pool]
    ops = []
    nops = rng.randint(1, 8)
    shrunk = set()     # pool indices whose representation has probably spare capacity
    tries = 0
    while len(ops) < nops and tries < 40:
        tries += 1
        d, a, b = rng.randrange(n), rng.randrange(n), rng.randrange(n)
        if rng.random() < 0.35:
            d = a                                            # aliased output
        kind = rng.random()
        # steer towards the size/capacity life cycle: after a cancellation, work on the same object in place
        if shrunk and kind < 0.45:
            d = rng.choice(sorted(shrunk))
            x = topvar(order, pool[d])
            r = rng.random()
            if x is not None and r < 0.3:
                nn = rng.randint(1, 3)
                new = pmul(m, pool[d], {((x, nn),): 1})
                if big(new):
                    continue
                ops.append("shl %d %d %d" % (d, d, nn))
                pool[d] = new
                continue
            if r < 0.75:
                xs = x if x is not None else rng.choice(vars_)
                e = deg_in(pool[d], xs) + rng.randint(1, 3)
                kk = ((xs, e),)
                if rng.random() < 0.3 and len(vars_) > 1:
                    kk = mmul(kk, ((rng.choice([v for v in vars_ if v != xs]), rng.randint(1, 2)),))
                c = red(m, coeff(rng, m)) or 1
                ops.append("addmon %d %s" % (d, term_text(kk, c)))
                pool[d] = padd(m, pool[d], {kk: c})
                continue
            if r < 0.85:
                ops.append("neg %d %d" % (d, d))
                pool[d] = pclean(m, {kk: -c for kk, c in pool[d].items()})
                continue
            # fall through to a random op on d
            a = d
        op = rng.choice(["add", "add", "sub", "sub", "mul", "mul", "neg", "mulc", "pow", "addmul", "submul", "shl", "der",
                         "addmon", "addmon", "cancel", "cancel", "asg", "ord", "evi", "touni", "fromuni",
                         "obs", "obs", "isas", "touvm", "touvm", "red", "gcoef", "mgcd", "addmon2"])
        before = len(pool[d])
        if op in ("add", "sub"):
            new = padd(m, pool[a], pool[b], 1 if op == "add" else -1)
            ops.append("%s %d %d %d" % (op, d, a, b))
        elif op == "mul":
            new = pmul(m, pool[a], pool[b])
            if big(new):
                continue
            ops.append("mul %d %d %d" % (d, a, b))
        elif op in ("addmul", "submul"):
            new = padd(m, pool[d], pmul(m, pool[a], pool[b]), 1 if op == "addmul" else -1)
            if big(new):
                continue
            ops.append("%s %d %d %d" % (op, d, a, b))
        elif op == "neg":
            new = pclean(m, {kk: -c for kk, c in pool[a].items()})
            ops.append("neg %d %d" % (d, a))
        elif op == "asg":
            new = dict(pool[a])
            ops.append("asg %d %d" % (d, a))
        elif op == "mulc":
            c = in_ring(rng, m) if rng.random() < 0.8 else 0
            new = pclean(m, {kk: c * cc for kk, cc in pool[a].items()})
            if big(new):
                continue
            ops.append("mulc %d %d %d" % (d, a, c))
        elif op == "pow":
            e = rng.choice([0, 1, 1, 2, 2, 3, 4, 5])
            if len(pool[a]) > 3 and e > 3:
                e = 2
            new = ppow(m, pool[a], e)
            if big(new):
                continue
            ops.append("pow %d %d %d" % (d, a, e))
        elif op == "shl":
            # prefer non-constant operands, and among them those in >= 2 variables (their main variable depends on
            # the variable order: the stale-external rerun builds them under the reversed order)
            cand = [i for i in range(n) if topvar(order, pool[i]) is not None]
            multi = [i for i in cand if len({x for kk in pool[i] for x, _ in kk}) >= 2]
            if multi and rng.random() < 0.6:
                a = rng.choice(multi)
            elif cand and rng.random() < 0.8:
                a = rng.choice(cand)
            if rng.random() < 0.35:
                d = a
            x = topvar(order, pool[a])
            nn = rng.choice([0, 1, 1, 2, 3, 5])
            if x is None:
                new = pool[d]                      # skipped by both sides (documented domain)
            else:
                new = pmul(m, pool[a], {((x, nn),): 1} if nn else {(): 1})
            if big(new):
                continue
            ops.append("shl %d %d %d" % (d, a, nn))
        elif op == "der":
            x = topvar(order, pool[a])
            new = pderiv(m, pool[a], x) if x is not None else {}
            ops.append("der %d %d" % (d, a))
        elif op == "addmon":
            kk = tuple(sorted((x, rng.randint(1, 4)) for x in rng.sample(vars_, rng.randint(0, min(3, len(vars_))))))
            if rng.random() < 0.4 and pool[d]:
                kk = rng.choice(sorted(pool[d]))            # an existing monomial
            c = coeff(rng, m)
            new = padd(m, pool[d], {kk: c})
            lst = list(kk)
            rng.shuffle(lst)                                 # the monomial's variables in arbitrary order
            ops.append("addmon %d %s" % (d, term_text(lst, c)))
        elif op == "cancel":
            # remove the leading part of pool[d] term by term with add_monomial, or at once with add/sub
            lp = lead_part(order, pool[d])
            if not lp or topvar(order, pool[d]) is None:
                continue
            if len(lp) == 1 or rng.random() < 0.5:
                new = pool[d]
                for kk, c in sorted(lp.items()):
                    ops.append("addmon %d %s" % (d, term_text(kk, -c)))
                    new = padd(m, new, {kk: -c})
            else:
                continue
        elif op == "ord":
            neworder = list(order)
            rng.shuffle(neworder)
            ops.append("ord %s" % perm_text(neworder))
            order = neworder
            shrunk = set()
            continue
        elif op == "evi":
            vals = [in_ring(rng, m) if rng.random() < 0.5 else red(m, rng.randint(-3, 3)) for _ in range(NV)]
            ops.append("evi %d %s" % (a, ",".join(map(str, vals))))
            continue
        elif op == "touni":
            ops.append("touni %d" % a)
            continue
        elif op == "obs":
            ops.append("obs %d" % a)
            continue
        elif op in ("isas", "touvm"):
            used = sorted({x for kk in pool[a] for x, _ in kk})
            mask = 0
            for x in range(NV):
                if rng.random() < 0.5:
                    mask |= 1 << x
            if used and rng.random() < 0.6:
                # everything assigned, or everything but the main variable, or everything but one other variable
                mask = (1 << NV) - 1
                r = rng.random()
                if r < 0.5:
                    mask &= ~(1 << topvar(order, pool[a]))
                elif r < 0.65:
                    mask &= ~(1 << rng.choice(used))
            vals = [in_ring(rng, m) if rng.random() < 0.3 else red(m, rng.randint(-3, 3)) for _ in range(NV)]
            ops.append("%s %d %d %s" % (op, a, mask, ",".join(map(str, vals))))
            continue
        elif op == "mgcd":
            if m != 0:
                continue                                           # lp_monomial_gcd is defined over Z only
            def rterm():
                kk = [(x, rng.randint(1, 5)) for x in rng.sample(range(NV), rng.randint(0, 4))]
                g = rng.choice([1, 2, 3, 6, 2**64, 2**70 * 3])
                return term_text(kk, rng.choice([1, -1]) * g * rng.randint(1, 12))
            ops.append("mgcd %s %s" % (rterm(), rterm()))
            continue
        elif op == "red":
            x = topvar(order, pool[a])
            if x is None:
                new = pool[d]
            else:
                dd = deg_in(pool[a], x)
                new = {kk: c for kk, c in pool[a].items() if dict(kk).get(x, 0) != dd}
            ops.append("red %d %d" % (d, a))
        elif op == "gcoef":
            x = topvar(order, pool[a])
            dd = deg_in(pool[a], x) if x is not None else 0
            kk_ = rng.choice([0, 0, 1, dd, dd, max(dd - 1, 0), dd + 1, rng.randint(0, dd + 2)])
            if x is None:
                new = dict(pool[a]) if kk_ == 0 else {}
            else:
                new = {}
                for kk, c in pool[a].items():
                    dm = dict(kk)
                    if dm.get(x, 0) == kk_:
                        dm.pop(x, None)
                        new[tuple(sorted(dm.items()))] = c
            ops.append("gcoef %d %d %d" % (d, a, kk_))
        elif op == "addmon2":
            kk = tuple(sorted((x, rng.randint(1, 4)) for x in rng.sample(vars_, rng.randint(0, min(3, len(vars_))))))
            if rng.random() < 0.4 and pool[d]:
                kk = rng.choice(sorted(pool[d]))
            c = coeff(rng, m)
            new = padd(m, pool[d], {kk: c})
            lst = list(kk)
            rng.shuffle(lst)
            ops.append("addmon2 %d %s" % (d, term_text(lst, c)))
        elif op == "fromuni":
            x = rng.choice(vars_)
            cs = [rng.choice([0, 0, coeff(rng, m)]) for _ in range(rng.randint(1, 6))]
            if rng.random() < 0.4:
                cs += [0] * rng.randint(1, 3)               # zero leading coefficients
            new = pclean(m, {(((x, i),) if i else ()): c for i, c in enumerate(cs)})
            ops.append("fromuni %d %d %s" % (d, x, ",".join(map(str, cs))))
        else:
            continue
        if op != "cancel" and topvar(order, new) is not None and topvar(order, pool[d]) == topvar(order, new) \
                and op in ("add", "sub", "addmul", "submul", "der", "mulc", "mul") \
                and deg_in(new, topvar(order, new)) < max(deg_in(pool[a], topvar(order, new)), deg_in(pool[b], topvar(order, new))):
            shrunk.add(d)
        elif op == "cancel":
            shrunk.add(d)
        else:
            shrunk.discard(d)
        pool[d] = new
    if not ops:
        ops.append("add 0 0 1")
    return "mv %d %s %d %s %s" % (m, perm_text(order0), n, " ".join(texts), " ".join(ops))


# ---------------------------------------------------------------- univariate cases
def uv_case(rng, tier):
    m = rng.choice([0, 0, 0] + MODULI) if rng.random() < 0.8 else rng.randint(2, 40)
    n = rng.randint(2, 3)

    def dense():
        k = rng.random()
        if k < 0.1:
            return [0] * rng.randint(1, 3)
        if k < 0.2:
            return [coeff(rng, m)]
        cs = [rng.choice([0, coeff(rng, m), coeff(rng, m)]) for _ in range(rng.randint(1, 7))]
        if rng.random() < 0.3:
            cs += [0] * rng.randint(1, 3)
        if m and rng.random() < 0.3:
            cs = [c * rng.choice([1, m, 2, 3]) for c in cs]
        return cs
    def shaped():
        """sparse shapes: odd/even number of terms, gaps, zero constant term, negative leading coefficient,
        everything a multiple of m (collapses to 0 in Z_m), leading coefficient +-1 or a common factor (monic-able)"""
        nt = rng.choice([1, 2, 3, 4, 5])
        exps = sorted(rng.sample(range(0, 13), nt))
        if rng.random() < 0.5 and exps[0] == 0:
            sh = rng.randint(1, 3)
            exps = [e + sh for e in exps]                         # zero constant term
        if rng.random() < 0.3:
            g = rng.choice([2, 3, 4])
            exps = [e * g for e in exps]                          # p(x^g)
        cs = [0] * (exps[-1] + 1)
        f = rng.choice([1, 1, -1, 2, -3, m if m else 5, coeff(rng, m)]) or 1
        for e in exps:
            cs[e] = f * rng.choice([1, -1, 2, -2, 3, 7, -11])
        r = rng.random()
        if r < 0.35:
            cs[exps[-1]] = rng.choice([f, -f])                    # leading coefficient divides everything
        elif r < 0.5:
            cs[exps[-1]] = -abs(cs[exps[-1]])
        return cs
    pool = [dense() if rng.random() < 0.5 else shaped() for _ in range(n)]
    if rng.random() < 0.2:
        pool[1] = [-c for c in pool[0]]
    if rng.random() < 0.15:
        pool[1] = [0] * (len(pool[0]) - 1) + [-pool[0][-1]]
    texts = [",".join(map(str, p)) for p in pool]
    degs = [len(p) for p in pool]
    ops = []
    for _ in range(rng.randint(1, 8)):
        d, a, b = rng.randrange(n), rng.randrange(n), rng.randrange(n)
        op = rng.choice(["add", "sub", "mul", "mul", "neg", "der", "pow", "mulc", "mulc", "evi", "evq", "evd", "topoly",
                         "sgi", "sgi", "sgq", "sgd", "uobs", "uobs", "monic", "monici", "negi", "rev", "rev", "sxn", "sxp",
                         "cpow", "cint", "clong", "divdeg", "setring", "copyk"]
                        + (["sgq", "sgd", "sgq", "sgd", "evq", "evd"] if m == 0 else ["setring", "copyk", "monic", "monici"]))
        if op in ("add", "sub"):
            ops.append("%s %d %d %d" % (op, d, a, b)); degs[d] = max(degs[a], degs[b])
        elif op == "mul":
            if degs[a] + degs[b] > 40:
                continue
            ops.append("mul %d %d %d" % (d, a, b)); degs[d] = degs[a] + degs[b]
        elif op in ("neg", "der"):
            ops.append("%s %d %d" % (op, d, a)); degs[d] = degs[a]
        elif op == "pow":
            e = rng.choice([0, 1, 2, 2, 3, 4])
            if degs[a] * e > 40:
                continue
            ops.append("pow %d %d %d" % (d, a, e)); degs[d] = max(1, degs[a] * e)
        elif op == "mulc":
            c = rng.choice([0, 0, 1, -1, coeff(rng, m), coeff(rng, m)])
            if m and rng.random() < 0.4:
                c = rng.choice([m, 2, 3, m // 2 if m > 2 else 1, m // 3 if m > 3 else 1])
            ops.append("mulc %d %d %d" % (d, a, c)); degs[d] = degs[a]
        elif op == "evi":
            ops.append("evi %d %d" % (a, in_ring(rng, m) if rng.random() < 0.6 else red(m, rng.randint(-4, 4))))
        elif op == "evq" and m == 0:
            den = rng.choice([1, 2, 3, 7, 2**64 + 1, rng.randint(1, 50)]) * rng.choice([1, -1])
            ops.append("evq %d %d %d" % (a, rng.choice([0, 1, -1, rng.randint(-50, 50), coeff(rng, 0)]), den))
        elif op == "evd" and m == 0:
            ops.append("evd %d %d %d" % (a, rng.choice([0, 1, -1, 3, -5, rng.randint(-99, 99), coeff(rng, 0)]), rng.choice([0, 1, 2, 5, 64])))
        elif op == "topoly":
            ops.append("topoly %d %d" % (a, rng.randrange(NV)))
        elif op == "sgi":
            ops.append("sgi %d %d" % (a, in_ring(rng, m) if rng.random() < 0.5 else red(m, rng.randint(-4, 4))))
        elif op == "sgq" and m == 0:
            den = rng.choice([1, 2, 3, 7, 2**64 + 1, rng.randint(1, 50)]) * rng.choice([1, -1])
            ops.append("sgq %d %d %d" % (a, rng.choice([0, 1, -1, rng.randint(-50, 50), coeff(rng, 0)]), den))
        elif op == "sgd" and m == 0:
            ops.append("sgd %d %d %d" % (a, rng.choice([0, 1, -1, 3, -5, rng.randint(-99, 99), coeff(rng, 0)]), rng.choice([0, 1, 2, 5, 64])))
        elif op == "uobs":
            ops.append("uobs %d" % a)
        elif op == "monic":
            ops.append("monic %d %d" % (d, a)); degs[d] = degs[a]
        elif op in ("monici", "negi", "rev"):
            ops.append("%s %d" % (op, a))
        elif op == "sxn":
            ops.append("sxn %d %d" % (d, a)); degs[d] = degs[a]
        elif op == "sxp":
            e = rng.choice([1, 2, 2, 3, 4])
            if degs[a] * e > 60:
                continue
            ops.append("sxp %d %d" % (a, e)); degs[a] = degs[a] * e
            if rng.random() < 0.6:
                ops.append("divdeg %d %d %d" % (d, a, rng.choice([e, e, 2, 3]))); degs[d] = degs[a]
        elif op == "divdeg":
            ops.append("divdeg %d %d %d" % (d, a, rng.choice([2, 2, 3, 4]))); degs[d] = degs[a]
        elif op == "cpow":
            c = rng.choice([0, 1, -1, 5, m, -m, 2 * m, rng.randint(-9, 9), 2**62, -2**63, coeff(rng, m) % 2**62])
            if not (-2**63 <= c <= 2**63 - 1):
                c = c % 2**62                                       # the argument is a C long
            dg = rng.choice([0, 0, 1, 2, 5, 9])
            ops.append("cpow %d %d %d" % (d, dg, c)); degs[d] = dg + 1
        elif op in ("cint", "clong"):
            lim = 2**31 - 1 if op == "cint" else 2**63 - 1
            cs = [rng.choice([0, 0, 1, -1, m, -m, lim, -lim - 1, rng.randint(-lim, lim), rng.randint(-9, 9)]) for _ in range(rng.randint(1, 7))]
            cs = [max(-lim - 1, min(lim, c)) for c in cs]
            if rng.random() < 0.4:
                cs += [0] * rng.randint(1, 3)
            ops.append("%s %d %s" % (op, d, ",".join(map(str, cs)))); degs[d] = len(cs)
        elif op == "setring" and m != 0:
            # documented for a "larger" ring only: Z, or a modulus at least as big
            m2 = rng.choice([0, 0, m * 2, m * 3 + 1, m + 1, 2**64 + 13 if m < 2**64 else m * 5])
            ops.append("setring %d %d" % (a, m2))
        elif op == "copyk":
            m2 = rng.choice([0, 2, 3, 4, 5, 6, 9, 13, 2**64 + 13, m * 2 if m else 7, m + 1 if m else 10**20])
            if m2 != m:
                ops.append("copyk %d %d" % (a, m2))
    if not ops:
        ops.append("add 0 0 1")
    return "uv %d %d %s %s" % (m, n, " ".join(texts), " ".join(ops))


def generate(rng, tier, corpus_only=False):
    n = 9000 if tier == "quick" else 150000
    cases = []
    for _ in range(n):
        if rng.random() < 0.72:
            cases.append(mv_case(rng, tier))
        else:
            cases.append(uv_case(rng, tier))
    return cases


OPS3 = ("add", "sub", "mul", "addmul", "submul", "mulc", "pow", "shl", "fromuni")
OPS2 = ("neg", "asg", "der", "addmon", "evi")
OPS1 = ("ord", "touni")


def case_ops(case):
    t = case.split()
    if not t or t[0] not in ("mv", "uv") or len(t) < 4:
        return []
    if t[0] == "mv":
        k = 4 + int(t[3])
        ar = {"add": 4, "sub": 4, "mul": 4, "addmul": 4, "submul": 4, "mulc": 4, "pow": 4, "shl": 4, "fromuni": 4,
              "neg": 3, "asg": 3, "der": 3, "addmon": 3, "evi": 3, "ord": 2, "touni": 2,
              "obs": 2, "isas": 4, "touvm": 4, "red": 3, "gcoef": 4, "mgcd": 3, "addmon2": 3}
    else:
        k = 3 + int(t[2])
        ar = {"add": 4, "sub": 4, "mul": 4, "mulc": 4, "pow": 4, "evq": 4, "evd": 4, "neg": 3, "der": 3, "evi": 3, "topoly": 3,
              "sgi": 3, "sgq": 4, "sgd": 4, "uobs": 2, "monic": 3, "monici": 2, "negi": 2, "rev": 2, "sxn": 3, "sxp": 3,
              "cpow": 4, "cint": 3, "clong": 3, "divdeg": 4, "setring": 3, "copyk": 3}
    ops = []
    while k < len(t):
        a = ar.get(t[k])
        if not a:
            break
        ops.append(t[k:k + a])
        k += a
    return ops


def tag(case):
    t = case.split()
    if not t or t[0] not in ("mv", "uv") or len(t) < 4:
        return "malformed"
    ops = case_ops(case)
    return "%s:%s:%s" % (t[0], "Z" if t[1] == "0" else "Zm", ops[0][0] if ops else "none")


def nontrivial(case):
    t = case.split()
    if not t or t[0] not in ("mv", "uv") or len(t) < 4:
        return False
    n = int(t[3]) if t[0] == "mv" else int(t[2])
    pool = t[4:4 + n] if t[0] == "mv" else t[3:3 + n]
    return any(("x" in p) or ("," in p) for p in pool) and len(case_ops(case)) >= 1


def explain(case, c_out, m_out):
    if c_out is None:
        return "the library crashed (sanitizer report / assertion) on this operation sequence"
    cs, ms = c_out.split(" ;"), (m_out or "").split(" ;")
    ops = case_ops(case)
    for i, (x, y) in enumerate(zip(cs, ms)):
        if x != y:
            what = "initial pool" if i == 0 else "step %d (%s)" % (i, " ".join(ops[i - 1]) if i - 1 < len(ops) else "?")
            return "first difference at %s: library `%s`, model `%s`" % (what, x.strip(), y.strip())
    return "outputs differ in length"


def extra_coverage(cases, couts, mouts):
    hist = {}
    aliased = 0
    for c in cases:
        kind = c.split()[0]
        for o in case_ops(c):
            key = kind + ":" + o[0]
            hist[key] = hist.get(key, 0) + 1
            if len(o) >= 3 and o[0] in ("add", "sub", "mul", "addmul", "submul", "neg", "asg", "der", "mulc", "pow", "shl", "red", "gcoef", "monic", "sxn") and o[1] in o[2:3 if o[0] in ("mulc", "pow", "shl", "gcoef") else 4]:
                aliased += 1
    steps = sum(hist.values())
    return {"operation_histogram": hist, "steps": steps, "aliased_output_steps": aliased,
            "model_disagreements": sum(1 for m in mouts if m and "MODEL-DISAGREE" in m)}
