HARNESS = "c08"
LEVEL = "proof"
"""C08 case generator: one ordered number line for all value kinds.  Every random choice comes from `rng`.

Case lines (tokens of harness/valio.h):
  cmp A B | tri A B C | cmpq A q:n/d | obs A k | add|sub|mul|div A B U | neg A U | inv A U | pow A n U
  btw A sa B sb U | hash A B k p1 p2 ...
U = value sitting in the output operand before the call (another kind than the result)."""
from fractions import Fraction
import math

# ---------------------------------------------------------------------------------------- the fixed pool
# groups of tokens denoting THE SAME number in different representations (used for cmp = 0 and hashing)
GROUPS = [
    ["z:0", "d:0/0", "q:0/1", "r:0,1:0", "r:0,-2,0,1:1"],
    ["z:3", "d:3/0", "q:3/1", "a:6,-2,-3,1:5/1:7/1", "r:6,-2,-3,1:2", "r:-3,1:0"],
    ["z:-3", "d:-3/0", "q:-3/1", "r:-6,-2,3,1:0"],
    ["z:1", "d:1/0", "q:1/1", "r:-1,0,1:1"],
    ["d:1/1", "q:1/2", "a:-1,2:0/0:1/0", "r:2,-4,-1,2:1"],
    ["d:3/2", "q:3/4", "a:6,-8,-3,4:0/0:1/0"],
    ["d:-7/2", "q:-7/4", "r:7,4:0"],
    ["q:1/3", "a:-1,3:0/0:1/0", "a:2,-6,-1,3:0/0:1/0", "r:-1,3:0"],
    ["q:-22/7", "a:22,7:-4/0:-3/0", "r:-44,-14,22,7:0"],
    ["q:7/3", "r:-7,3:0", "a:14,-6,-7,3:2/0:3/0"],
    ["a:-2,0,1:1/0:2/0", "a:-2,0,1:5/2:3/1", "r:6,-2,-3,1:1", "a:-4,0,0,0,1:1/0:2/0", "r:-2,0,1:1"],
    ["a:-2,0,1:-2/0:-1/0", "r:-2,0,1:0", "r:-6,-2,3,1:1"],
    ["a:-3,0,1:1/0:2/0", "r:-3,0,1:1"],
    ["a:-2,0,0,1:1/0:2/0", "r:-2,0,0,1:0"],
    ["a:-1,-1,1:1/0:2/0", "r:-1,-1,1:1"],
    ["a:-1,-1,1:-1/0:0/0", "r:-1,-1,1:0"],
    ["z:1180591620717411303425", "d:1180591620717411303425/0", "q:1180591620717411303425/1"],
    ["d:1180591620717411303425/70", "q:1180591620717411303425/1180591620717411303424"],
    ["-inf"], ["+inf"],
]
SINGLES = [
    "z:2", "z:-1", "z:5", "z:-1180591620717411303424",
    "d:-1/1", "d:5/3", "d:1/40", "d:-3/1", "d:11/3",
    "q:2/3", "q:-1/3", "q:-5/6", "q:17/12", "q:99/70", "q:3/2", "q:141421356237/100000000000",
    "a:-201,0,100:1/0:2/0",            # sqrt(2.01), next to sqrt 2
    "a:-401,0,100:2/0:3/0",            # 2.0025, next to an integer
    "a:-5,0,1:2/0:3/0", "a:-5,0,1:-3/0:-2/0",
    "a:-1099511627777,0,1:1048576/0:1048577/0",
    "a:1,-3,0,1:1/0:2/0",              # 2cos(2pi/9)-type cubic x^3-3x+1
    "r:1,-3,0,1:0", "r:1,-3,0,1:1",
    "r:-7,0,0,0,0,1:0",                # 7^(1/5)
    "r:-1,0,8:0",                      # -1/(2 sqrt 2)
]
POOL = [t for g in GROUPS for t in g] + SINGLES
# one value per kind and per shape value.c dispatches on (point / degree-1 / proper algebraic; 0; +-inf; big)
CORE = ["z:0", "z:3", "z:-3", "z:1180591620717411303425", "d:1/1", "d:-7/2", "d:3/0", "d:1180591620717411303425/70",
        "q:1/3", "q:-22/7", "q:3/1", "q:1/2", "q:0/1",
        "a:-2,0,1:1/0:2/0", "a:-2,0,1:-2/0:-1/0", "a:-3,0,1:1/0:2/0", "a:-1,2:0/0:1/0", "a:6,-2,-3,1:5/1:7/1",
        "a:-1,3:0/0:1/0", "a:2,-6,-1,3:0/0:1/0", "r:0,1:0", "a:22,7:-4/0:-3/0", "+inf", "-inf"]
QS = ["q:0/1", "q:1/2", "q:1/3", "q:-1/3", "q:3/1", "q:-3/1", "q:3/4", "q:7/5", "q:99/70", "q:17/12", "q:-22/7",
      "q:141421356237/100000000000", "q:707106781187/500000000000", "q:1180591620717411303425/1180591620717411303424", "q:7/3"]
PRECS = ["0", "1", "2", "3", "5", "8", "16", "40"]


def kind(tok):
    if tok in ("-inf", "+inf"):
        return "inf"
    return {"z": "z", "d": "d", "q": "q", "a": "alg", "r": "alg", "P": "alg"}[tok[0]]


def is_alg(tok):
    return kind(tok) == "alg"


def used_for(rng, toks):
    """a pre-used output of a kind that differs from the inputs' kinds where possible"""
    ks = {kind(t) for t in toks}
    cand = [t for t in ("z:-77", "d:5/3", "q:-7/3", "a:-2,0,1:1/0:2/0", "+inf", "-inf", "a:-1,3:0/0:1/0") if kind(t) not in ks]
    if not cand:
        cand = ["q:-7/3", "a:-3,0,1:1/0:2/0"]
    return rng.choice(cand)


# ---------------------------------------------------------------------------------------- random values
def rand_int(rng):
    k = rng.random()
    if k < 0.5:
        return rng.randint(-12, 12)
    if k < 0.8:
        return rng.choice([1, -1]) * (2 ** rng.randint(1, 80) + rng.choice([-1, 0, 1]))
    return rng.randint(-10 ** 25, 10 ** 25)


def rand_dy(rng):
    n = rng.choice([1, 1, 2, 3, 5, 30, 64, 65])
    a = rand_int(rng) * 2 + 1
    return "d:%d/%d" % (a, n)


def rand_q(rng):
    d = rng.choice([1, 2, 3, 3, 5, 6, 7, 12, 1000, 2 ** 40 + 1, 10 ** 20 + 39])
    n = rand_int(rng)
    f = Fraction(n, d)
    return "q:%d/%d" % (f.numerator, f.denominator)


def poly_eval(cs, x):
    r = Fraction(0)
    for c in reversed(cs):
        r = r * x + c
    return r


def rand_alg(rng):
    """a real root of a small random polynomial with non-zero constant term: 'r:' token (k-th root), or None"""
    for _ in range(20):
        deg = rng.choice([2, 2, 2, 3, 3, 4])
        cs = [rng.randint(-6, 6) for _ in range(deg + 1)]
        if cs[0] == 0 or cs[-1] == 0:
            continue
        g = 0
        for c in cs:
            g = math.gcd(g, c)
        if g != 1:
            continue
        if cs[-1] < 0:
            cs = [-c for c in cs]
        # count sign changes on a grid to guess the number of real roots (a guess is enough: the k-th root must
        # exist, which the C driver reports as BADTOKEN otherwise -> those cases are filtered by `usable`)
        roots = 0
        prev = None
        for i in range(-64 * 8, 64 * 8 + 1):
            v = poly_eval(cs, Fraction(i, 8))
            s = (v > 0) - (v < 0)
            if s == 0:
                roots += 1
                prev = None
                continue
            if prev is not None and s != prev:
                roots += 1
            prev = s
        if roots == 0:
            continue
        return "r:%s:%d" % (",".join(str(c) for c in cs), rng.randrange(roots))
    return "a:-2,0,1:1/0:2/0"


def rand_value(rng):
    k = rng.random()
    if k < 0.15:
        return "z:%d" % rand_int(rng)
    if k < 0.35:
        return rand_dy(rng)
    if k < 0.55:
        return rand_q(rng)
    if k < 0.6:
        return rng.choice(["-inf", "+inf"])
    return rand_alg(rng)



# ---------------------------------------------------------------------------------------- touching end points
# proper algebraic numbers with a KNOWN, already normalised isolating interval (width < 1, no integer inside), so that
# lp_algebraic_number_construct keeps it: (coefficients low first, lo, hi) with lo, hi dyadic Fractions
ALPHAS = [
    ([-3, 0, 1], Fraction(3, 2), Fraction(7, 4)),        # sqrt 3
    ([-3, 0, 1], Fraction(-7, 4), Fraction(-3, 2)),      # -sqrt 3 (the touching end is the UPPER one)
    ([-2, 0, 1], Fraction(-3, 2), Fraction(-5, 4)),      # -sqrt 2
    ([-2, 0, 1], Fraction(5, 4), Fraction(3, 2)),        # sqrt 2
    ([-1, -1, 1], Fraction(3, 2), Fraction(7, 4)),       # golden ratio
    ([-2, 0, 0, 1], Fraction(5, 4), Fraction(3, 2)),     # cube root of 2
    ([-5, 0, 1], Fraction(2), Fraction(5, 2)),           # sqrt 5: the lower end is an integer
    ([-5, 0, 1], Fraction(-5, 2), Fraction(-2)),         # -sqrt 5: the upper end is an integer
    ([2, -6, -1, 3], Fraction(1, 4), Fraction(1, 2)),    # 1/3, secretly rational, degree 3
    ([1, -3, 0, 1], Fraction(1, 4), Fraction(3, 8)),     # root of x^3-3x+1 near 0.347
]


def dy_str(f):
    """Fraction with power-of-two denominator -> 'a/n' (normalised)"""
    n = f.denominator.bit_length() - 1
    assert f.denominator == 1 << n
    return "%d/%d" % (f.numerator, n)


def alpha_token(cs, lo, hi):
    return "a:%s:%s:%s" % (",".join(str(c) for c in cs), dy_str(lo), dy_str(hi))


def alg_point(f):
    """an LP_VALUE_ALGEBRAIC value that is the dyadic point f: a linear polynomial whose isolating interval collapses to
    the point during construction (the root is hit by the bisection)"""
    if f == 0:
        return "r:0,1:0"
    if f.denominator == 1:
        k = f.numerator
        return "a:%d,1:%d/1:%d/1" % (-k, 2 * k - 1, 2 * k + 1)
    fl = f.numerator // f.denominator
    return "a:%d,%d:%d/0:%d/0" % (-f.numerator, f.denominator, fl, fl + 1)


def refine_levels(cs, lo, hi, depth):
    """the isolating intervals the library reaches by bisection: [(lo,hi), (lo1,hi1), ...] (stops at an exact hit)"""
    res = [(lo, hi)]
    slo = poly_eval(cs, lo)
    for _ in range(depth):
        m = (lo + hi) / 2
        sm = poly_eval(cs, m)
        if sm == 0:
            break
        if (sm > 0) == (slo > 0):
            lo = m
        else:
            hi = m
        res.append((lo, hi))
    return res


def touching_cases(rng, thorough):
    """every proper algebraic number of ALPHAS against algebraic-TYPED dyadic points at both end points of its isolating
    interval (and of the intervals reached after 1-3 refinement steps), just inside and just outside: comparison in both
    orders, after a comparison that forces refinement (cmps), arithmetic, and as bounds of the in-between picker"""
    cases = []
    for (cs, lo, hi) in ALPHAS:
        A = alpha_token(cs, lo, hi)
        levels = refine_levels(cs, lo, hi, 3)
        pts = []
        for (l, h) in levels:
            w = h - l
            for f in (l, h, (l + h) / 2, l - w / 4, h + w / 4, l + w / 8, h - w / 8):
                if f not in pts:
                    pts.append(f)
        for f in pts:
            # P:a/n is a point from the start; the linear `a:` token collapses only when the bisection hits the root
            P = rng.choice(["P:" + dy_str(f), "P:" + dy_str(f), alg_point(f)])
            D = "d:" + dy_str(f)
            cases.append("cmp %s %s" % (A, P))
            cases.append("cmp %s %s" % (P, A))
            cases.append("tri %s %s %s" % (P, A, D))
            for (l, h) in levels[:-1] if len(levels) > 1 else []:
                # X strictly inside the current interval, not the number: the first comparison refines A in place
                X = rng.choice(["d:", "q:"]) 
                m = (l + h) / 2
                if poly_eval(cs, m) == 0:
                    continue
                xt = ("d:" + dy_str(m)) if X == "d:" else ("q:%d/%d" % (m.numerator, m.denominator))
                if rng.random() < (1.0 if thorough else 0.5):
                    cases.append("cmps %s %s %s" % (A, rng.choice([xt, alg_point(m)]), P))
        ends = []
        for (l, h) in levels:
            for f in (l, h):
                if f not in ends:
                    ends.append(f)
        for f in ends:
            P = rng.choice(["P:" + dy_str(f), alg_point(f)])
            for op in ("add", "sub", "mul", "div"):
                if thorough or rng.random() < 0.5:
                    a, b = (A, P) if rng.random() < 0.5 else (P, A)
                    cases.append("%s %s %s %s" % (op, a, b, used_for(rng, [a, b])))
            for (a, b) in ((A, P), (P, A)):
                for sa in (0, 1):
                    for sb in (0, 1):
                        if thorough or rng.random() < 0.6:
                            cases.append("btw %s %d %s %d %s" % (a, sa, b, sb, used_for(rng, [a, b])))
    # two proper algebraic numbers whose isolating intervals TOUCH (sqrt2 on (5/4,3/2) and sqrt3 / golden on (3/2,7/4))
    touch = [(alpha_token(*ALPHAS[3]), alpha_token(*ALPHAS[0])), (alpha_token(*ALPHAS[5]), alpha_token(*ALPHAS[4])),
             (alpha_token(*ALPHAS[1]), alpha_token(*ALPHAS[2]))]
    for (a, b) in touch:
        cases += ["cmp %s %s" % (a, b), "cmp %s %s" % (b, a)]
        for sa in (0, 1):
            for sb in (0, 1):
                cases.append("btw %s %d %s %d %s" % (a, sa, b, sb, used_for(rng, [a, b])))
                cases.append("btw %s %d %s %d %s" % (b, sb, a, sa, used_for(rng, [a, b])))
    return cases


# ---------------------------------------------------------------------------------------- shared-interval families
# numbers the library holds with IDENTICAL isolating intervals: lp_algebraic_number_cmp then takes its "equal intervals"
# branch (gcd of the defining polynomials, sign change of the gcd on the interval, reduction of BOTH polynomials, or the
# bisect-away race).  Each member = main factor (its root is the number) x outside factors (roots outside the interval):
# equal numbers with different polynomials, different numbers sharing an outside factor, different numbers with coprime
# polynomials, rationals / dyadics hidden behind a polynomial, one of them exactly the mid point.
def pmul(a, b):
    r = [0] * (len(a) + len(b) - 1)
    for i, x in enumerate(a):
        for j, y in enumerate(b):
            r[i + j] += x * y
    return r


# (lo, hi, main factors [(coeffs, tag)], outside factors)
FAMILIES = [
    (Fraction(5, 4), Fraction(3, 2),
     [([-2, 0, 1], "sqrt2"), ([-7, 0, 4], "sqrt7/2"), ([-4, 3], "4/3"), ([-11, 8], "11/8 mid"), ([-21, 16], "21/16"),
      ([-2, 0, 0, 1], "cbrt2"), ([-33, 0, 16], "sqrt33/4")],
     [[-5, 1], [-3, 0, 1], [1, 1], [-1, 2]]),
    (Fraction(1, 4), Fraction(1, 2),
     [([-3, 8], "3/8 mid"), ([-1, 2, 1], "sqrt2-1"), ([-1, 3], "1/3"), ([-7, 16], "7/16"), ([-1, 2, 2], "(sqrt3-1)/2"),
      ([1, -3, 0, 1], "cubic .347")],
     [[-5, 1], [-2, 0, 1], [1, 1]]),
    (Fraction(-3, 2), Fraction(-5, 4),
     [([-2, 0, 1], "-sqrt2"), ([-7, 0, 4], "-sqrt7/2"), ([4, 3], "-4/3"), ([11, 8], "-11/8 mid"), ([2, 0, 0, 1], "-cbrt2")],
     [[-5, 1], [-3, 0, 1], [-1, 1]]),
    (Fraction(2), Fraction(5, 2),
     [([-5, 0, 1], "sqrt5"), ([-9, 4], "9/4 mid"), ([-7, 3], "7/3"), ([-17, 8], "17/8"), ([-21, 0, 4], "sqrt21/2")],
     [[-5, 1], [-2, 0, 1], [1, 1]]),
]


def family_tokens(rng, fam, per_main=3):
    """[(token, main index, degree)]: for every main factor the bare polynomial and products with outside factors"""
    lo, hi, mains, outs = fam
    res = []
    for i, (m, _) in enumerate(mains):
        variants = [[]] + [[o] for o in outs] + [[outs[0], outs[1]]]
        rng.shuffle(variants)
        chosen = [[]] + [v for v in variants if v][:per_main - 1]
        if [outs[0]] not in chosen:
            chosen[-1] = [outs[0]]              # the factor everybody shares
        for v in chosen:
            cs = m
            for o in v:
                cs = pmul(cs, o)
            if cs[-1] < 0:
                cs = [-c for c in cs]
            res.append((alpha_token(cs, lo, hi), i, len(cs) - 1))
    return res


def family_cases(rng, thorough):
    cases = []
    for fam in FAMILIES:
        lo, hi, mains, outs = fam
        toks = family_tokens(rng, fam)
        mid = (lo + hi) / 2
        thirds = ["d:" + dy_str(mid), "P:" + dy_str(mid), "q:%d/%d" % ((lo + mid) / 2).as_integer_ratio(),
                  "d:" + dy_str((mid + hi) / 2), "d:" + dy_str(lo), "P:" + dy_str(hi)] + [t for (t, _, _) in toks[:4]]
        for (a, ia, da) in toks:
            for (b, ib, db) in toks:
                if a == b and not thorough:
                    continue
                p = 1.0 if thorough else (0.5 if ia == ib else 0.3)
                if rng.random() < p:
                    cases.append("cmp %s %s" % (a, b))
                if rng.random() < p:
                    cases.append("cmpt %s %s %s" % (a, b, rng.choice(thirds)))
                if rng.random() < p * 0.3:
                    cases.append("tri %s %s %s" % (a, b, rng.choice(thirds)))
                if rng.random() < p * 0.3:
                    cases.append("btw %s %d %s %d %s" % (a, rng.randint(0, 1) if ia != ib else 0, b,
                                                          rng.randint(0, 1) if ia != ib else 0, used_for(rng, [a, b])))
                if da + db <= 5 and rng.random() < p * 0.12:
                    cases.append("%s %s %s %s" % (rng.choice(["add", "sub", "mul", "div"]), a, b, used_for(rng, [a, b])))
    return cases

# ---------------------------------------------------------------------------------------- cases
def generate(rng, tier):
    cases = []
    thorough = tier == "thorough"
    extra = [rand_value(rng) for _ in range(40 if thorough else 14)]
    pool = POOL + extra
    light = [t for t in pool if not is_alg(t)]
    algs = [t for t in pool if is_alg(t)]

    def keep(p):
        return thorough or rng.random() < p

    # --- comparison: ALL ordered pairs of the fixed pool, plus the random values against everything
    for a in pool:
        for b in pool:
            if a in POOL and b in POOL or keep(0.5):
                cases.append("cmp %s %s" % (a, b))
    for a in pool:
        for q in QS:
            if keep(0.6):
                cases.append("cmpq %s %s" % (a, q))
    # --- algebraic-typed points at the end points of isolating intervals (the open/closed tie-break of
    #     lp_algebraic_number_cmp, equal hull ends in get_value_between)
    cases += touching_cases(rng, thorough)
    # --- numbers held with IDENTICAL isolating intervals (the equal-intervals branch of lp_algebraic_number_cmp)
    cases += family_cases(rng, thorough)
    # --- triples: members of equal groups mixed with neighbours, and random triples
    for _ in range(1500 if thorough else 350):
        if rng.random() < 0.4:
            g = rng.choice(GROUPS)
            t = [rng.choice(g), rng.choice(g), rng.choice(pool)]
            rng.shuffle(t)
        else:
            t = [rng.choice(pool) for _ in range(3)]
        cases.append("tri %s %s %s" % tuple(t))
    # --- observations at several refinement states
    for a in pool:
        for k in (0, 1, 2, 7, 30):
            if k == 0 or is_alg(a):
                cases.append("obs %s %d" % (a, k))
    # --- unary arithmetic
    for a in pool:
        cases.append("neg %s %s" % (a, used_for(rng, [a])))
        cases.append("inv %s %s" % (a, used_for(rng, [a])))
        for n in (0, 1, 2, 3, 5) if not is_alg(a) else (0, 1, 2, 3):
            if is_alg(a) and n == 3 and not keep(0.3):
                continue
            if kind(a) == "inf" and n == 0:
                continue        # inf^0 is outside the documented domain
            cases.append("pow %s %d %s" % (a, n, used_for(rng, [a])))
    # --- binary arithmetic: ALL ordered pairs of the core pool (one value per kind and shape) for every operation,
    #     plus sampled pairs of the whole pool (thorough: all pairs with at most one proper algebraic side, 40% of
    #     the algebraic x algebraic ones - the reference resultants dominate the cost)
    for op in ("add", "sub", "mul", "div"):
        for a in CORE:
            for b in CORE:
                cases.append("%s %s %s %s" % (op, a, b, used_for(rng, [a, b])))
        for a in pool:
            for b in pool:
                if a in CORE and b in CORE:
                    continue
                both = is_alg(a) and is_alg(b)
                if both:
                    p = 0.03
                elif is_alg(a) or is_alg(b):
                    p = 0.12
                else:
                    p = 0.2
                if (thorough and (not both or rng.random() < 0.4)) or (not thorough and rng.random() < p):
                    cases.append("%s %s %s %s" % (op, a, b, used_for(rng, [a, b])))
    # --- the in-between picker: every strictness combination
    def btw(a, b):
        for sa in (0, 1):
            for sb in (0, 1):
                cases.append("btw %s %d %s %d %s" % (a, sa, b, sb, used_for(rng, [a, b])))
    structured = [
        ("a:-2,0,1:1/0:2/0", "a:-201,0,100:1/0:2/0"),     # adjacent algebraic numbers sharing the initial interval
        ("a:-2,0,1:1/0:2/0", "a:-3,0,1:1/0:2/0"),         # sqrt2, sqrt3: equal hull ends after separation
        ("a:-2,0,1:1/0:2/0", "q:3/2"), ("q:3/2", "a:-3,0,1:1/0:2/0"), ("a:-2,0,1:1/0:2/0", "d:3/1"),
        ("a:-2,0,1:1/0:2/0", "q:99/70"), ("q:141421356237/100000000000", "a:-2,0,1:1/0:2/0"),
        ("a:-2,0,1:1/0:2/0", "z:2"), ("z:1", "a:-2,0,1:1/0:2/0"), ("z:1", "z:2"), ("z:1", "z:3"), ("z:2", "z:3"),
        ("a:-3,0,1:1/0:2/0", "a:-5,0,1:2/0:3/0"),         # an integer (2) between two algebraic numbers
        ("a:-401,0,100:2/0:3/0", "z:2"), ("a:-401,0,100:2/0:3/0", "a:-5,0,1:2/0:3/0"),
        ("q:1/3", "a:2,-6,-1,3:0/0:1/0"), ("a:-1,3:0/0:1/0", "q:1/3"), ("a:-1,3:0/0:1/0", "q:1/2"),
        ("a:2,-6,-1,3:0/0:1/0", "d:1/1"), ("a:2,-6,-1,3:0/0:1/0", "a:-1,2:0/0:1/0"),
        ("d:1/1", "d:3/2"), ("q:1/3", "q:1/2"), ("q:2/3", "z:1"), ("z:0", "q:1/3"), ("q:-1/3", "z:0"), ("q:-1/3", "q:1/3"),
        ("d:5/3", "q:2/3"), ("q:7/3", "q:17/12"), ("z:-3", "z:3"), ("z:3", "z:3"), ("q:1/3", "a:-1,3:0/0:1/0"),
        ("-inf", "+inf"), ("-inf", "z:3"), ("-inf", "q:-22/7"), ("-inf", "a:-2,0,1:-2/0:-1/0"), ("-inf", "d:-7/2"),
        ("z:3", "+inf"), ("q:7/3", "+inf"), ("a:-5,0,1:2/0:3/0", "+inf"), ("d:11/3", "+inf"), ("+inf", "+inf"), ("-inf", "-inf"),
        ("a:-1099511627777,0,1:1048576/0:1048577/0", "z:1048577"), ("z:1048576", "a:-1099511627777,0,1:1048576/0:1048577/0"),
        ("r:1,-3,0,1:1", "r:1,-3,0,1:2"), ("r:1,-3,0,1:0", "r:1,-3,0,1:1"),
        ("q:1180591620717411303425/1180591620717411303424", "z:1"), ("d:1180591620717411303425/70", "q:1180591620717411303425/1180591620717411303424"),
    ]
    for (a, b) in structured:
        btw(a, b)
        if a != b:
            btw(b, a)
    for _ in range(1200 if thorough else 260):
        a, b = rng.choice(pool), rng.choice(pool)
        if rng.random() < 0.25:
            g = rng.choice(GROUPS)
            a, b = rng.choice(g), rng.choice(g)
        btw(a, b)
    # --- hashing: equal numbers in different representations, several precisions
    for g in GROUPS:
        for a in g:
            for b in g:
                if keep(0.7):
                    cases.append("hash %s %s %d %s" % (a, b, rng.choice([1, 2, 5, 11]), " ".join(PRECS)))
    for a in extra:
        cases.append("hash %s %s %d %s" % (a, a, rng.choice([1, 3, 9]), " ".join(PRECS)))
    return cases


def tag(case):
    t = case.split()
    op = t[0]
    vals = [x for x in t[1:] if x in ("-inf", "+inf") or (len(x) > 1 and x[1] == ":")]
    if op in ("cmp", "add", "sub", "mul", "div", "btw"):
        return op + ":" + kind(vals[0]) + "," + kind(vals[1])
    if op in ("neg", "inv", "pow", "obs", "cmpq"):
        return op + ":" + kind(vals[0])
    return op


def nontrivial(case):
    """non-trivial: two different representations meet, or an algebraic / infinite operand is involved"""
    t = case.split()
    vals = [x for x in t[1:] if x in ("-inf", "+inf") or (len(x) > 1 and x[1] == ":")]
    ks = {kind(v) for v in vals[:2] if v}
    return len(ks) > 1 or "alg" in ks or "inf" in ks or t[0] in ("obs", "hash", "tri")


def explain(case, c_out, m_out):
    return ("case `%s`: the C driver printed `%s` (states of the inputs | results); the model check says `%s`. "
            "Results are compared by denotation with the reference numbers, kinds/signs/floors exactly." % (case, c_out, m_out))


def _touching(states):
    pts = [t[2:] for t in states if t.startswith("p:")]
    for t in states:
        if t.startswith("a:"):
            f = t.split(":")
            if len(f) >= 4 and (f[2] in pts or f[3] in pts):
                return True
    ivs = [t.split(":")[2:4] for t in states if t.startswith("a:") and len(t.split(":")) >= 4]
    for i in range(len(ivs)):
        for j in range(len(ivs)):
            if i != j and ivs[i][1] == ivs[j][0]:
                return True
    return False


def extra_coverage(cases, couts, mouts):
    """checks the generator's assumption on what the library HOLDS: number of comparisons / between calls whose printed
    states are an algebraic point sitting exactly on an end point of the other operand's isolating interval (or two
    isolating intervals sharing an end point)"""
    n = {"cmp": 0, "cmps": 0, "btw": 0, "arith": 0}
    for c, o in zip(cases, couts):
        if not o or "|" not in o:
            continue
        op = c.split()[0]
        states = o.split("|")[0].split()
        if op == "cmps":
            r = o.split("|")[1].split()
            if len(r) >= 3 and _touching([r[2], states[2]]):
                n["cmps"] += 1
        elif op in ("cmp", "btw") and _touching(states):
            n[op] += 1
        elif op in ("add", "sub", "mul", "div") and _touching(states):
            n["arith"] += 1
    return {"touching_endpoint_cases": n}


RULE = ("fixed pool of %d values covering every kind (incl. secretly rational/integral algebraic numbers, +-inf, groups of "
        "equal numbers in different representations) + seeded random values; ALL ordered pairs of the fixed pool for cmp, sampled "
        "pairs for arithmetic, every strictness combination for between; distinct = distinct case line" % len(POOL))
ASSUMPTIONS = ["algebraic-number algorithms (C07) are replaced by the reference operations of RefAlg.v in the model",
               "the word mixing of the hash functions is not modelled: only equality of hashes of equal numbers is checked"]
TRUSTED = ["reference real algebraic numbers coq/RefAlg.v (Sturm sequences, resultants) used as the denotation oracle"]
TIMEOUT = 1500
