HARNESS = "c03"
STALE_RERUN = True   # operands also re-run as stale external polynomials (see check)
LEVEL = "proof"
"""C03 case generator: gcd / lcm / content / primitive part / extended gcd / Bezout.
Every random choice comes from the one `rng` passed in.  Case grammar: see harness/c03.c."""
import os
from itertools import permutations

HOOK = os.environ.get("VERIF_HOOK_GCD", "1") == "1"   # the hook is committed in /repo (c973662); set VERIF_HOOK_GCD=0 for a tree without it
PRIMES = [2, 3, 5, 7, 13, 101]
TIMEOUT = 900

RULE = ("seeded structured generator gen/C03.py (corpus first): pairs (g*a, g*b) with planted g sharing numeric, "
        "monomial and polynomial factors, coprime/equal/zero/constant operands, both argument orders, all orders of "
        "3 variables; distinct = distinct case line; non-trivial = both operands non-constant (gcd/lcm/ext/bezout) "
        "or a non-constant input (content/pp)")
ASSUMPTIONS = ["upolynomial content / primitive part are exercised on non-zero polynomials only "
               "(lp_upolynomial_content_Z asserts content > 0)",
               "solve_bezout is exercised with gcd(p,q) | r and deg r < deg p + deg q (otherwise the documented degree "
               "bounds cannot hold for any u, v)",
               "degrees <= 12 (univariate) / <= 4 per variable in <= 3 variables (multivariate)"]
TRUSTED = ["multivariate 'greatest' half: compared with the unproved reference mp_gcd_ref (recursive primitive PRS) - "
           "ORACLE; divides-both / planted-factor / product checks are certificate re-multiplications"]
EXPLANATION = ("univariate: implementation output is run through proved checkers (gcd_check_Z, egcd_check_Zp, "
               "solve_bezout_check, cont_pp_check_Z), compared with the proved reference pgcd up to sign, and compared "
               "exactly with the faithful models of heuristic / subresultant / Euclid; multivariate: checkers + oracle")


# ------------------------------------------------------------------ univariate helpers (lists, low degree first)
def utrim(p):
    p = list(p)
    while p and p[-1] == 0:
        p.pop()
    return p


def umul(a, b):
    if not a or not b:
        return []
    r = [0] * (len(a) + len(b) - 1)
    for i, x in enumerate(a):
        for j, y in enumerate(b):
            r[i + j] += x * y
    return utrim(r)


def uadd(a, b):
    n = max(len(a), len(b))
    return utrim([(a[i] if i < len(a) else 0) + (b[i] if i < len(b) else 0) for i in range(n)])


def ustr(p):
    p = utrim(p)
    return ",".join(str(c) for c in p) if p else "0"


def umod(p, m):
    return utrim([c % m for c in p])


def ucoef(rng, big=False):
    k = rng.random()
    if big and k < 0.3:
        return rng.choice([1, -1]) * rng.randint(2 ** 20, 2 ** 70)
    if k < 0.6:
        return rng.randint(-3, 3)
    if k < 0.9:
        return rng.randint(-12, 12)
    return rng.randint(-1000, 1000)


def upoly(rng, maxdeg, big=False, nz=True):
    d = rng.randint(0, maxdeg)
    p = [ucoef(rng, big) for _ in range(d + 1)]
    if rng.random() < 0.3:          # sparse
        p = [c if rng.random() < 0.5 else 0 for c in p]
    p = utrim(p)
    if nz and not p:
        p = [rng.choice([1, -1, 2, -3])]
    return p


CYCLO = [[-1, 1], [1, 1], [1, 1, 1], [1, 0, 1], [1, 1, 1, 1, 1], [1, -1, 1], [1, 0, 0, 0, 1], [1, 0, -1, 0, 1],
         [1, -1, 1, -1, 1], [1, 1, 1, 1, 1, 1, 1]]


def uplanted(rng, big=False):
    """(A, B) = (g*a, g*b); g has a numeric, an x^k and a polynomial factor, each present with prob 1/2"""
    g = [1]
    if rng.random() < 0.5:
        g = umul(g, [rng.choice([2, 3, -2, 4, 6, -5, 12, 30])])
    if rng.random() < 0.4:
        g = umul(g, [0] * rng.randint(1, 3) + [1])
    if rng.random() < 0.7:
        g = umul(g, upoly(rng, 3, big))
    if rng.random() < 0.15:
        g = umul(g, rng.choice(CYCLO))
    a = upoly(rng, 4, big)
    b = upoly(rng, 4, big)
    k = rng.random()
    if k < 0.1:
        b = a                                  # equal cofactors: gcd = g*a
    elif k < 0.2:
        b = umul(a, upoly(rng, 2))             # one divides the other
    elif k < 0.3:
        a = umul(a, [rng.choice([2, 3, 5])])   # extra content on one side only
    elif k < 0.4:
        a, b = rng.choice(CYCLO), rng.choice(CYCLO)
    return umul(g, a), umul(g, b), g


def upair(rng, big=False):
    a, b, g = upair0(rng, big)
    return utrim(a), utrim(b), utrim(g)


def upair0(rng, big=False):
    k = rng.random()
    if k < 0.04:
        return [], upoly(rng, 4, big, nz=False), []
    if k < 0.07:
        return upoly(rng, 4, big, nz=False), [], []
    if k < 0.10:
        return [ucoef(rng) or 2], upoly(rng, 4, big), []
    if k < 0.13:
        c = rng.choice([2, 3, 4, 6, -6, 10])
        return [c * rng.randint(1, 5)], [c * rng.randint(-5, 5)], []
    if k < 0.18:
        a = upoly(rng, 5, big)
        return a, rng.choice([a, [-c for c in a], umul(a, [rng.choice([2, -3])])]), []
    if k < 0.28:
        # products of cyclotomic polynomials: small inputs, gcds with comparatively large coefficients
        fs = [rng.choice(CYCLO) for _ in range(rng.randint(2, 5))]
        a, b = [1], [1]
        for f in fs:
            r = rng.random()
            if r < 0.6:
                a = umul(a, f)
            if r > 0.3:
                b = umul(b, f)
        return a, b, []
    if k < 0.36:
        return upoly(rng, 6, big), upoly(rng, 6, big), []      # (almost always) coprime
    return uplanted(rng, big)


def ueval(p, x):
    r = 0
    for c in reversed(p):
        r = r * x + c
    return r


def ucontent(p):
    from math import gcd
    g = 0
    for c in p:
        g = gcd(g, abs(c))
    return g


def utrap(rng):
    """Pairs on which the FIRST heuristic candidate divides one operand but not the other, so that each of the
    two trial divisions of upolynomial_gcd_heuristic is the one that rejects it: small primitive S, and T adjusted
    so that T(2^n) is a multiple of S(2^n) at the first evaluation point 2^n although gcd(S, T) = 1 (in general)."""
    while True:
        ds = rng.randint(1, 3)
        S = [rng.randint(-3, 3) for _ in range(ds)] + [rng.choice([1, -1, 2, 3, -3])]
        if ucontent(S) != 1:
            continue
        n = max(abs(c).bit_length() for c in S if c) + 2
        v = abs(ueval(S, 2 ** n))
        if v < 2:
            continue
        if rng.random() < 0.5:
            dt = rng.randint(ds, ds + 2)      # T is the larger-degree operand: candidate | S (= B), not | T (= A)
        else:
            dt = rng.randint(max(0, ds - 2), ds)  # T is the smaller-degree operand with large coefficients
        T = [rng.randint(-3, 3) for _ in range(dt)] + [rng.choice([1, -1, 2, 5])]
        T[0] -= ueval(T, 2 ** n) % v
        if rng.random() < 0.5 and len(T) > 1:
            T[0] += v * rng.choice([1, -1, 2])
            T[1] += v * rng.choice([0, 1, -3])
            T[0] -= ueval(T, 2 ** n) % v
        T = utrim(T)
        if not T or ucontent(T) != 1 or max(abs(c).bit_length() for c in T) < n - 2:
            continue
        if rng.random() < 0.3:                # with a planted common factor on top
            g = upoly(rng, 2)
            return umul(S, g), umul(T, g)
        return S, T


# ------------------------------------------------------------------ multivariate helpers (dict: exponent tuple -> coef)
NV = 3


def mmul(a, b):
    r = {}
    for ea, ca in a.items():
        for eb, cb in b.items():
            e = tuple(x + y for x, y in zip(ea, eb))
            r[e] = r.get(e, 0) + ca * cb
    return {e: c for e, c in r.items() if c != 0}


def mstr(p):
    if not p:
        return "0"
    ts = []
    for e, c in sorted(p.items(), reverse=True):
        ts.append(str(c) + "".join("*x%d^%d" % (i, k) for i, k in enumerate(e) if k > 0))
    return "+".join(ts)


def mconst(c):
    return {(0,) * NV: c} if c else {}


def mpoly(rng, vars_, maxdeg, nterms):
    p = {}
    for _ in range(rng.randint(1, nterms)):
        e = [0] * NV
        for v in vars_:
            e[v] = rng.choice([0, 0, 1, 1, 2, maxdeg]) if rng.random() < 0.8 else 0
        c = rng.choice([1, -1, 2, -2, 3, 5, -7, rng.randint(-20, 20)])
        if c:
            p[tuple(e)] = c
    return p


def msubset(rng):
    k = rng.randint(1, 3)
    return sorted(rng.sample(range(NV), k))


def mplanted(rng):
    g = mconst(1)
    if rng.random() < 0.5:
        g = mmul(g, mconst(rng.choice([2, 3, -2, 4, 6, -5, 12])))
    if rng.random() < 0.5:
        e = [0] * NV
        for v in msubset(rng):
            e[v] = rng.randint(1, 2)
        g = mmul(g, {tuple(e): 1})
    if rng.random() < 0.7:
        g = mmul(g, mpoly(rng, msubset(rng), 2, 3))
    if not g:
        g = mconst(1)
    va, vb = msubset(rng), msubset(rng)
    a = mpoly(rng, va, 2, 3) or mconst(1)
    b = mpoly(rng, vb, 2, 3) or mconst(1)
    k = rng.random()
    if k < 0.08:
        b = a
    elif k < 0.16:
        b = mmul(a, mpoly(rng, vb, 1, 2) or mconst(2))
    elif k < 0.24:
        a = mmul(a, mconst(rng.choice([2, 3, 5])))
    return mmul(g, a), mmul(g, b), g


def mpair(rng):
    k = rng.random()
    if k < 0.04:
        return {}, mpoly(rng, msubset(rng), 2, 3), mconst(1)
    if k < 0.07:
        return mpoly(rng, msubset(rng), 2, 3), {}, mconst(1)
    if k < 0.09:
        return {}, {}, mconst(1)
    if k < 0.13:
        return mconst(rng.choice([2, -3, 4, 6, 12])), mpoly(rng, msubset(rng), 2, 3), mconst(1)
    if k < 0.16:
        return mconst(rng.choice([4, 6, -12])), mconst(rng.choice([-8, 9, 30])), mconst(1)
    if k < 0.22:
        # coprime, but the specialisations at 0 of the other variables share a factor: the univariate shortcut is
        # not conclusive (x^2 + y and x^2 + 2*y with main variable x)
        v = rng.sample(range(NV), 2)
        e1 = [0] * NV; e1[v[0]] = rng.randint(1, 3)
        e2 = [0] * NV; e2[v[1]] = rng.randint(1, 2)
        f = {tuple(e1): 1}
        a = dict(f); a[tuple(e2)] = rng.choice([1, -1, 3])
        b = dict(f); b[tuple(e2)] = rng.choice([2, -2, 5])
        if rng.random() < 0.5:
            h = mpoly(rng, msubset(rng), 1, 2) or mconst(1)
            return mmul(a, h), mmul(b, h), h
        return a, b, mconst(1)
    if k < 0.28:
        # leading coefficient (in some variable) vanishes at 0: the shortcut must not be used
        v = rng.sample(range(NV), 2)
        e1 = [0] * NV; e1[v[0]] = 2; e1[v[1]] = 1
        e0 = [0] * NV; e0[v[0]] = 1
        a = {tuple(e1): 1, tuple(e0): rng.choice([1, 2]), (0,) * NV: rng.choice([1, -1])}
        b = {tuple(e1): rng.choice([1, 2]), (0,) * NV: rng.choice([1, 3])}
        h = mpoly(rng, msubset(rng), 1, 2) or mconst(1)
        return mmul(a, h), mmul(b, h), h
    if k < 0.34:
        # planted factor G = y^j * x^k + c: its leading coefficient in x vanishes at y = 0 and G(0, x) is a constant,
        # so the specialised univariate gcd is 1 although the gcd is G; cofactors keep their degree at y = 0
        v = rng.sample(range(NV), 2)
        e1 = [0] * NV; e1[v[0]] = rng.randint(1, 2); e1[v[1]] = rng.randint(1, 2)
        G = {tuple(e1): rng.choice([1, -1, 2]), (0,) * NV: rng.choice([1, -1, 3])}
        if rng.random() < 0.3:
            e2 = [0] * NV; e2[v[1]] = 1
            G[tuple(e2)] = rng.choice([1, -2])
        ex = [0] * NV; ex[v[0]] = 1
        a = {tuple(ex): 1, (0,) * NV: rng.choice([1, 2, -1])}
        b = {tuple(ex): rng.choice([1, 3]), (0,) * NV: rng.choice([2, 5, -3])}
        if rng.random() < 0.4:
            b = mmul(b, mpoly(rng, [v[0]], 2, 2) or mconst(1))
        return mmul(G, a), mmul(G, b), G
    if k < 0.38:
        # primitive, coprime and truly multivariate, leading coefficients survive at 0, but the specialisations at 0 of the
        # other variables share an INTEGER factor k >= 2 (P(0,x) = k*u(x), Q(0,x) = k*v(x), gcd(u,v) = 1): a constant
        # univariate gcd other than 1 must not leak into the result (gcd(2x+y+2, 2x+y+4) = 1, not 2)
        v = rng.sample(range(NV), 2)
        kk = rng.choice([2, 2, 3, 4, 6])
        ex = [0] * NV; ex[v[0]] = 1
        ey = [0] * NV; ey[v[1]] = 1
        c1 = rng.choice([1, -1, 3, 5]); c2 = c1 + rng.choice([1, 2, -1, 3])
        a = {tuple(ex): kk, tuple(ey): rng.choice([1, -1]), (0,) * NV: kk * c1}
        b = {tuple(ex): kk, tuple(ey): rng.choice([1, -1]), (0,) * NV: kk * c2}
        if rng.random() < 0.5:
            e2 = [0] * NV; e2[v[0]] = 2
            a[tuple(e2)] = kk * rng.choice([1, -1, 2]); b[tuple(e2)] = kk * rng.choice([1, 3])
        if rng.random() < 0.4:
            h = mpoly(rng, msubset(rng), 1, 2) or mconst(1)
            return mmul(a, h), mmul(b, h), h
        return a, b, mconst(1)
    if k < 0.42:
        # univariate in one variable (shortcut is precise)
        v = [rng.randrange(NV)]
        a, b, g = mpoly(rng, v, 3, 4) or mconst(1), mpoly(rng, v, 3, 4) or mconst(2), mpoly(rng, v, 2, 3) or mconst(1)
        return mmul(a, g), mmul(b, g), g
    if k < 0.48:
        a, b = mpoly(rng, msubset(rng), 2, 4), mpoly(rng, msubset(rng), 2, 4)
        return a, b, mconst(1)
    return mplanted(rng)


ORDERS = [",".join(str(i) for i in p) for p in permutations(range(NV))]


def generate(rng, tier):
    n = 2 if tier == "quick" else 16
    cases = []
    umodes = ["0", "1"] if HOOK else ["0"]
    mmodes = ["0", "1", "2", "3"] if HOOK else ["0"]
    # ---- univariate over Z
    for _ in range(260 * n):
        a, b, _g = upair(rng, big=rng.random() < 0.25)
        for m in umodes:
            cases.append("ugcd 0 %s %s %s" % (m, ustr(a), ustr(b)))
            cases.append("ugcd 0 %s %s %s" % (m, ustr(b), ustr(a)))
        if a and b:
            if len(a) < len(b):
                a, b = b, a
            cases.append("ustrat %s %s" % (ustr(a), ustr(b)))
    for _ in range(50 * n):
        a, b = utrap(rng)
        for m in umodes:
            cases.append("ugcd 0 %s %s %s" % (m, ustr(a), ustr(b)))
            cases.append("ugcd 0 %s %s %s" % (m, ustr(b), ustr(a)))
        if len(a) < len(b):
            a, b = b, a
        cases.append("ustrat %s %s" % (ustr(a), ustr(b)))
    for _ in range(60 * n):
        a = upoly(rng, 6, big=rng.random() < 0.3)
        if rng.random() < 0.6:
            a = umul(a, [rng.choice([2, -2, 3, -6, 10, -15])])
        cases.append("ucont %s" % ustr(a))
    # ---- univariate over Z_p
    zero_ext = 0
    for _ in range(200 * n):
        p = rng.choice(PRIMES)
        a, b, _g = upair(rng)
        if rng.random() < 0.2:          # leading coefficients that vanish modulo p
            a = uadd(a, [0] * len(a) + [p * rng.choice([1, -2])])
        am, bm = umod(a, p), umod(b, p)
        cases.append("ugcd %d 0 %s %s" % (p, ustr(a), ustr(b)))
        cases.append("ugcd %d 0 %s %s" % (p, ustr(b), ustr(a)))
        if am and bm:
            cases.append("uext %d %s %s" % (p, ustr(a), ustr(b)))
            cases.append("uext %d %s %s" % (p, ustr(b), ustr(a)))
        elif zero_ext < 3:
            # a zero operand: the unrepaired library aborts here (assert in upolynomial_gcd_euclid), so only a few
            zero_ext += 1
            cases.append("uext %d %s %s" % (p, ustr(a), ustr(b)))
        if bm and len(am) >= len(bm):
            cases.append("ueuclid %d %s %s" % (p, ustr(a), ustr(b)))
        elif am and len(bm) >= len(am):
            cases.append("ueuclid %d %s %s" % (p, ustr(b), ustr(a)))
    for _ in range(120 * n):
        p = rng.choice(PRIMES)
        a, b, g = upair(rng)
        am, bm = umod(a, p), umod(b, p)
        if not am or not bm:
            continue
        # right-hand side: a multiple of the planted common factor (and of the gcd when the cofactors are coprime
        # modulo p; otherwise u*a + v*b is used, which is always a multiple of the gcd)
        u0, v0 = upoly(rng, 2), upoly(rng, 2)
        r = umod(uadd(umul(u0, a), umul(v0, b)), p)
        # keep deg r < deg a + deg b: reduce the cofactors
        while r and len(r) - 1 >= (len(am) - 1) + (len(bm) - 1) and (len(u0) > 1 or len(v0) > 1):
            u0, v0 = u0[:-1] or [1], v0[:-1] or [1]
            r = umod(uadd(umul(u0, a), umul(v0, b)), p)
        if r and len(r) - 1 >= (len(am) - 1) + (len(bm) - 1):
            continue
        cases.append("ubez %d %s %s %s" % (p, ustr(a), ustr(b), ustr(r)))
    # ---- multivariate
    for _ in range(170 * n):
        a, b, g = mpair(rng)
        ords = rng.sample(ORDERS, 2)
        for o in ords:
            for m in mmodes:
                if rng.random() < 0.5:
                    cases.append("mgcd %s %s %s %s %s" % (o, m, mstr(a), mstr(b), mstr(g)))
                else:
                    cases.append("mgcd %s %s %s %s %s" % (o, m, mstr(b), mstr(a), mstr(g)))
        if rng.random() < 0.5:
            for m in mmodes:
                cases.append("mlcm %s %s %s %s" % (ords[0], m, mstr(a), mstr(b)))
        if rng.random() < 0.6:
            x = mmul(a, b) if rng.random() < 0.3 else a
            cases.append("mppc %s %s" % (ords[0], mstr(x)))
            cases.append("mppc %s %s" % (ords[1], mstr(x)))
    return cases


def tag(case):
    t = case.split()
    op = t[0]
    if op == "ugcd":
        return "ugcd:%s:mode%s" % ("Z" if t[1] == "0" else "Zp", t[2])
    if op in ("mgcd", "mlcm"):
        return "%s:mode%s" % (op, t[2])
    return op


def _nonconst_u(s):
    return "," in s


def _nonconst_m(s):
    return "x" in s


def nontrivial(case):
    t = case.split()
    op = t[0]
    if op == "ugcd":
        return _nonconst_u(t[3]) and _nonconst_u(t[4])
    if op == "ustrat":
        return _nonconst_u(t[1]) and _nonconst_u(t[2])
    if op in ("ueuclid", "uext", "ubez"):
        return _nonconst_u(t[2]) and _nonconst_u(t[3])
    if op == "ucont":
        return _nonconst_u(t[1])
    if op in ("mgcd", "mlcm"):
        return _nonconst_m(t[3]) and _nonconst_m(t[4])
    if op == "mppc":
        return _nonconst_m(t[2])
    return False


def explain(case, c_out, m_out):
    return ("case `%s`: the implementation printed `%s`; the model-side checkers / reference / faithful model answered `%s`"
            % (case, c_out, m_out))


def extra_coverage(cases, couts, mouts):
    """how often the heuristic gave up / was followed, from the `ustrat` lines"""
    none = sum(1 for c, o in zip(cases, couts) if c.startswith("ustrat") and o and o.startswith("none"))
    tot = sum(1 for c in cases if c.startswith("ustrat"))
    hooked = sum(1 for c in cases if c.split()[0] in ("ugcd", "mgcd", "mlcm") and c.split()[2] != "0")
    return {"heuristic_gave_up": none, "heuristic_direct_calls": tot, "hook_forced_strategy_cases": hooked,
            "hook_enabled": HOOK}
