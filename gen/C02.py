HARNESS = "c02"
STALE_RERUN = True   # operands also re-run as stale external polynomials (see check)
LEVEL = "proof"
"""C02 case generator: division / pseudo-division / reduction / divisibility.
Every random choice comes from the one `rng` passed in.

Multivariate polynomials are dicts {monomial: coefficient}, monomial = tuple of (variable index, exponent)
sorted by variable; text grammar of harness/polyio.h.  The main variable of a case is the highest variable
index occurring in the dividend (default order x0 < x1 < ...).

Case lines
  pseudo A B U    A not constant, B <> 0, main variable of B not above that of A   (all pseudo-division entry points,
                  public reduce, internal coefficient_reduce with PSEUDO_DENSE / PSEUDO_SPARSE / LCM_SPARSE)
  cpseudo a b U   integer constants, b <> 0
  exact A B U     B divides A                                                      (div, rem, divrem)
  exactr A B U    same main variable, A = Q0*B + R0 with deg R0 < deg B            (rem, divrem, EXACT_SPARSE)
  divides A B     "A divides B"
  uexact M p q | upseudo M p q | udense M exact p q | udivides M p q | udivc M p c   (M = 0: Z, else Z_M, M prime)
  udivides M p q d   the same question with the cofactor: q = d*p in Z_M[x] (the model side recomputes the product)
  composite M (block composite_cases): udivides, upseudo, udense 0 for every leading coefficient of the divisor,
                  uexact / udense 1 only for an invertible one (the model's domain)
  umultiple M p d    the dividend is the product p*d, computed by the library in Z_M[x]: divides(p, p*d) must be 1 - every M,
                  every product (also those that lose their leading / lowest term to zero divisors).  Decided by construction.
                  Over composite M the current code answers 0 for some of them: known finding (finding_id below)
  pdivides P A Q R c   multivariate divisibility in a context over the PRIME field Z_P: the dividend B = A*Q + R is
                  computed by the library; A not constant mod P, R = 0 or deg_x R < deg_x A (x = main variable of A), both
                  mod P; c a constant, non-zero mod P.  Decided by construction: A | B iff R = 0 (Division.v Part III)
U is the previous content of the pre-used output operands."""

PRIMES = [2, 3, 5, 7, 13, 101, 2**61 - 1]
BIGS = [2**31 - 1, 2**32 + 1, 2**63 - 25, 2**64 + 13, 3**45, 10**25 + 3]


# ---------------------------------------------------------------- sparse multivariate arithmetic
def padd(a, b):
    r = dict(a)
    for m, c in b.items():
        v = r.get(m, 0) + c
        if v:
            r[m] = v
        else:
            r.pop(m, None)
    return r


def mmul(m1, m2):
    d = dict(m1)
    for v, e in m2:
        d[v] = d.get(v, 0) + e
    return tuple(sorted(d.items()))


def pmul(a, b):
    r = {}
    for m1, c1 in a.items():
        for m2, c2 in b.items():
            m = mmul(m1, m2)
            v = r.get(m, 0) + c1 * c2
            if v:
                r[m] = v
            else:
                r.pop(m, None)
    return r


def pscale(c, a):
    return {m: c * v for m, v in a.items()} if c else {}


def pconst(c):
    return {(): c} if c else {}


def pvar(x, e=1):
    return {((x, e),): 1} if e else {(): 1}


def ppow(a, n):
    r = pconst(1)
    for _ in range(n):
        r = pmul(r, a)
    return r


def ptext(a):
    if not a:
        return "0"
    def key(m):
        return tuple(m)
    out = []
    for m in sorted(a, key=key, reverse=True):
        out.append(str(a[m]) + "".join("*x%d^%d" % (v, e) for v, e in m))
    return "+".join(out)


def pparse(s):
    if s == "0":
        return {}
    r = {}
    for t in s.split("+"):
        f = t.split("*")
        c = int(f[0])
        m = []
        for pw in f[1:]:
            v, e = pw[1:].split("^")
            if int(e):
                m.append((int(v), int(e)))
        r = padd(r, {tuple(sorted(m)): c})
    return r


def ptop(a):
    vs = [v for m in a for v, _ in m]
    return max(vs) if vs else None


def pdeg(a, x):
    return max([dict(m).get(x, 0) for m in a] or [0])


def pcoeff(a, x, k):
    r = {}
    for m, c in a.items():
        if dict(m).get(x, 0) == k:
            r[tuple(ve for ve in m if ve[0] != x)] = c
    return r


def prem_degrees(a, b, x):
    """degrees of the successive remainders of the pseudo-division of a by b in x (b <> 0)"""
    db = pdeg(b, x)
    lb = pcoeff(b, x, db)
    degs = []
    r = a
    for _ in range(60):
        if not r:
            degs.append(-1)
            break
        dr = pdeg(r, x)
        degs.append(dr)
        if dr < db:
            break
        lr = pcoeff(r, x, dr)
        r = padd(pmul(lb, r), pscale(-1, pmul(pmul(lr, pvar(x, dr - db)), b)))
    return degs


# ---------------------------------------------------------------- random material
def small_int(rng, nz=True):
    while True:
        k = rng.random()
        if k < 0.7:
            v = rng.randint(-6, 6)
        elif k < 0.93:
            v = rng.randint(-60, 60)
        else:
            v = rng.choice([1, -1]) * rng.choice(BIGS)
        if v or not nz:
            return v


def low_poly(rng, vars_, nterms=None, maxe=2):
    """random polynomial in the (lower) variables vars_; may be a constant"""
    if not vars_ or rng.random() < 0.35:
        return pconst(small_int(rng))
    n = nterms or rng.choice([1, 1, 2, 2, 3])
    r = {}
    for _ in range(n):
        m = tuple(sorted((v, rng.randint(1, maxe)) for v in vars_ if rng.random() < 0.6))
        r = padd(r, {m: small_int(rng)})
    return r or pconst(1)


def upoly_in(rng, x, lower, deg, dense=None, lc=None):
    """polynomial of degree exactly deg in x with coefficients in the lower variables"""
    dens = dense if dense is not None else rng.choice([0.3, 0.6, 1.0])
    r = {}
    for k in range(deg):
        if rng.random() < dens:
            r = padd(r, pmul(low_poly(rng, lower), pvar(x, k)))
    l = lc if lc is not None else low_poly(rng, lower)
    return padd(r, pmul(l, pvar(x, deg)))


def lead_choice(rng, lower):
    k = rng.random()
    if k < 0.25:
        return pconst(rng.choice([1, -1]))
    if k < 0.5:
        return pconst(rng.choice([2, -2, 3, 4, 6, -6, 12]))
    if not lower:
        return pconst(small_int(rng))
    y = rng.choice(lower)
    if k < 0.65:
        return pvar(y)
    if k < 0.8:
        return padd(pvar(y), pconst(rng.choice([1, -1, 2])))
    if k < 0.9:
        return pscale(rng.choice([2, -3, 6]), pvar(y, rng.choice([1, 2])))
    return low_poly(rng, lower, 2)


def used_poly(rng):
    k = rng.random()
    if k < 0.2:
        return pconst(rng.randint(-9, 9))
    return upoly_in(rng, rng.choice([0, 1, 2, 3]), [0], rng.randint(1, 3))


def pair(rng):
    """(A, B, x, exact, same_var): A = Q0*B + R0 with chosen shape"""
    x = rng.choice([0, 1, 1, 2, 2])
    lower = list(range(x))
    shape = rng.random()
    if shape < 0.2 and lower:
        # divisor in a lower variable (or an integer): constant in x
        b = low_poly(rng, lower) if rng.random() < 0.75 else pconst(rng.choice([2, -2, 3, 5, -6]))
        if rng.random() < 0.5:
            q0 = upoly_in(rng, x, lower, rng.randint(1, 4))
            if rng.random() < 0.5:
                q0 = pmul(q0, pvar(x, rng.randint(1, 2)))        # vanishing low coefficients
            return pmul(q0, b), b, x, True, False
        a = upoly_in(rng, x, lower, rng.randint(1, 4))
        if rng.random() < 0.5:
            a = pmul(a, pvar(x, rng.randint(1, 2)))
        return a, b, x, False, False
    db = rng.choice([1, 1, 2, 2, 3])
    b = upoly_in(rng, x, lower, db, lc=lead_choice(rng, lower))
    if rng.random() < 0.3:
        b = pmul(b, lead_choice(rng, lower))                     # non-primitive divisor
    k = rng.random()
    if k < 0.12:
        return dict(b), b, x, True, True                         # A = B
    if k < 0.3:
        # sparse dividend with degree gaps, not a multiple
        da = db + rng.randint(0, 4)
        a = padd(pmul(lead_choice(rng, lower), pvar(x, da)), upoly_in(rng, x, lower, rng.randint(0, max(0, db - 1)), dense=0.5))
        if rng.random() < 0.5:
            a = padd(a, pmul(low_poly(rng, lower), pvar(x, rng.randint(0, da))))
        return a, b, x, False, False
    dq = rng.randint(0, 3)
    q0 = upoly_in(rng, x, lower, dq, dense=rng.choice([0.0, 0.3, 1.0]), lc=lead_choice(rng, lower))
    a = pmul(q0, b)
    r = rng.random()
    if r < 0.4:
        return a, b, x, True, True                               # exact multiple
    # remainder of degree < db; often much lower (gap in the last step)
    dr = rng.randint(0, db - 1) if rng.random() < 0.5 else 0
    r0 = upoly_in(rng, x, lower, dr, dense=0.5)
    a = padd(a, r0)
    if not a or ptop(a) != x:
        a = padd(a, pvar(x, db + 1))
    return a, b, x, False, True


def uz(rng, m):
    """coefficient: in the symmetric range of Z_m, or a small/big integer for m = 0"""
    if m == 0:
        return small_int(rng, nz=False)
    lb, ub = -((m - 1) // 2), m // 2
    if rng.random() < 0.3:
        return rng.choice([lb, ub, 0, 1, -1 if lb <= -1 else 1])
    return rng.randint(max(lb, -50), min(ub, 50)) if rng.random() < 0.7 else rng.randint(lb, ub)


def unorm(p, m):
    if m:
        lb, ub = -((m - 1) // 2), m // 2
        p = [((c - lb) % m) + lb for c in p]
    while p and p[-1] == 0:
        p.pop()
    return p


def umul(p, q, m):
    r = [0] * (len(p) + len(q) - 1 if p and q else 0)
    for i, a in enumerate(p):
        for j, b in enumerate(q):
            r[i + j] += a * b
    return unorm(r, m)


def uadd(p, q, m):
    n = max(len(p), len(q))
    return unorm([(p[i] if i < len(p) else 0) + (q[i] if i < len(q) else 0) for i in range(n)], m)


def urand(rng, m, deg, dens=None):
    d = dens if dens is not None else rng.choice([0.3, 0.7, 1.0])
    p = [uz(rng, m) if rng.random() < d else 0 for _ in range(deg)]
    lc = 0
    while lc == 0 or (m and lc % m == 0):
        lc = uz(rng, m) or 1
    return unorm(p + [lc], m)


def utext(p):
    return ",".join(str(c) for c in p) if p else "0"


# ---------------------------------------------------------------- cases
def multivariate_cases(rng, n):
    cases = []
    for _ in range(n):
        a, b, x, exact, same = pair(rng)
        u = ptext(used_poly(rng))
        if not a or not b:
            continue
        A, B = ptext(a), ptext(b)
        if ptop(a) is None:
            # a constant dividend only arises for x = 0 with degenerate shapes
            if ptop(b) is None:
                cases.append("cpseudo %s %s %s" % (A, B, u))
            continue
        if ptop(b) is not None and ptop(b) > ptop(a):
            continue
        cases.append("pseudo %s %s %s" % (A, B, u))
        if exact:
            cases.append("exact %s %s %s" % (A, B, u))
            cases.append("divides %s %s" % (B, A))
            # associates and non-primitive divisors: c*B divides A only if c divides the cofactor
            c = lead_choice(rng, list(range(ptop(a))))
            cases.append("divides %s %s" % (ptext(pmul(c, b)), A))
            if rng.random() < 0.5:
                cases.append("divides %s %s" % (ptext(pmul(c, b)), ptext(pmul(c, a))))
            if rng.random() < 0.3:
                cases.append("divides %s %s" % (A, B))          # swapped arguments
        elif same and ptop(b) == ptop(a):
            cases.append("exactr %s %s %s" % (A, B, u))
            cases.append("divides %s %s" % (B, A))
        else:
            cases.append("divides %s %s" % (B, A))
    return cases


def integer_cases(rng, n):
    cases = []
    for _ in range(n):
        b = small_int(rng)
        a = small_int(rng, nz=False) if rng.random() < 0.5 else b * rng.randint(-9, 9)
        cases.append("cpseudo %d %d %s" % (a, b, ptext(used_poly(rng))))
        cases.append("divides %d %d" % (b, a))
        if a % b == 0:
            cases.append("exact %d %d %s" % (a, b, ptext(used_poly(rng))))
    return cases


def univariate_cases(rng, n):
    cases = []
    for _ in range(n):
        m = 0 if rng.random() < 0.4 else rng.choice(PRIMES)
        dq = rng.choice([0, 1, 1, 2, 3, 4])
        q = urand(rng, m, dq)
        if not q:
            continue
        k = rng.random()
        q0 = urand(rng, m, rng.randint(0, 4), dens=rng.choice([0.0, 0.4, 1.0]))
        if k < 0.35:
            r0 = []
        else:
            r0 = urand(rng, m, rng.randint(0, dq - 1)) if dq > 0 else []
        p = uadd(umul(q0, q, m), r0, m)
        if rng.random() < 0.12:
            p = urand(rng, m, rng.randint(0, 6))               # unrelated dividend
        P, Q = utext(p), utext(q)
        related = (p == uadd(umul(q0, q, m), r0, m))
        if m or related:
            cases.append("uexact %d %s %s" % (m, P, Q))
        if len(p) >= len(q) and (p or dq == 0):
            cases.append("upseudo %d %s %s" % (m, P, Q))
            cases.append("udense %d 0 %s %s" % (m, P, Q))
            if m or related:
                cases.append("udense %d 1 %s %s" % (m, P, Q))
        cases.append("udivides %d %s %s" % (m, Q, P))
        if rng.random() < 0.4:
            c = uz(rng, m) or 2
            if not m or c % m:
                cq = unorm([c * v for v in q], m)
                cases.append("udivides %d %s %s" % (m, utext(cq), P))
                cases.append("udivc %d %s %d" % (m, utext(unorm([c * v for v in p], m)), c if not m else unorm([c], m)[0]))
        if rng.random() < 0.2:
            cases.append("udivides %d %s %s" % (m, P, Q))
    return cases


# ---------------------------------------------------------------- composite moduli (added after the blocks above)
COMPOSITES = [4, 6, 8, 9, 10, 12, 15, 16, 25, 27, 35, 49, 100, 2 * 101, 7**5, 2**16, 2**32, 2**64, 2**65, 3**40,
              3 * (2**61 - 1), (2**31 - 1) * (2**61 - 1), (2**61 - 1)**2, 10**25]


def _gcd(a, b):
    while b:
        a, b = b, a % b
    return abs(a)


def is_prime(n):
    if n < 2:
        return False
    for q in (2, 3, 5, 7, 11, 13, 17, 19, 23, 29, 31, 37):
        if n % q == 0:
            return n == q
    d, r = n - 1, 0
    while d % 2 == 0:
        d //= 2
        r += 1
    for a in (2, 3, 5, 7, 11, 13, 17, 19, 23, 29, 31, 37):
        x = pow(a, d, n)
        if x in (1, n - 1):
            continue
        for _ in range(r - 1):
            x = x * x % n
            if x == n - 1:
                break
        else:
            return False
    return True


def zero_divisor(rng, m):
    """non-zero element of Z_m sharing a factor with m (m composite)"""
    for _ in range(200):
        c = uz(rng, m)
        if c % m and _gcd(c, m) > 1:
            return c
    for q in (2, 3, 5, 7, 101, 2**31 - 1, 2**61 - 1):
        if m % q == 0:
            return unorm([q], m)[0]
    return None


def unit_of(rng, m):
    if rng.random() < 0.35:
        return rng.choice([1, -1])
    while True:
        c = uz(rng, m)
        if c % m and _gcd(c, m) == 1:
            return c


def composite_cases(rng, n):
    """Z_m[x], m composite: lp_upolynomial_divides must NOT take the exact-division shortcut of the prime fields.
    Divisors with a zero-divisor / unit / monic leading coefficient; dividends: true multiples by several cofactors
    (with the cofactor, so that the model side knows the answer), near-multiples, unrelated ones."""
    cases = []
    for _ in range(n):
        m = rng.choice(COMPOSITES)
        dp = rng.choice([0, 1, 1, 1, 2, 2, 3])
        p = urand(rng, m, dp)
        nonunit = rng.random() < 0.6
        lc = zero_divisor(rng, m) if nonunit else unit_of(rng, m)
        if lc is None:
            continue
        p = unorm(p[:-1] + [lc], m)
        if rng.random() < 0.3 and len(p) > 1:
            p = unorm([unit_of(rng, m) if rng.random() < 0.5 else (zero_divisor(rng, m) or 1)] + p[1:], m)   # chosen lowest coefficient
        if len(p) != dp + 1:
            continue
        P = utext(p)
        for _c in range(rng.choice([1, 2, 2, 3])):
            d = urand(rng, m, rng.randint(0, 3), dens=rng.choice([0.0, 0.5, 1.0]))
            if rng.random() < 0.5 and d:
                d = unorm(d[:-1] + [unit_of(rng, m)], m)       # keeps the degree of the product
            q = umul(d, p, m)
            if not d:
                continue
            cases.append("udivides %d %s %s %s" % (m, P, utext(q), utext(d)))
            if q and len(q) >= len(p):
                k = rng.random()
                if k < 0.25:
                    cases.append("upseudo %d %s %s" % (m, utext(q), P))
                elif k < 0.4:
                    cases.append("udense %d 0 %s %s" % (m, utext(q), P))
                elif k < 0.6 and not nonunit:
                    cases.append("uexact %d %s %s" % (m, utext(q), P))
                    cases.append("udense %d 1 %s %s" % (m, utext(q), P))
            # near-multiple: remainder of lower degree, or one coefficient moved
            k = rng.random()
            if k < 0.35 and q:
                if dp > 0 and rng.random() < 0.6:
                    q2 = uadd(q, urand(rng, m, rng.randint(0, dp - 1)), m)
                else:
                    e = [0] * rng.randint(0, len(q) - 1) + [rng.choice([1, -1, 2, 3])]
                    q2 = uadd(q, e, m)
                cases.append("udivides %d %s %s" % (m, P, utext(q2)))
                if q2 and len(q2) >= len(p) and rng.random() < 0.3:
                    cases.append("upseudo %d %s %s" % (m, utext(q2), P))
                    if not nonunit:
                        cases.append("uexact %d %s %s" % (m, utext(q2), P))
        if rng.random() < 0.3:
            q = urand(rng, m, rng.randint(0, 5))               # unrelated dividend
            cases.append("udivides %d %s %s" % (m, P, utext(q)))
            if len(q) >= len(p) and rng.random() < 0.5:
                cases.append("udense %d 0 %s %s" % (m, utext(q), P))
    return cases


# ---------------------------------------------------------------- multivariate divisibility over a prime field
def pmodp(a, p):
    lb = -((p - 1) // 2)
    r = {}
    for mo, c in a.items():
        v = ((c - lb) % p) + lb
        if v:
            r[mo] = v
    return r


def plift(rng, a, p):
    """other representatives of some coefficients"""
    return {mo: c + p * rng.choice([0, 0, 1, -1, 3]) for mo, c in a.items()}


def pdivides_cases(rng, n):
    cases = []
    for _ in range(n):
        p = rng.choice([2, 3, 3, 5, 5, 7, 7, 13, 13, 101, 101, 2**61 - 1, 2**61 - 1])
        x = rng.choice([0, 1, 1, 2, 2])
        lower = list(range(x))
        da = rng.choice([1, 1, 2, 2, 3])
        k = rng.random()
        if k < 0.3:
            lc = pconst(rng.choice([2, -2, 3, 4, 5, -6, 12, 50]))     # a unit of Z_p that is not one of Z
        else:
            lc = lead_choice(rng, lower)
        a = upoly_in(rng, x, lower, da, lc=lc)
        if rng.random() < 0.25:
            a = pmul(a, lead_choice(rng, lower))                       # content in the lower variables / a constant
        a = pmodp(a, p)
        if not a or pdeg(a, x) < 1:
            continue
        da = pdeg(a, x)
        high = rng.random() < 0.2
        qv = x + 1 if high else x
        q = upoly_in(rng, qv, list(range(qv)), rng.randint(0, 3), dense=rng.choice([0.0, 0.4, 1.0]),
                     lc=lead_choice(rng, list(range(qv))))
        q = pmodp(q, p)
        if not q:
            q = pconst(1)
        if rng.random() < 0.5:
            r = {}
        else:
            dr = rng.randint(0, da - 1) if rng.random() < 0.6 else 0
            r = upoly_in(rng, x, lower, dr, dense=0.5)
            if high and rng.random() < 0.5:
                r = pmul(r, pvar(x + 1, rng.randint(1, 2)))
            r = pmodp(r, p)
            if r and pdeg(r, x) >= da:
                continue
        c = rng.choice([2, -2, 3, -3, 4, 5, 6, 10, -1, 50, 2**31 - 1])
        if c % p == 0:
            c = 1
        if rng.random() < 0.2:
            a, q = plift(rng, a, p), plift(rng, q, p)
            r = plift(rng, r, p)
        cases.append("pdivides %d %s %s %s %d" % (p, ptext(a), ptext(q), ptext(r), c))
    return cases


# ---------------------------------------------------------------- true multiples by construction, every ring
def ulow(p):
    for i, c in enumerate(p):
        if c:
            return i, c
    return 0, 0


def killer(rng, c, m):
    """non-zero e with c*e = 0 in Z_m (c a zero divisor), or None"""
    g = _gcd(c, m)
    if g <= 1 or c % m == 0:
        return None
    e = (m // g) * rng.choice([1, 1, 2, 3, -1])
    return unorm([e], m)[0] if e % m else unorm([m // g], m)[0]


def umultiple_cases(rng, n):
    cases = []
    for _ in range(n):
        k = rng.random()
        m = 0 if k < 0.15 else (rng.choice(PRIMES) if k < 0.3 else rng.choice(COMPOSITES))
        comp = m and m not in PRIMES
        dp = rng.choice([0, 1, 1, 1, 2, 2, 3])
        p = urand(rng, m, dp)
        if comp:
            j = rng.random()
            lc = zero_divisor(rng, m) if j < 0.55 else unit_of(rng, m)
            if lc is None:
                continue
            p = unorm(p[:-1] + [lc], m)
            if rng.random() < 0.35 and len(p) > 1:
                p = unorm([zero_divisor(rng, m) or 1] + p[1:], m)
            if rng.random() < 0.15 and len(p) > 1:
                p = unorm([0] * rng.randint(1, 2) + p[1:], m)            # x^k | p
        if not p:
            continue
        for _c in range(rng.choice([1, 2, 3])):
            d = urand(rng, m, rng.randint(0, 4), dens=rng.choice([0.0, 0.5, 1.0]))
            if not d:
                continue
            if comp:
                j = rng.random()
                if j < 0.25:
                    e = killer(rng, p[-1], m)                            # the leading term of the product vanishes
                    if e is not None:
                        d = unorm(d[:-1] + [e], m)
                elif j < 0.45:
                    e = killer(rng, ulow(p)[1], m)                       # the lowest term of the product vanishes
                    if e is not None:
                        d = unorm([e] + d[1:], m)
                elif j < 0.55:
                    d = unorm(d[:-1] + [unit_of(rng, m)], m)
            if d:
                cases.append("umultiple %d %s %s" % (m, utext(p), utext(d)))
    return cases


def uparse(s):
    return [int(c) for c in s.split(",")]


def product_drops(m, p, d):
    """(leading term of p*d vanished in Z_m, lowest term vanished); p, d non-zero, normalised"""
    lead = (p[-1] * d[-1]) % m == 0 if m else False
    low = (ulow(p)[1] * ulow(d)[1]) % m == 0 if m else False
    return lead, low


def finding_id(case, c_out, m_out):
    """Known finding udivides-composite-zero-divisors: composite M, a true multiple by construction answered 0 by the library
    AND by the faithful model of the current code, and zero divisors cancelled the leading or the lowest term of the product
    (deg(p*d) < deg p + deg d, or the lowest monomial of p*d is not the product of the lowest monomials).  Products that
    keep both terms are answered 1 by the current code (early exits sound, pseudo-division returns lc^k*d); a 0 there, a 0
    over Z or a prime field, or a 0 the faithful model does not reproduce stays a VIOLATION."""
    t = case.split()
    if t[0] != "umultiple" or not c_out or not m_out:
        return None
    if c_out.split()[0] != "0" or "expected 1 got 0 faithful-model=0" not in m_out:
        return None
    m = int(t[1])
    if m == 0 or is_prime(m):
        return None
    p, d = unorm(uparse(t[2]), m), unorm(uparse(t[3]), m)
    if not p or not d:
        return None
    lead, low = product_drops(m, p, d)
    return "udivides-composite-zero-divisors" if (lead or low) else None


def generate(rng, tier, corpus_only=False):
    n = 1 if tier == "quick" else 10
    cases = []
    cases += multivariate_cases(rng, 2500 * n)
    cases += integer_cases(rng, 120 * n)
    cases += univariate_cases(rng, 2500 * n)
    # later blocks are appended here, so that the random stream of the blocks above does not shift
    cases += composite_cases(rng, 450 * n)
    cases += pdivides_cases(rng, 700 * n)
    cases += umultiple_cases(rng, 700 * n)
    return cases


def tag(case):
    t = case.split()
    op = t[0]
    try:
        if op in ("pseudo", "exactr", "exact"):
            a, b = pparse(t[1]), pparse(t[2])
            x = ptop(a)
            if x is None:
                return op + ":const"
            if ptop(b) != x:
                low = [pcoeff(a, x, k) for k in range(pdeg(a, x) + 1)]
                return op + ":lowvar" + (":vanishing-low" if not low[0] else "")
            degs = prem_degrees(a, b, x)
            db = pdeg(b, x)
            gap = any(degs[i] - degs[i + 1] > 1 and degs[i + 1] >= db for i in range(len(degs) - 1))
            last = len(degs) > 1 and degs[-1] < db and degs[-2] - db > 0
            return op + (":gap" if gap else "") + (":lastgap" if last else "") + (":steps%d" % min(len(degs) - 1, 3))
        if op == "divides":
            a, b = pparse(t[1]), pparse(t[2])
            return "divides:" + ("const" if ptop(a) is None else ("same" if ptop(a) == ptop(b) else "lowvar"))
        if op == "pdivides":
            a, q, r = pparse(t[2]), pparse(t[3]), pmodp(pparse(t[4]), int(t[1]))
            x = ptop(a)
            lcc = pcoeff(a, x, pdeg(a, x))
            return ("pdivides:" + ("R0" if not r else "Rnz") + (":highQ" if ptop(q) is not None and ptop(q) > x else "")
                    + (":lc-const" if ptop(lcc) is None else ":lc-poly"))
        if op == "umultiple":
            m = int(t[1])
            if m == 0 or is_prime(m):
                return op + (":Z" if m == 0 else ":Zp")
            p, d = unorm(uparse(t[2]), m), unorm(uparse(t[3]), m)
            lead, low = product_drops(m, p, d)
            return (op + ":Zm-composite" + (":lc-zero-divisor" if _gcd(p[-1], m) > 1 else ":lc-unit")
                    + (":lead-dropped" if lead else "") + (":low-dropped" if low else "") + ("" if lead or low else ":kept"))
        if op[0] == "u":
            if t[1] != "0" and not is_prime(int(t[1])):
                lc = int(t[3].split(",")[-1]) if op in ("uexact", "upseudo") else int(t[4 if op == "udense" else 2].split(",")[-1])
                return op + ":Zm-composite" + (":lc-zero-divisor" if _gcd(lc, int(t[1])) > 1 else ":lc-unit")
            return op + (":Z" if t[1] == "0" else ":Zp")
    except Exception:
        pass
    return op


def nontrivial(case):
    tg = tag(case)
    if tg.startswith(("pseudo", "exactr", "exact")):
        return "steps0" not in tg and "const" not in tg
    t = case.split()
    if t[0] == "divides":
        return t[1] not in ("0", "1", "-1") and t[2] != "0"
    if t[0] in ("udivides", "umultiple"):
        return "," in t[2] or "," in t[3]
    if t[0][0] == "u":
        return "," in t[-1] or "," in t[-2]
    return True


def extra_coverage(cases, couts, mouts):
    same = {"sparse=same": 0, "sparse=other": 0, "lcm=same": 0, "lcm=other": 0}
    for m in mouts:
        if m:
            for k in same:
                if k in m:
                    same[k] += 1
    comp = {"multiple=kept answer=1": 0, "multiple=dropped answer=1": 0, "multiple=dropped answer=0": 0}
    for m in mouts:
        if m:
            for k in comp:
                if k in m:
                    comp[k] += 1
    return {"model_reproduces_free_choice": same, "udivides_true_multiples_with_cofactor": comp}


RULE = ("seeded structured generator gen/C02.py (corpus first): pairs A = Q0*B + R0 with chosen degree gaps, non-primitive "
        "divisors, polynomial leading coefficients, lower-variable and integer divisors, exact multiples, A = B; "
        "Z_p[x] for p in {2,3,5,7,13,101,2^61-1}; Z_m[x] for 24 composite m (divides / pseudo-division with zero-divisor and unit "
        "leading coefficients; true multiples carry their cofactor); umultiple: divides(p, p*d) = 1 by construction over Z, Z_p, composite Z_m, all products; divisibility in Z_p[x0,x1,x2] on B = A*Q + R; "
        "distinct = distinct case line; non-trivial = at least one reduction step")
ASSUMPTIONS = ["multivariate model and theorems are over Z with the default variable order x0 < x1 < ... (the order only decides "
               "which variable is the main one); the multivariate division code over Z_p is not modelled: lp_polynomial_divides / "
               "lp_polynomial_div in a Z_p context are checked on dividends B = A*Q + R whose answer is decided by construction "
               "(C02_pdivides_decision)",
               "Z_M[x]: exact division is modelled for an invertible leading coefficient of the divisor (always the case for M prime); "
               "pseudo-division and lp_upolynomial_divides for every M and every divisor.  Over a COMPOSITE M the model of "
               "lp_upolynomial_divides mirrors the code; KNOWN FINDING udivides-composite-zero-divisors: code and model answer 0 for some "
               "true multiples whose product loses its leading or lowest term to zero divisors (case kind umultiple, finding_id)"]
TRUSTED = ["reference multivariate arithmetic MPoly.v (mp_add, mp_mul, mp_coeffs, mp_of_coeffs): its ring laws against "
           "a denotation are property C01's subject; C02 proves and uses only its evaluation homomorphism"]
TIMEOUT = 1500
