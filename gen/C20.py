"""C20 case generator: polynomial containers (hash set / heap / vector).

A case is one operation sequence over a pool of polynomials a*x^i*y^j + b:
  hs P (a i j b)*P ops     hp P (a i j b key)*P ops     vc P (a i j b)*P ops
The hash-set pools are chosen by first ASKING the C side (the `hashes` query of harness/c20.c, run on
the library build under test) for lp_polynomial_hash of ~2500 candidate polynomials, so that pools
contain home-slot clusters modulo 64 / 128 / 256, clusters at the end of the table (wrap-around) and
neighbouring homes.  The model never uses these numbers: it reads the hashes of the pool from the C
output of the case itself.  Every random choice comes from the `rng` argument."""
import os, sys, subprocess

HARNESS = "c20"
LEVEL = "proof"
TIMEOUT = 900
RULE = ("seeded structured generator gen/C20.py (corpus of defect witnesses first); pools selected by querying "
        "lp_polynomial_hash of 2500 candidates on the build under test; distinct = distinct case line; "
        "non-trivial = the sequence removes/pops/intersects after at least 3 insertions")
ASSUMPTIONS = ["stored elements are not mutated while they are in a container",
               "heap capacity doubling (realloc) and vector capacity growth are not modelled (memory layout only)",
               "table sizes stay far below 2^63; (size_t)(n*0.7) = floor(7n/10) for n a power of two"]
TRUSTED = ["harness/c20.c maps polynomials back to pool indices with lp_polynomial_cmp and detects leaked "
           "memory per case with __sanitizer_get_current_allocated_bytes()"]
EXPLANATION = ("model = Containers.v (repaired code); hash-set and vector lines are compared exactly (return values, size, "
               "contains of every pool element after every step, sorted enumeration after close); heap lines exactly when "
               "the keys are distinct, otherwise by the proved acceptance test heap_check_step on the implementation's outputs")

_TAGS = {}
_HASH = None          # spec tuple -> hash (int) or {} when the query failed


# ------------------------------------------------------------------------------------------ candidates
def candidates():
    c = [(0, 0, 0, 0)]
    for v in range(1, 1400):
        c.append((v, 0, 0, 0))
    for a in (1, 2, 3, 5, 7, -1, -2):
        for i in range(0, 5):
            for j in range(0, 4):
                if i == 0 and j == 0:
                    continue
                for b in (-3, -1, 0, 1, 2, 4):
                    c.append((a, i, j, b))
    return c


def query_hashes():
    """lp_polynomial_hash of every candidate, asked from the C driver built from the tree under test"""
    global _HASH
    if _HASH is not None:
        return _HASH
    _HASH = {}
    try:
        here = os.path.dirname(os.path.abspath(__file__))
        sys.path.insert(0, os.path.join(here, "..", "lib"))
        import vlib
        exe = vlib.build_cdriver(HARNESS, vlib.build_clib())
        cs = candidates()
        lines = []
        for k in range(0, len(cs), 900):
            lines.append("hashes " + " ".join("%d %d %d %d" % s for s in cs[k:k + 900]))
        env = dict(os.environ)
        env["ASAN_OPTIONS"] = "detect_leaks=0"
        p = subprocess.run([exe], input="\n".join(lines) + "\n", stdout=subprocess.PIPE, stderr=subprocess.PIPE,
                           text=True, timeout=120, env=env)
        out = p.stdout.split("\n")
        k = 0
        for ln, line in zip(lines, out):
            hs = line.split()
            n = (len(ln.split()) - 1) // 4
            if len(hs) != n:
                raise ValueError("short answer")
            for s, hv in zip(cs[k:k + n], hs):
                _HASH[s] = int(hv)
            k += n
    except Exception as e:      # no clusters then, only random pools (coverage is reported in the evidence)
        sys.stderr.write("[verif] C20: hash query failed (%s); falling back to random pools\n" % (e,))
        _HASH = {}
    return _HASH


def by_home(M):
    d = {}
    for s, hv in query_hashes().items():
        d.setdefault(hv % M, []).append(s)
    return d


def fmt_pool(pool):
    return "%d %s" % (len(pool), " ".join("%d %d %d %d" % s for s in pool))


# ------------------------------------------------------------------------------------------ hash set
def pick_pool(rng, kind):
    """list of distinct specs; kind in cluster64 / wrap64 / cluster128 / cluster256 / random / big"""
    H = query_hashes()
    allc = sorted(H.keys()) if H else candidates()
    if kind == "random" or not H:
        n = rng.randint(3, 40)
        return rng.sample(allc, n)
    if kind == "big":
        # enough elements to cross the thresholds 44 / 89 (/ 179), with clusters modulo 128 and 256 inside
        n = rng.choice([50, 60, 95, 100, 120, 190])
        M = rng.choice([128, 256])
        d = by_home(M)
        homes = sorted(d.keys())
        pool = []
        while len(pool) < n // 2:
            t = rng.choice(homes + [M - 1, M - 2, 0])
            for dt in range(rng.randint(1, 3)):
                c = d.get((t + dt) % M, [])
                pool += rng.sample(c, min(len(c), rng.randint(1, 4)))
        pool = list(dict.fromkeys(pool))[:n // 2]
        rest = [s for s in allc if s not in set(pool)]
        pool += rng.sample(rest, n - len(pool))
        rng.shuffle(pool)
        return pool
    M = {"cluster64": 64, "wrap64": 64, "cluster128": 128, "cluster256": 256}[kind]
    d = by_home(M)
    homes = sorted(d.keys())
    pool = []
    groups = rng.randint(1, 4)
    for _ in range(groups):
        if kind == "wrap64":
            t = rng.choice([M - 1, M - 2, M - 3, 0])
        else:
            t = rng.choice(homes)
        width = rng.randint(1, 4)
        for dt in range(width):
            c = d.get((t + dt) % M, [])
            if c:
                pool += rng.sample(c, min(len(c), rng.randint(1, 5)))
    pool = list(dict.fromkeys(pool))
    if len(pool) > 38:
        pool = pool[:38]
    # a few unrelated elements
    extra = rng.sample(allc, rng.randint(0, 6))
    pool = list(dict.fromkeys(pool + extra))
    if len(pool) < 3:
        pool = list(dict.fromkeys(pool + rng.sample(allc, 5)))
    rng.shuffle(pool)
    return pool


def ids_tok(l):
    return ".".join(str(x) for x in l) if l else "-"


def hs_ops(rng, P, nops, style):
    """operation tokens; keeps an approximate picture of the contents to bias towards meaningful ops"""
    ops = []
    inset = set()
    closed = False
    w = {"churn": dict(i=30, m=8, v=4, r=30, x=3, c=1, e=2, z=1),
         "fill": dict(i=55, m=10, v=6, r=12, x=1, c=0, e=1, z=0),
         "drain": dict(i=10, m=3, v=1, r=60, x=3, c=0, e=2, z=0),
         "inter": dict(i=30, m=5, v=5, r=10, x=25, c=1, e=1, z=1)}[style]
    keys = list(w.keys())
    wts = [w[k] for k in keys]
    while len(ops) < nops:
        if closed:
            # after close only clear (or another close) is allowed by the C asserts
            o = rng.choice(["c", "c", "z", "e"])
            ops.append(o)
            if o == "c":
                closed = False
                inset = set()
            continue
        o = rng.choices(keys, wts)[0]
        if o in ("i", "m"):
            k = rng.randrange(P)
            if inset and rng.random() < 0.15:
                k = rng.choice(sorted(inset))          # duplicate insert
            ops.append("%s%d" % (o, k))
            inset.add(k)
        elif o == "v":
            l = [rng.randrange(P) for _ in range(rng.randint(0, 6))]
            ops.append("v" + ids_tok(l))
            inset |= set(l)
        elif o == "r":
            if inset and rng.random() < 0.8:
                k = rng.choice(sorted(inset))
            else:
                k = rng.randrange(P)
            ops.append("r%d" % k)
            inset.discard(k)
        elif o == "x":
            keep = [k for k in sorted(inset) if rng.random() < rng.choice([0.0, 0.3, 0.7, 1.0])]
            other = keep + [rng.randrange(P) for _ in range(rng.randint(0, 3))]
            rng.shuffle(other)
            ops.append("x" + ids_tok(other))
            inset &= set(other)
        elif o == "c":
            ops.append("c")
            inset = set()
        elif o == "e":
            ops.append("e")
        elif o == "z":
            ops.append("z")
            closed = True
    if not closed and rng.random() < 0.8:
        ops.append("z")
    return ops


def hs_case(rng, kind):
    pool = pick_pool(rng, kind)
    P = len(pool)
    ops = []
    if kind == "big":
        # fill past the thresholds in insertion bursts, remove some, fill again
        order = list(range(P))
        rng.shuffle(order)
        cut = rng.randint(P // 2, P)
        for k in order[:cut]:
            ops.append(rng.choice(["i", "i", "i", "m"]) + str(k))
        if rng.random() < 0.5:
            ops.append("v" + ids_tok(order[cut:cut + 20]))
        ops += hs_ops(rng, P, rng.randint(20, 120), rng.choice(["churn", "drain", "inter"]))
    else:
        n = rng.choice([10, 15, 25, 40, 60, 100, 160])
        if rng.random() < 0.5:
            # insert whole clusters first (in pool order), then work on them
            order = list(range(P))
            if rng.random() < 0.5:
                rng.shuffle(order)
            ops += ["i%d" % k for k in order[:rng.randint(2, P)]]
        ops += hs_ops(rng, P, n, rng.choice(["churn", "churn", "fill", "drain", "inter"]))
    ops = ops[:400]
    if "z" in ops[:-1]:
        pass
    return "hs " + fmt_pool(pool) + " " + " ".join(ops)


def hs_chain_case(rng):
    """the shape of the pinned back-shift defect: A (home t), B (home t+1), C (home t) [+ more], remove A"""
    H = query_hashes()
    if not H:
        return hs_case(rng, "random")
    M = 64
    d = by_home(M)
    for _ in range(50):
        t = rng.choice(sorted(d.keys()) + [M - 1, M - 2])
        a = d.get(t % M, [])
        b = d.get((t + 1) % M, [])
        if len(a) >= 2 and len(b) >= 1:
            break
    else:
        return hs_case(rng, "cluster64")
    A = rng.sample(a, min(len(a), rng.randint(2, 4)))
    B = rng.sample(b, min(len(b), rng.randint(1, 2)))
    c2 = d.get((t + 2) % M, [])
    C2 = rng.sample(c2, min(len(c2), rng.randint(0, 2)))
    pool = A + B + C2
    ia = list(range(len(A)))
    ib = list(range(len(A), len(A) + len(B)))
    ic = list(range(len(A) + len(B), len(pool)))
    # A0, then the B's (they take their home slots), then the other A's (displaced behind B), then C2
    ins = [ia[0]] + ib + ia[1:] + ic
    if rng.random() < 0.3:
        rng.shuffle(ins)
    ops = ["i%d" % k for k in ins]
    victims = [ia[0]] + rng.sample(range(len(pool)), rng.randint(0, len(pool) - 1))
    for v in victims:
        ops.append("r%d" % v)
        if rng.random() < 0.3:
            ops.append("i%d" % rng.randrange(len(pool)))
    ops.append("z")
    return "hs " + fmt_pool(pool) + " " + " ".join(ops)


# ------------------------------------------------------------------------------------------ heap
def small_pool(rng, n):
    allc = candidates()
    return rng.sample(allc, n)


def fmt_pool_keys(pool, keys):
    return "%d %s" % (len(pool), " ".join("%d %d %d %d %d" % (s + (k,)) for s, k in zip(pool, keys)))


def hp_case(rng, ties):
    P = rng.randint(2, 40)
    pool = small_pool(rng, P)
    if ties:
        keys = [rng.randint(0, rng.choice([1, 2, 4, 8])) for _ in range(P)]
    else:
        keys = rng.sample(range(-50, 200), P)
    n = rng.choice([10, 20, 40, 80, 150, 300])
    ops = []
    present = []
    style = rng.choice(["mixed", "grow", "removeheavy"])
    w = {"mixed": dict(p=30, q=6, v=4, o=20, k=8, r=15, t=4, c=1, s=3),
         "grow": dict(p=55, q=8, v=6, o=8, k=5, r=10, t=2, c=0, s=2),
         "removeheavy": dict(p=30, q=4, v=3, o=8, k=5, r=40, t=6, c=0, s=2)}[style]
    names = list(w.keys())
    wts = [w[x] for x in names]
    for _ in range(n):
        o = rng.choices(names, wts)[0]
        if o in ("p", "q"):
            k = rng.choice(present) if present and rng.random() < 0.3 else rng.randrange(P)   # duplicates
            ops.append("%s%d" % (o, k))
            present.append(k)
        elif o == "v":
            l = [rng.randrange(P) for _ in range(rng.randint(0, 5))]
            ops.append("v" + ids_tok(l))
            present += l
        elif o == "r":
            k = rng.choice(present) if present and rng.random() < 0.85 else rng.randrange(P)
            ops.append("r%d" % k)
            present = [x for x in present if x != k]
        elif o == "c":
            ops.append("c")
            present = []
        else:
            ops.append(o)
            if o in ("o", "t"):
                present = present[:]      # unknown which one goes; keep the approximate picture
    return "hp " + fmt_pool_keys(pool, keys) + " " + " ".join(ops)


def hp_subtree_case(rng):
    """a full heap of 7..63 distinct elements whose left subtree holds small and whose right subtree holds large
    keys; an inner element of the small subtree is removed: the last element (from the large subtree) is moved
    in and exceeds its new parent - the only shape in which a missing sift-up after remove is observable"""
    depth = rng.choice([3, 3, 4, 4, 5, 6])
    n = 2 ** depth - 1
    if rng.random() < 0.4:
        n -= rng.randint(0, 2 ** (depth - 2) - 1)      # last level partly filled, last element still on the right
    left, right = [], []
    for i in range(2, n + 1):
        j = i
        while j > 3:
            j //= 2
        (left if j == 2 else right).append(i)
    small = sorted(rng.sample(range(1, 400), len(left)), reverse=True)
    large = sorted(rng.sample(range(1000, 1900), len(right)), reverse=True)
    key = {1: 5000}
    for i, v in zip(left, small):       # BFS order with descending values is heap ordered
        key[i] = v
    for i, v in zip(right, large):
        key[i] = v
    pool = small_pool(rng, n)
    keys = [key[i + 1] for i in range(n)]
    ops = ["p%d" % i for i in range(n)]
    inner = [i for i in left if 2 * i <= n]              # has a child: not a leaf
    deep = [i for i in inner if i >= 4] or inner or left
    victims = rng.sample(deep, min(len(deep), rng.randint(1, 2)))
    for v in victims:
        ops.append("r%d" % (v - 1))
        ops += rng.choice([[], ["k"], ["o"], ["o", "o"]])
    return "hp " + fmt_pool_keys(pool, keys) + " " + " ".join(ops)


def hp_shape_case(rng):
    """heaps of 4..15 distinct elements with a chosen shape (level order = push order), ONE removal aimed at a
    position (second-to-last / last / root / a leaf or inner node whose replacement - the last element - has to go
    UP or DOWN), then pushes of small (and a few arbitrary) elements BEFORE everything is popped: an element left
    above its parent in the LAST slot is repaired by the very next pop and only shows after further pushes (or
    in the array itself, which the harness inspects after every step)"""
    n = rng.randint(4, 15)
    vals = rng.sample(range(100, 1000), n)
    shape = rng.choice(["left_small", "right_small", "random", "random"])
    arr = [0] * (n + 1)                                   # 1-based level order
    if shape == "random":
        # a random valid heap: values in decreasing order handed out along a random frontier
        vals.sort(reverse=True)
        frontier, k = [1], 0
        while frontier:
            i = frontier.pop(rng.randrange(len(frontier)))
            arr[i] = vals[k]
            k += 1
            frontier += [c for c in (2 * i, 2 * i + 1) if c <= n]
    else:
        side = {}
        for i in range(2, n + 1):
            j = i
            while j > 3:
                j //= 2
            side[i] = j
        small_side = 2 if shape == "left_small" else 3
        a = [i for i in range(2, n + 1) if side[i] == small_side]
        b = [i for i in range(2, n + 1) if side[i] != small_side]
        vals.sort()
        lo, hi, top = vals[:len(a)], vals[len(a):len(a) + len(b)], vals[-1]
        arr[1] = top + 1000
        for i, v in zip(a, sorted(lo, reverse=True)):
            arr[i] = v
        for i, v in zip(b, sorted(hi, reverse=True)):
            arr[i] = v
    nsmall = rng.randint(2, 5)
    nextra = rng.randint(0, 3)
    keys = arr[1:] + rng.sample(range(1, 90), nsmall) + rng.sample(range(1001, 3000), nextra)
    pool = small_pool(rng, len(keys))
    ops = ["p%d" % i for i in range(n)]
    leaves = [i for i in range(1, n + 1) if 2 * i > n]
    inner = [i for i in range(2, n + 1) if 2 * i <= n]
    target = rng.choice(["second_last", "second_last", "last", "root", "leaf", "inner", "second_last"])
    pos = {"second_last": n - 1, "last": n, "root": 1,
           "leaf": rng.choice(leaves), "inner": rng.choice(inner) if inner else 1}[target]
    ops.append("r%d" % (pos - 1))
    if rng.random() < 0.25:
        ops.append(rng.choice(["k", "s", "r%d" % rng.randrange(n)]))
    later = list(range(n, n + nsmall)) + list(range(n + nsmall, n + nsmall + nextra))
    rng.shuffle(later)
    for k in later[:rng.randint(2, len(later))]:
        ops.append(rng.choice(["p", "p", "p", "q"]) + str(k))
        if rng.random() < 0.15:
            ops.append("r%d" % rng.randrange(n))
    if rng.random() < 0.3:
        ops += ["o"] * rng.randint(1, 3) + ["p%d" % rng.randrange(len(keys))]
    return "hp " + fmt_pool_keys(pool, keys) + " " + " ".join(ops)


def hp_dup_case(rng):
    """many copies of few elements; remove must take out all copies (also the one moved into the slot just left)"""
    P = rng.randint(2, 5)
    pool = small_pool(rng, P)
    keys = rng.sample(range(0, 50), P)
    ops = []
    for _ in range(rng.randint(3, 25)):
        ops.append("p%d" % rng.randrange(P))
    for _ in range(rng.randint(1, 4)):
        ops.append("r%d" % rng.randrange(P))
        if rng.random() < 0.5:
            ops.append("p%d" % rng.randrange(P))
    return "hp " + fmt_pool_keys(pool, keys) + " " + " ".join(ops)


# ------------------------------------------------------------------------------------------ vector
def vc_case(rng):
    P = rng.randint(1, 12)
    pool = small_pool(rng, P)
    ops = []
    for _ in range(rng.choice([3, 8, 15, 30, 45])):
        o = rng.choices(["p", "q", "t", "y"], [50, 35, 3, 6])[0]
        ops.append(o + (str(rng.randrange(P)) if o in "pq" else ""))
    return "vc " + fmt_pool(pool) + " " + " ".join(ops)


# ------------------------------------------------------------------------------------------ computed elements
HC_OPS1 = ["neg", "der", "red", "coef", "reductum", "asg", "pp", "cont", "ppcont", "pow", "shl", "muli"]
HC_OPS2 = ["add", "sub", "mul", "addmul", "submul"]


def hc_case(rng):
    """elements that are RESULTS of operations (add, mul, derivative, reduce_degree_Zp, get_coefficient, pp/cont,
    swap, ...) over Z or Z_p (p = 3, 5, 7), computed from operands whose hash is already cached (they are / were
    set members or were hashed explicitly) into outputs whose hash is cached too (fresh / pre-used / aliased);
    then insert / contains / remove with the result itself and with an independently built equal polynomial"""
    M = rng.choice([0, 0, 3, 3, 5, 7])
    P = rng.randint(2, 7)
    pool = []
    while len(pool) < P:
        hi = (M + 3) if M else 4
        sp = (rng.choice([1, 1, 2, 3, -1, 4]), rng.randint(0, hi), rng.randint(0, 2), rng.choice([0, 1, 1, -1, 2, 5]))
        if sp not in pool:
            pool.append(sp)
    NR = rng.randint(2, 5)
    ops = []
    heavy = 0

    def operand(allow_reg=True):
        if allow_reg and rng.random() < 0.4:
            return "r%d" % rng.randrange(NR)
        return "p%d" % rng.randrange(P)

    closed = False
    for _ in range(rng.choice([6, 10, 16, 25, 40])):
        if closed:
            ops.append("k")
            closed = False
            continue
        k = rng.random()
        if k < 0.40:
            # a computation whose operands (and often the output) have cached hashes
            if rng.random() < 0.5:
                op = rng.choice(HC_OPS1 + (["red"] * 5 if M else ["pp", "cont"]))
                a, b = operand(), "-"
            else:
                op = rng.choice(HC_OPS2)
                a, b = operand(), operand()
            if op in ("mul", "addmul", "submul", "pow"):
                heavy += 1
                if heavy > 5:
                    op = "add" if b != "-" else "neg"
            d = rng.randrange(NR)
            if rng.random() < 0.25:
                a = "r%d" % d                              # aliased output
            pre = []
            for x in {a, b} - {"-"}:
                r = rng.random()
                if r < 0.45:
                    pre.append("h" + x)                    # hash cached by asking for it
                elif r < 0.8:
                    pre.append(rng.choice(["i", "i", "m"]) + x)   # ... or by set membership
            if rng.random() < 0.5:
                pre.append(rng.choice(["h", "i"]) + "r%d" % d)    # the output holds a cached hash too
            rng.shuffle(pre)
            ops += pre
            if op == "swap" or (rng.random() < 0.08 and NR >= 2):
                x, y = rng.sample(range(NR), 2)
                ops += ["hr%d" % x, "Cswap,0,r%d,r%d,0" % (x, y)]
            ops.append("C%s,%d,%s,%s,%d" % (op, d, a, b, rng.randint(0, 6)))
            # use the result as an element right away, by itself and by an equal independent polynomial
            follow = rng.choice([["i", "I"], ["I", "i"], ["i", "I", "R"], ["i", "r"], ["m", "I", "R"], ["I", "r"], ["i"]])
            ops += [f + "r%d" % d for f in follow]
        elif k < 0.65:
            ops.append(rng.choice(["i", "I", "m"]) + operand())
        elif k < 0.90:
            ops.append(rng.choice(["r", "R"]) + operand())
        elif k < 0.95:
            ops.append("k")
        else:
            ops.append("z")
            closed = True
    return "hc %d %s %d %s" % (M, fmt_pool(pool), NR, " ".join(ops))


# ------------------------------------------------------------------------------------------ entry points
def generate(rng, tier):
    scale = 3 if tier == "quick" else 40
    plan = [("hs:chain", 40, lambda: hs_chain_case(rng)),
            ("hs:cluster64", 60, lambda: hs_case(rng, "cluster64")),
            ("hs:wrap64", 50, lambda: hs_case(rng, "wrap64")),
            ("hs:cluster128", 12, lambda: hs_case(rng, "cluster128")),
            ("hs:random", 30, lambda: hs_case(rng, "random")),
            ("hs:grow", 14, lambda: hs_case(rng, "big")),
            ("hp:distinct", 70, lambda: hp_case(rng, False)),
            ("hp:ties", 50, lambda: hp_case(rng, True)),
            ("hp:subtree", 50, lambda: hp_subtree_case(rng)),
            ("hp:dups", 30, lambda: hp_dup_case(rng)),
            ("hp:shape", 80, lambda: hp_shape_case(rng)),
            ("vc", 40, lambda: vc_case(rng)),
            ("hc:computed", 120, lambda: hc_case(rng))]
    cases = []
    for name, n, f in plan:
        for _ in range(n * scale):
            c = f()
            _TAGS[c] = name
            cases.append(c)
    return cases


def tag(case):
    t = _TAGS.get(case)
    if t:
        return t
    k = case.split(" ", 1)[0]
    return k + ":corpus"


def nontrivial(case):
    t = case.split()
    kind = t[0]
    if kind == "hashes":
        return False
    if kind == "hc":
        ops = t[3 + 4 * int(t[2]) + 1:]
        return any(o[0] == "C" for o in ops) and any(o[0] in "iIm" for o in ops)
    P = int(t[1])
    per = 5 if kind == "hp" else 4
    ops = t[2 + per * P:]
    if kind == "hs":
        ins = [o for o in ops if o[0] in "imv"]
        return len(ins) >= 3 and any(o[0] in "rx" for o in ops)
    if kind == "hp":
        return len([o for o in ops if o[0] in "pqv"]) >= 3 and any(o[0] in "ort" for o in ops)
    return len(ops) >= 2


def _groups(line):
    return [g.strip() for g in line.split(";")]


def explain(case, c_out, m_out):
    if c_out is None:
        return "the C driver died on this case (sanitizer report / assertion / crash)"
    if m_out is None:
        return "no model output"
    if m_out.startswith("CHECK"):
        return m_out
    t = case.split()
    if t[0] == "hc":
        ops = t[3 + 4 * int(t[2]) + 1:]
    else:
        P = int(t[1])
        per = 5 if t[0] == "hp" else 4
        ops = t[2 + per * P:]
    cg, mg = _groups(c_out), _groups(m_out)
    for k in range(max(len(cg), len(mg))):
        a = cg[k] if k < len(cg) else "<missing>"
        b = mg[k] if k < len(mg) else "<missing>"
        if a != b:
            op = ops[k - 1] if 1 <= k <= len(ops) else ("<header>" if k == 0 else "<end of case>")
            return "first difference after operation #%d `%s`: implementation `%s`, model `%s`" % (k, op, a, b)
    return "outputs differ"


def extra_coverage(cases, couts, mouts):
    col = wrap = g45 = g90 = g180 = hang = ties_div = inter = 0
    for c, co, mo in zip(cases, couts, mouts):
        if co is None:
            continue
        if "HANG" in co:
            hang += 1
        if mo and mo.startswith("CHECK ok tie-divergent"):
            ties_div += 1
        if not c.startswith("hs "):
            continue
        toks = co.split()
        P = int(c.split()[1])
        try:
            hs = [int(x) for x in toks[1:1 + P]]
        except ValueError:
            continue
        homes = [x % 64 for x in hs]
        if len(set(homes)) < len(homes):
            col += 1
        if homes.count(63) >= 2 or (63 in homes and 62 in homes):
            wrap += 1
        sizes = []
        for g in co.split(";")[1:]:
            f = g.split()
            if len(f) >= 2 and f[-2].isdigit():
                sizes.append(int(f[-2]))
        m = max(sizes) if sizes else 0
        g45 += m >= 45
        g90 += m >= 90
        g180 += m >= 180
        inter += any(o.startswith("x") for o in c.split())
    return {"hs_cases_with_home_collisions_mod64": col, "hs_cases_with_cluster_at_table_end": wrap,
            "hs_cases_grown_past_44": g45, "hs_cases_grown_past_89": g90, "hs_cases_grown_past_179": g180,
            "hs_cases_with_intersect": inter, "library_calls_that_did_not_return": hang,
            "heap_tie_cases_where_impl_and_faithful_model_pop_different_equal_key_elements": ties_div,
            "hash_query_candidates": len(query_hashes())}
