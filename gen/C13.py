HARNESS = "c13"
LEVEL = "proof"
"""C13 case generator: real feasibility sets over a fixed sorted pool of mixed-kind values (see harness/c13.c).

A set in normal form over the pool is exactly a strictly increasing, even-length sequence of CUT CODES
    lower end:  closed at rank a -> 2a      open at rank a -> 2a+1
    upper end:  open at rank b   -> 2b      closed at rank b -> 2b+1
(l1 < h1 < l2 < h2 < ...: non-empty intervals, increasing, disjoint, not mergeable; {a} is (2a, 2a+1)), so random
normal-form sets are random even-size subsets of codes and 'touching / nested / identical / adjacent open-closed'
patterns are small perturbations of the codes.  Every random choice comes from the one `rng` passed in."""
from fractions import Fraction

# number of representations ("variants") of each pool rank in harness/c13.c
NVAR = [1, 3, 2, 1, 1, 2, 2, 2, 1, 3, 1, 1, 3, 3, 1, 3, 1, 2, 1, 1, 1, 4, 2, 1, 1, 1, 1]
NPOOL = len(NVAR)
LASTR = NPOOL - 1

# exhaustive tier: 4 end points of 4 kinds (rational 1/3, integer 1, algebraic sqrt 2, dyadic 3/2) + -inf, +inf;
# the probes are these 6 values and one pool value inside each of the 5 gaps
EXH_POINTS = [11, 13, 15, 17]
EXH_PROBES = [0, 10, 11, 12, 13, 14, 15, 16, 17, 18, LASTR]


# ----------------------------------------------------------------------------- sets as cut codes
def codes_to_intervals(codes):
    """[(lo_rank, lo_open, hi_rank, hi_open)] from an increasing even-length code list"""
    out = []
    for i in range(0, len(codes), 2):
        l, h = codes[i], codes[i + 1]
        out.append((l // 2, l % 2 == 1, (h // 2), h % 2 == 0))
    return out


def ep(rng, r, variants):
    if variants and NVAR[r] > 1 and rng.random() < 0.6:
        return "%d.%d" % (r, rng.randrange(NVAR[r]))
    return "%d" % r


def fmt_set(rng, codes, variants=True, fixed_variant=None):
    ivs = codes_to_intervals(codes)
    if not ivs:
        return "{}"
    out = []
    for (a, ao, b, bo) in ivs:
        if fixed_variant is not None:
            e = lambda r: ("%d.%d" % (r, fixed_variant)) if fixed_variant else "%d" % r
        else:
            e = lambda r: ep(rng, r, variants)
        if a == b:
            out.append("{%s}" % e(a))
        else:
            out.append("%s%s,%s%s" % ("(" if ao else "[", e(a), e(b), ")" if bo else "]"))
    return ";".join(out)


def valid(codes):
    """increasing, even length, no point at an infinity, within the pool"""
    if len(codes) % 2:
        return False
    for i in range(len(codes) - 1):
        if codes[i] >= codes[i + 1]:
            return False
    for c in codes:
        if c < 0 or c > 2 * LASTR + 1:
            return False
    for i in range(0, len(codes), 2):
        l, h = codes[i], codes[i + 1]
        if l // 2 == h // 2 and l // 2 in (0, LASTR):
            return False
        if l // 2 == LASTR or h // 2 == 0:
            return False
    return True


def random_codes(rng, lo, hi, maxiv):
    """random normal-form set with cut codes in [lo, hi]"""
    k = rng.randint(0, maxiv)
    pop = list(range(lo, hi + 1))
    if 2 * k > len(pop):
        k = len(pop) // 2
    codes = sorted(rng.sample(pop, 2 * k))
    return codes


def soften_inf(rng, codes):
    """libpoly itself only builds open ends at infinities: make them open except now and then"""
    out = list(codes)
    if out and out[0] == 0 and rng.random() < 0.9:
        out[0] = 1
    if out and out[-1] == 2 * LASTR + 1 and rng.random() < 0.9:
        out[-1] = 2 * LASTR
    return out


def mutate(rng, codes):
    """a neighbour of a set: move / drop / add a few cuts"""
    c = list(codes)
    for _ in range(rng.randint(1, 3)):
        k = rng.random()
        if k < 0.45 and c:
            i = rng.randrange(len(c))
            c[i] += rng.choice([-2, -1, 1, 2])
        elif k < 0.65 and len(c) >= 2:
            i = rng.randrange(0, len(c) - 1)
            del c[i:i + 2]                      # merges two intervals or removes one
        elif k < 0.85:
            x = rng.randint(1, 2 * LASTR - 1)
            c += [x, x + rng.choice([1, 1, 2, 3])]
            c = sorted(set(c))
            if len(c) % 2:
                c.pop(rng.randrange(len(c)))
        else:
            c = [x + rng.choice([0, 0, 1]) for x in c]
    c = sorted(set(c))
    if len(c) % 2:
        c.pop()
    return c


def complement(codes):
    """the complement within (-inf,+inf) has the same cuts (minus / plus the two outer ones)"""
    c = [1] + list(codes) + [2 * LASTR]
    # drop empty outer pieces
    if len(c) >= 2 and c[0] >= c[1]:
        c = c[2:]
    if len(c) >= 2 and c[-2] >= c[-1]:
        c = c[:-2]
    return c


def pair(rng):
    """two normal-form sets (<= 6 intervals each) biased to interacting patterns"""
    for _ in range(100):
        k = rng.random()
        if k < 0.30:
            w = rng.randint(3, 9)                       # a narrow window of ranks: many ties
            a = rng.randint(0, LASTR - w)
            lo, hi = 2 * a, 2 * (a + w) + 1
            c1, c2 = random_codes(rng, lo, hi, 6), random_codes(rng, lo, hi, 6)
        elif k < 0.60:
            c1 = random_codes(rng, 0, 2 * LASTR + 1, 6)
            c2 = mutate(rng, c1)
        elif k < 0.70:
            c1 = random_codes(rng, 0, 2 * LASTR + 1, 6)
            c2 = complement(c1)
            if rng.random() < 0.5:
                c2 = mutate(rng, c2)
        elif k < 0.78:
            c1 = random_codes(rng, 0, 2 * LASTR + 1, 6)
            iv = [c1[i:i + 2] for i in range(0, len(c1), 2)]
            keep = [x for x in iv if rng.random() < 0.6]
            c2 = [y for x in keep for y in x]           # a sub-family of the intervals (identical ones)
        elif k < 0.84:
            c1 = random_codes(rng, 0, 2 * LASTR + 1, 6)
            c2 = list(c1)                               # identical
        elif k < 0.90:
            # points against intervals
            pts = sorted(rng.sample(range(1, LASTR), rng.randint(1, 6)))
            c1 = [y for p in pts for y in (2 * p, 2 * p + 1)]
            c2 = mutate(rng, c1) if rng.random() < 0.5 else random_codes(rng, 0, 2 * LASTR + 1, 5)
        elif k < 0.95:
            c1 = rng.choice([[], [1, 2 * LASTR], [0, 2 * LASTR + 1], [1, 2 * rng.randint(1, LASTR - 1) + 1]])
            c2 = random_codes(rng, 0, 2 * LASTR + 1, 4)
        else:
            c1 = random_codes(rng, 0, 2 * LASTR + 1, 6)
            c2 = random_codes(rng, 0, 2 * LASTR + 1, 6)
        c1, c2 = soften_inf(rng, c1), soften_inf(rng, c2)
        if rng.random() < 0.5:
            c1, c2 = c2, c1
        if valid(c1) and valid(c2) and len(c1) <= 12 and len(c2) <= 12:
            return c1, c2
    return [], []


def interval_pair(rng):
    """two single intervals around a common region, all tie patterns"""
    for _ in range(100):
        a = rng.randint(0, LASTR - 1)
        w = rng.randint(1, 4)
        lo, hi = 2 * a, min(2 * (a + w) + 1, 2 * LASTR + 1)
        c1 = sorted(rng.sample(range(lo, hi + 1), 2))
        if rng.random() < 0.5:
            c2 = [x + rng.choice([-1, 0, 0, 1]) for x in c1]
        else:
            c2 = sorted(rng.sample(range(lo, hi + 1), 2))
        c1, c2 = soften_inf(rng, c1), soften_inf(rng, c2)
        if valid(c1) and valid(c2):
            return c1, c2
    return [2, 3], [2, 3]


# ----------------------------------------------------------------------------- exhaustive space
def exh_set(mask):
    """normal-form set (cut codes) of a subset of the 9 atoms g0 p0 g1 p1 g2 p2 g3 p3 g4"""
    codes = []
    i = 0
    while i < 9:
        if not (mask >> i) & 1:
            i += 1
            continue
        j = i
        while j + 1 < 9 and (mask >> (j + 1)) & 1:
            j += 1
        # lower cut of atom i
        if i % 2 == 1:
            codes.append(2 * EXH_POINTS[i // 2])            # closed at the point
        else:
            g = i // 2
            codes.append(2 * (0 if g == 0 else EXH_POINTS[g - 1]) + 1)   # open at the previous point / -inf
        # upper cut of atom j
        if j % 2 == 1:
            codes.append(2 * EXH_POINTS[j // 2] + 1)        # closed at the point
        else:
            g = j // 2
            codes.append(2 * (LASTR if g == 4 else EXH_POINTS[g]))       # open at the next point / +inf
        i = j + 1
    return codes


def exhaustive_cases():
    probes = ",".join(str(p) for p in EXH_PROBES)
    txt1 = [fmt_set(None, exh_set(m), fixed_variant=0) for m in range(512)]
    txt2 = [fmt_set(None, exh_set(m), fixed_variant=1) for m in range(512)]
    return ["B %s %s %s" % (probes, txt1[a], txt2[b]) for a in range(512) for b in range(512)]


# ----------------------------------------------------------------------------- rational sets for the integer queries
QBASE = [0, 1, -1, 2, 3, 5, -4, 10, 2**31 - 2, 2**31 - 1, 2**31, 2**31 + 1, 2**32, 2**62, 2**63 - 1, 2**63, 2**64 + 1,
         -2**31, -2**31 - 1, -2**63, -2**63 - 1]


def qvalue(rng):
    k = rng.random()
    if k < 0.5:
        z = rng.randint(-6, 6)
    else:
        z = rng.choice(QBASE) + rng.randint(-1, 1)
    j = rng.random()
    if j < 0.45:
        return Fraction(z)
    if j < 0.7:
        return Fraction(z) + Fraction(rng.choice([1, 1, 3]), rng.choice([2, 4, 8, 1024]))
    return Fraction(z) + Fraction(rng.choice([1, 2, -1]), rng.choice([3, 5, 7, 1000003]))


def qlit(rng, v):
    if v.denominator == 1:
        k = rng.random()
        if k < 0.5:
            return "i%d" % v.numerator
        if k < 0.75:
            return "q%d/1" % v.numerator
        return "d%d/0" % v.numerator
    d = v.denominator
    if d & (d - 1) == 0 and rng.random() < 0.6:
        return "d%d/%d" % (v.numerator, d.bit_length() - 1)
    return "q%d/%d" % (v.numerator, v.denominator)


def qset(rng):
    n = rng.randint(0, 5)
    vals = sorted(set(qvalue(rng) for _ in range(rng.randint(1, 2 * n + 1))))
    if rng.random() < 0.3 and vals:
        # clusters around one integer: (k-1/2, k), [k, k], (k, k+1/3) ...
        k = Fraction(rng.randint(-3, 3))
        vals = sorted(set(vals + [k - Fraction(1, 2), k, k + Fraction(1, 3), k + 1]))
    ends = ["-inf"] + vals + ["+inf"]
    last = len(ends) - 1
    for _ in range(50):
        k = rng.randint(0, min(n, len(ends)))
        codes = sorted(rng.sample(range(1, 2 * last + 1), min(2 * k, 2 * last)))
        if len(codes) % 2:
            codes.pop()
        ok = True
        for i in range(0, len(codes), 2):
            l, h = codes[i], codes[i + 1]
            if l // 2 == last or h // 2 == 0 or (l // 2 == h // 2 and l // 2 in (0, last)):
                ok = False
        if ok:
            break
    else:
        codes = []
    out = []
    for i in range(0, len(codes), 2):
        l, h = codes[i], codes[i + 1]
        a, b = ends[l // 2], ends[h // 2]
        la = a if isinstance(a, str) else qlit(rng, a)
        lb = b if isinstance(b, str) else qlit(rng, b)
        if l // 2 == h // 2:
            out.append("{%s}" % la)
        else:
            out.append("%s%s,%s%s" % ("(" if l % 2 else "[", la, lb, ")" if h % 2 == 0 else "]"))
    return ";".join(out) if out else "{}"


# ----------------------------------------------------------------------------- sets with algebraic end points (op A)
from math import isqrt

_SC = 10 ** 40


def _icbrt(n):
    """floor of the cube root of a non-negative integer (integer Newton iteration)"""
    if n < 2:
        return n
    x = 1 << ((n.bit_length() + 2) // 3)
    while True:
        y = (2 * x + n // (x * x)) // 3
        if y >= x:
            break
        x = y
    while x ** 3 > n:
        x -= 1
    while (x + 1) ** 3 <= n:
        x += 1
    return x


def a_sqrt(m, sign=1, explicit=False):
    """(numeric key, token) of +-sqrt(m), m a non-square positive integer"""
    key = Fraction(isqrt(m * _SC * _SC), _SC) * sign
    if explicit:
        f = isqrt(m)
        lo, hi = (f, f + 1) if sign > 0 else (-f - 1, -f)
        return key, "a:%d,0,1:%d/0:%d/0" % (-m, lo, hi)
    return key, "r:%d,0,1:%d" % (-m, 1 if sign > 0 else 0)


def a_shift(k, m, sign):
    """k + sign*sqrt(m): root of x^2 - 2k x + k^2 - m"""
    key = Fraction(k) + sign * Fraction(isqrt(m * _SC * _SC), _SC)
    return key, "r:%d,%d,1:%d" % (k * k - m, -2 * k, 1 if sign > 0 else 0)


def a_cbrt(m):
    """the real cube root of the integer m (not a cube)"""
    a = abs(m)
    key = Fraction(_icbrt(a * _SC ** 3), _SC) * (1 if m > 0 else -1)
    return key, "r:%d,0,0,1:0" % (-m)


def a_rat(v, rng):
    if v.denominator == 1:
        return v, rng.choice(["z:%d", "q:%d/1", "d:%d/0"]) % v.numerator
    d = v.denominator
    if d & (d - 1) == 0 and rng.random() < 0.5:
        return v, "d:%d/%d" % (v.numerator, d.bit_length() - 1)
    return v, "q:%d/%d" % (v.numerator, d)


NONSQ = [2, 3, 5, 6, 7, 8, 10, 12, 15, 17, 24, 26, 35, 37, 48, 50, 63, 65, 99, 101, 120, 122, 143, 145, 1000001, 999999]


def a_value(rng):
    k = rng.random()
    if k < 0.40:
        return a_sqrt(rng.choice(NONSQ), rng.choice([1, 1, -1]), explicit=rng.random() < 0.3)
    if k < 0.55:
        return a_shift(rng.randint(-4, 4), rng.choice([2, 3, 5, 8]), rng.choice([1, -1]))
    if k < 0.63:
        return a_cbrt(rng.choice([2, 20, 7, 9, 26, 28, -20, -9, 63, 65]))
    z = rng.randint(-6, 12)
    j = rng.random()
    if j < 0.5:
        return a_rat(Fraction(z), rng)
    return a_rat(Fraction(z) + Fraction(rng.choice([1, 1, 3, -1]), rng.choice([2, 3, 4, 8, 1000])), rng)


def _fmt_a(ivs):
    out = []
    for (lo, lo_open, hi, hi_open) in ivs:
        if lo == hi:
            out.append("{%s}" % lo)
        else:
            out.append("%s%s|%s%s" % ("(" if lo_open else "[", lo, hi, ")" if hi_open else "]"))
    return ";".join(out) if out else "{}"


def one_integer_interval(rng, k):
    """an interval with an algebraic end whose only integer is k (or none / k at a closed end)"""
    below = [m for m in range((k - 1) ** 2 + 1, k * k) if k >= 1] if 1 <= k <= 12 else []
    above = [m for m in range(k * k + 1, (k + 1) ** 2) if k >= 0] if 0 <= k <= 12 else []
    fr = Fraction(rng.choice([0, 1, 1, 1, 3]), rng.choice([2, 4, 3, 8]))
    shape = rng.random()
    if shape < 0.45 and below:
        lo = a_sqrt(rng.choice(below), 1, explicit=rng.random() < 0.4)
        hi = a_rat(Fraction(k) + fr, rng) if rng.random() < 0.75 or not above else a_sqrt(rng.choice(above), 1)
    elif shape < 0.8 and above:
        hi = a_sqrt(rng.choice(above), 1, explicit=rng.random() < 0.4)
        lo = a_rat(Fraction(k) - fr, rng) if rng.random() < 0.75 or not below else a_sqrt(rng.choice(below), 1)
    else:
        lo = a_shift(k, rng.choice([2, 3]), -1) if rng.random() < 0.5 else a_rat(Fraction(k) - fr, rng)
        hi = a_shift(k, rng.choice([2, 3]), 1) if rng.random() < 0.5 else a_rat(Fraction(k) + fr, rng)
    if lo[0] >= hi[0]:
        return None
    return lo, hi


def aset(rng):
    ivs = []
    if rng.random() < 0.55:
        # one to three intervals around distinct integers, each containing at most a couple of integers
        ks = sorted(rng.sample(range(1, 12), rng.randint(1, 3)))
        neg = rng.random() < 0.3
        last = None
        for k in ks:
            r = one_integer_interval(rng, k)
            if r is None:
                continue
            lo, hi = r
            if last is not None and lo[0] <= last:
                continue
            last = hi[0]
            lo_open, hi_open = rng.random() < 0.6, rng.random() < 0.5
            ivs.append((lo, lo_open, hi, hi_open))
        if neg:
            # mirror: -sqrt(m) etc. only for plain square roots and rationals
            mir = []
            ok = True
            for (lo, lo_open, hi, hi_open) in reversed(ivs):
                def m1(v):
                    key, tok = v
                    if tok.startswith("r:") and tok.count(",") == 2 and tok.split(",")[1] == "0":
                        c = int(tok[2:].split(",")[0])
                        return a_sqrt(-c, -1 if tok.endswith(":1") else 1)
                    if tok[0] in "zqd":
                        return a_rat(-key, rng)
                    return None
                a, b = m1(hi), m1(lo)
                if a is None or b is None:
                    ok = False
                    break
                mir.append((a, hi_open, b, lo_open))
            if ok:
                ivs = mir
        toks = [(lo[1], lo_open, hi[1], hi_open) for (lo, lo_open, hi, hi_open) in ivs]
        if toks and rng.random() < 0.15:
            toks.append(("z:40", True, "+inf", True))
        if toks and rng.random() < 0.1:
            toks.insert(0, ("-inf", True, "z:-40", rng.random() < 0.5))
        return _fmt_a(toks)
    # random normal-form set over a sorted sample of values
    vals = {}
    for _ in range(rng.randint(2, 9)):
        key, tok = a_value(rng)
        vals.setdefault(key, tok)
    keys = sorted(vals)
    ends = ["-inf"] + [vals[k] for k in keys] + ["+inf"]
    last = len(ends) - 1
    for _ in range(50):
        k = rng.randint(1, min(4, last))
        codes = sorted(rng.sample(range(1, 2 * last + 1), min(2 * k, 2 * last)))
        if len(codes) % 2:
            codes.pop()
        ok = True
        for i in range(0, len(codes), 2):
            l, h = codes[i], codes[i + 1]
            if l // 2 == last or h // 2 == 0 or (l // 2 == h // 2 and l // 2 in (0, last)):
                ok = False
        if ok:
            break
    else:
        codes = []
    toks = []
    for i in range(0, len(codes), 2):
        l, h = codes[i], codes[i + 1]
        toks.append((ends[l // 2], l % 2 == 1, ends[h // 2], h % 2 == 0))
    return _fmt_a(toks)


# ----------------------------------------------------------------------------- ALGEBRAIC-typed ends that denote RATIONALS
# lp_value_is_integer / floor / ceiling of an LP_VALUE_ALGEBRAIC value go through lp_algebraic_number_is_integer etc.;
# root isolation and lp_algebraic_number_construct leave rational roots in three shapes: collapsed to a dyadic POINT
# (3/2 of 2x-3 on (1,2); every integer), a LINEAR defining polynomial with an interval (1/3 of 3x-1; 3/2 of 2x-3 on
# (5/4,7/4)), a REDUCIBLE defining polynomial with an interval (1/3 of (3x-1)(x^2-2)).  The reference takes the denotation.
def _dy(fr):
    """'a/n' (a/2^n, normalised) of a dyadic Fraction"""
    return "%d/%d" % (fr.numerator, fr.denominator.bit_length() - 1)


def _pmul(p, q):
    out = [0] * (len(p) + len(q) - 1)
    for i, a in enumerate(p):
        for j, b in enumerate(q):
            out[i + j] += a * b
    return out


def _cofactor(rng, v):
    """(coefficients low..high, sorted numeric keys of the real roots) of a primitive polynomial with g(v) != 0, g(0) != 0"""
    for _ in range(20):
        k = rng.random()
        if k < 0.45:
            m = rng.choice([2, 3, 5, 7, 8])
            s = Fraction(isqrt(m * _SC * _SC), _SC)
            g, roots = [-m, 0, 1], [-s, s]
        elif k < 0.75:
            c = rng.choice([-3, -2, -1, 1, 2, 3, 4, 5])
            g, roots = [-c, 1], [Fraction(c)]
        elif k < 0.85:
            g, roots = [1, 0, 1], []                      # x^2 + 1: no real root
        else:
            n, d = rng.choice([(1, 2), (-1, 2), (5, 2), (2, 3), (7, 4), (-4, 3)])
            g, roots = [-n, d], [Fraction(n, d)]
        if all(abs(r - v) > Fraction(1, 1000) for r in roots):
            return g, roots
    return [1, 0, 1], []


def _isolating(rng, v, others):
    """open dyadic interval (lo, hi) around v, no element of `others` inside or at an end; wide (holding integers:
    the library bisects, dyadic values collapse to a point) or narrow (kept as it is)"""
    for _ in range(40):
        t = rng.choice([0, 0, 1, 2, 3, 6])
        sc = 2 ** t
        lo = Fraction((v * sc).__floor__() - rng.choice([0, 0, 1, 2]), sc)
        hi = Fraction((v * sc).__ceil__() + rng.choice([0, 0, 1, 2]), sc)
        if lo == v:
            lo -= Fraction(1, sc)
        if hi == v:
            hi += Fraction(1, sc)
        if all(o < lo - Fraction(1, 1000) or o > hi + Fraction(1, 1000) for o in others):
            return lo, hi
    return None


def a_ratalg(v, rng):
    """(key, token): an ALGEBRAIC-typed value denoting the rational v (integer or not)"""
    n, d = v.numerator, v.denominator
    lin = [-n, d]
    for _ in range(20):
        k = rng.random()
        if k < 0.25 or v == 0:
            if v != 0 and rng.random() < 0.15:
                return v, "r:%s:0" % ",".join(map(str, _pmul(lin, lin)))       # (d x - n)^2
            return v, "r:%d,%d:0" % (-n, d)                                    # linear, root isolation
        if k < 0.55:
            iv = _isolating(rng, v, [])
            if iv:
                return v, "a:%d,%d:%s:%s" % (-n, d, _dy(iv[0]), _dy(iv[1]))    # linear, chosen isolating interval
            continue
        if d == 1 and k < 0.65:
            return v, "r:%d,0,1:%d" % (-n * n, 1 if n > 0 else 0)               # x^2 - n^2
        g, roots = _cofactor(rng, v)
        p = _pmul(lin, g)
        if k < 0.8:
            return v, "r:%s:%d" % (",".join(map(str, p)), sum(1 for r in roots if r < v))
        iv = _isolating(rng, v, roots)
        if iv:
            return v, "a:%s:%s:%s" % (",".join(map(str, p)), _dy(iv[0]), _dy(iv[1]))
    return v, "r:%d,%d:0" % (-n, d)


RFRAC = [Fraction(1, 2), Fraction(1, 2), Fraction(1, 4), Fraction(3, 4), Fraction(1, 3), Fraction(2, 3), Fraction(1, 5),
         Fraction(3, 8), Fraction(5, 7), Fraction(1, 1000), Fraction(999, 1000), Fraction(7, 16)]


def rat_any(v, rng, palg=0.7):
    """the rational v as an algebraic-typed value (mostly) or as integer / dyadic / rational"""
    return a_ratalg(v, rng) if rng.random() < palg else a_rat(v, rng)


def _nf_codes(rng, last, maxiv):
    """cut codes of a random normal-form set over ends[0..last] (0 = -inf, last = +inf)"""
    for _ in range(50):
        k = rng.randint(1, max(1, min(maxiv, last)))
        codes = sorted(rng.sample(range(1, 2 * last + 1), min(2 * k, 2 * last)))
        if len(codes) % 2:
            codes.pop()
        if _codes_ok(codes, last):
            return codes
    return []


def _codes_ok(codes, last):
    if len(codes) % 2 or any(c < 1 or c > 2 * last for c in codes):
        return False
    if any(codes[i] >= codes[i + 1] for i in range(len(codes) - 1)):
        return False
    for i in range(0, len(codes), 2):
        l, h = codes[i], codes[i + 1]
        if l // 2 == last or h // 2 == 0 or (l // 2 == h // 2 and l // 2 in (0, last)):
            return False
    return True


def _toks_of_codes(rng, codes, keys, tokfun):
    """interval tokens of cut codes over -inf, keys..., +inf; every use of a value draws its representation anew"""
    last = len(keys) + 1
    def e(i):
        return "-inf" if i == 0 else "+inf" if i == last else tokfun(keys[i - 1], rng)[1]
    toks = []
    for i in range(0, len(codes), 2):
        l, h = codes[i], codes[i + 1]
        if l // 2 == h // 2:
            t = e(l // 2)
            toks.append((t, False, t, False))
        else:
            toks.append((e(l // 2), l % 2 == 1, e(h // 2), h % 2 == 0))
    return toks


def _rat_cluster(rng):
    """a few rationals in a window of 1..4 units: integers and fractions, so that intervals hold 0..3 integers"""
    z0 = rng.randint(-7, 9)
    vals = set()
    for _ in range(rng.randint(2, 6)):
        z = z0 + rng.randint(0, rng.choice([1, 2, 4]))
        vals.add(Fraction(z) + (0 if rng.random() < 0.35 else rng.choice(RFRAC)))
    return sorted(vals)


def _mixed_tok(v, rng):
    return rat_any(v, rng, 0.65)


def ratalg_set(rng):
    """op A: sets whose ends are algebraic-typed RATIONALS (integers and non-integers)"""
    k = rng.random()
    z = rng.randint(-7, 9)
    f = rng.choice(RFRAC)
    if k < 0.12:
        t = a_ratalg(Fraction(z) + (f if rng.random() < 0.7 else 0), rng)[1]
        return _fmt_a([(t, False, t, False)])
    if k < 0.30:
        # a non-integer algebraic-typed point and integer points: the pick must be an integer, exactly those are counted
        pts = {Fraction(z) + f: True}
        for _ in range(rng.randint(1, 2)):
            w = Fraction(z + rng.randint(-3, 3))
            pts.setdefault(w + (rng.choice(RFRAC) if rng.random() < 0.3 else 0), rng.random() < 0.5)
        ts = [(a_ratalg(v, rng) if alg else a_rat(v, rng))[1] for v, alg in sorted(pts.items())]
        return _fmt_a([(t, False, t, False) for t in ts])
    if k < 0.55:
        # one interval: algebraic-typed rational end(s), 0..3 integers inside, ends at / next to integers
        lo = Fraction(z) + (0 if rng.random() < 0.3 else f)
        hi = Fraction(z + rng.choice([0, 0, 1, 1, 2, 3])) + (0 if rng.random() < 0.3 else rng.choice(RFRAC))
        if lo > hi:
            lo, hi = hi, lo
        if lo == hi:
            hi += rng.choice(RFRAC)
        a, b = rat_any(lo, rng, 0.85), rat_any(hi, rng, 0.6)
        if rng.random() < 0.15:
            b = a_sqrt(rng.choice(NONSQ[:12]), 1) if hi > 0 else b
            if b[0] <= lo:
                b = rat_any(hi, rng, 0.6)
        return _fmt_a([(a[1], rng.random() < 0.5, b[1], rng.random() < 0.5)])
    keys = _rat_cluster(rng)
    if rng.random() < 0.3:
        keys = sorted(set(keys + [Fraction(z + 6) + rng.choice(RFRAC), Fraction(z + 8)]))
    codes = _nf_codes(rng, len(keys) + 1, 4)
    return _fmt_a(_toks_of_codes(rng, codes, keys, _mixed_tok))


def _mut_codes(rng, codes, last):
    c = list(codes)
    for _ in range(rng.randint(1, 3)):
        k = rng.random()
        if k < 0.5 and c:
            c[rng.randrange(len(c))] += rng.choice([-2, -1, 1, 2])
        elif k < 0.7 and len(c) >= 2:
            i = rng.randrange(0, len(c) - 1)
            del c[i:i + 2]
        else:
            x = rng.randint(1, 2 * last - 1)
            c += [x, x + rng.choice([1, 1, 2, 3])]
    c = sorted(set(c))
    if len(c) % 2:
        c.pop(rng.randrange(len(c)))
    return c


def ratalg_pair(rng):
    """op S: two normal-form sets over one cluster of rationals (plus an irrational now and then); the same number is
    an integer / dyadic / rational in one place and an algebraic-typed value in another"""
    keys = _rat_cluster(rng)
    toks = {}
    if rng.random() < 0.4:
        key, tok = a_sqrt(rng.choice(NONSQ[:12]), rng.choice([1, -1]), explicit=rng.random() < 0.3)
        if all(abs(key - v) > Fraction(1, 1000) for v in keys):
            keys = sorted(keys + [key])
            toks[key] = tok
    def tokfun(v, r):
        return (v, toks[v]) if v in toks else _mixed_tok(v, r)
    last = len(keys) + 1
    for _ in range(50):
        c1 = _nf_codes(rng, last, 3)
        k = rng.random()
        c2 = _mut_codes(rng, c1, last) if k < 0.5 else list(c1) if k < 0.6 else _nf_codes(rng, last, 3)
        if rng.random() < 0.5:
            c1, c2 = c2, c1
        if _codes_ok(c1, last) and _codes_ok(c2, last):
            return _fmt_a(_toks_of_codes(rng, c1, keys, tokfun)), _fmt_a(_toks_of_codes(rng, c2, keys, tokfun))
    return "{}", "{}"


# ----------------------------------------------------------------------------- entry points
def generate(rng, tier):
    cases = ["POOL"]
    nB, nC, nQ = (6000, 1500, 2000) if tier == "quick" else (20000, 4000, 6000)
    nA = 1500 if tier == "quick" else 6000
    nR, nS = (400, 300) if tier == "quick" else (1600, 1200)
    for _ in range(nB):
        c1, c2 = pair(rng)
        cases.append("B * %s %s" % (fmt_set(rng, c1), fmt_set(rng, c2)))
    for _ in range(nC):
        c1, c2 = interval_pair(rng)
        cases.append("C %s %s" % (fmt_set(rng, c1), fmt_set(rng, c2)))
    for _ in range(nQ):
        cases.append("Q %s" % qset(rng))
    for _ in range(nA):
        cases.append("A %s" % aset(rng))
    # algebraic-typed ends denoting rationals: integer queries / picks (A) and set operations (S).  Appended AFTER the
    # older classes so that their random stream (and what it happens to reach) stays what it was; append new classes here.
    for _ in range(nR):
        cases.append("A %s" % ratalg_set(rng))
    for _ in range(nS):
        cases.append("S %s %s" % ratalg_pair(rng))
    if tier == "thorough":
        cases += exhaustive_cases()
    return cases


def _parse_codes(s):
    """cut codes of a rank-set text (variants ignored)"""
    if s == "{}":
        return []
    codes = []
    for t in s.split(";"):
        if t[0] == "{":
            r = int(t[1:-1].split(".")[0])
            codes += [2 * r, 2 * r + 1]
        else:
            a, b = t[1:-1].split(",")
            a, b = int(a.split(".")[0]), int(b.split(".")[0])
            codes += [2 * a + (1 if t[0] == "(" else 0), 2 * b + (0 if t[-1] == ")" else 1)]
    return codes


def _is_exh(t):
    return t[0] == "B" and t[1] != "*"


def tag(case):
    t = case.split()
    if t[0] == "B" and len(t) == 4:
        n1 = 0 if t[2] == "{}" else t[2].count(";") + 1
        n2 = 0 if t[3] == "{}" else t[3].count(";") + 1
        return "%s:%d,%d" % ("X" if _is_exh(t) else "B", min(n1, 3), min(n2, 3))
    if t[0] in ("Q", "A") and len(t) == 2:
        return "%s:%d" % (t[0], 0 if t[1] == "{}" else min(t[1].count(";") + 1, 3))
    if t[0] == "S" and len(t) == 3:
        return "S:%d,%d" % tuple(0 if x == "{}" else min(x.count(";") + 1, 3) for x in t[1:])
    return t[0]


def nontrivial(case):
    """B: some interval of the first set overlaps or touches one of the second; C: always; Q: non-empty"""
    t = case.split()
    if t[0] == "B" and len(t) == 4:
        c1, c2 = _parse_codes(t[2]), _parse_codes(t[3])
        for i in range(0, len(c1), 2):
            for j in range(0, len(c2), 2):
                if c1[i] <= c2[j + 1] and c2[j] <= c1[i + 1]:
                    return True
        return False
    if t[0] in ("Q", "A"):
        return len(t) == 2 and t[1] != "{}"
    if t[0] == "S":
        return len(t) == 3 and t[1] != "{}" and t[2] != "{}"
    return t[0] == "C"


def explain(case, c_out, m_out):
    if c_out is None or m_out is None:
        return "driver produced no line"
    a, b = c_out.split(), m_out.split()
    diff = [(x, y) for x, y in zip(a, b) if x != y]
    names = {"i": "intersect_with_status result:status (0=S1 1=S2 2=NEW 3=EMPTY)", "j": "intersect", "u": "add(s1,s2)",
             "v": "add(s2,s1)", "a": "add(s1,s1) aliased", "k": "intersect(s1,s1)", "w": "add into a used set",
             "f": "is_empty/is_full/is_point of s1,s2,intersection,union", "m": "membership sweeps s1,s2,intersection,union",
             "c": "lp_interval_cmp of every interval pair", "t": "to_interval", "p": "pick_value (doubled rank positions)",
             "o": "operands unchanged", "r": "relation (cmp, cmp_with_intersect fresh P, used P)", "p:": "P",
             "st": "intersect status", "q1": "contains_int,count_int,is_point_int,per interval contains_int,count_int of s1",
             "q2": "the same of s2", "qi": "the same of the intersection", "qu": "the same of the union",
             "ki": "pick_value of the intersection", "ku": "pick_value of the union",
             "ci": "contains_int", "cnt": "count_int", "pi": "is_point_int", "ici": "lp_interval_contains_int per interval",
             "icnt": "lp_interval_count_int per interval", "pk": "pick_value", "ipk": "lp_interval_pick_value per interval",
             "pf": "pick_first_value"}
    return "; ".join("field %s [%s]: libpoly %s, model %s" % (x.split(":")[0], names.get(x.split(":")[0], ""), x, y)
                     for x, y in diff[:6]) or "line lengths differ"


def extra_coverage(cases, couts, mouts):
    exh = [i for i, c in enumerate(cases) if _is_exh(c.split())]
    done = [i for i in exh if couts[i] is not None and mouts[i] is not None and not str(mouts[i]).startswith(("FUEL", "MODEL-ERROR"))]
    res = {"exhaustive": bool(exh) and len(set(cases[i] for i in done)) == 512 * 512,
           "exhaustive_space": "all ordered pairs of normal-form sets whose end points are among pool ranks %s (1/3, 1, sqrt 2, 3/2) "
                               "and -inf,+inf: 512 x 512 = 262144 pairs; membership probed at the 6 end points and inside the 5 gaps"
                               % EXH_POINTS,
           "exhaustive_cases_run": len(done)}
    return res


RULE = ("corpus first; seeded structured generator gen/C13.py: B = pairs of normal-form sets (<= 6 intervals) over a 27-value "
        "mixed-kind pool biased to touching/nested/identical/point/complementary patterns, C = interval pairs, Q = integer queries "
        "on rational sets, A = integer queries / picks on sets with algebraic ends (irrational; ratalg_set: algebraic-typed values denoting "
        "rationals and integers), S = intersect / union of two such sets with the results' integer queries; thorough adds the exhaustive 512x512 sweep; distinct = distinct case line; non-trivial = operands overlap or touch")
ASSUMPTIONS = ["lp_value_cmp is the total order of the denoted numbers on the pool (asserted by the harness at start-up for the pool: "
               "strictly increasing, variants of one rank equal); this is property C08's claim",
               "LP64: long is 64 bits, int is 32 bits (count_int saturation)"]
TRUSTED = ["pool of harness/c13.c and its mirror constants (size, rank of 0) in ocaml/p_c13.ml, cross-checked by the POOL case"]
TIMEOUT = 3000
