HARNESS = "c04"
STALE_RERUN = True   # operands also re-run as stale external polynomials (see check)
STALE_LIMIT = 20000  # quick: EVERY case (corpus included) is re-run with stale external operands, not a sample
LEVEL = "translation_validation"
TIMEOUT = 3000
"""C04 case generator: pairs (P, Q) in Z[params][main] for resultant / psc / subresultant chains.
Every random choice comes from the one `rng` passed in.

case lines
   sr V P Q [assignment ...]     V main variable index, P Q polyio text, assignment = "1:5,2:-3" (parameter values;
                                 used by the model side for the specialisation claim)
   srp M V P Q                   the same in a polynomial context over Z_M (M prime)
   disc V P
A case line may end with the token  #tag  (ignored by both drivers; gives the branch tag for the evidence).
"""

# ---------------------------------------------------------------- tiny sparse multivariate arithmetic: {exps(tuple of 3): coeff}
NV = 3


def padd(a, b):
    r = dict(a)
    for k, c in b.items():
        r[k] = r.get(k, 0) + c
        if r[k] == 0:
            del r[k]
    return r


def pneg(a): return {k: -c for k, c in a.items()}
def psub(a, b): return padd(a, pneg(b))


def pmul(a, b):
    r = {}
    for k1, c1 in a.items():
        for k2, c2 in b.items():
            k = tuple(x + y for x, y in zip(k1, k2))
            r[k] = r.get(k, 0) + c1 * c2
            if r[k] == 0:
                del r[k]
    return r


def pconst(c): return {(0,) * NV: c} if c else {}
def pvar(v, e=1):
    k = [0] * NV
    k[v] = e
    return {tuple(k): 1}


def pdeg(a, v): return max([k[v] for k in a] or [0])


def ptext(a):
    if not a:
        return "0"
    ts = []
    for k in sorted(a, reverse=True):
        ts.append(str(a[k]) + "".join("*x%d^%d" % (i, e) for i, e in enumerate(k) if e))
    return "+".join(ts)


def peval(a, rho):
    """rho: dict var -> int (missing = 0); returns a polynomial with those variables substituted"""
    r = {}
    for k, c in a.items():
        kk = list(k)
        for v, x in rho.items():
            c *= x ** kk[v]
            kk[v] = 0
        if c:
            r[tuple(kk)] = r.get(tuple(kk), 0) + c
            if r[tuple(kk)] == 0:
                del r[tuple(kk)]
    return r


# ---------------------------------------------------------------- random pieces
def rint(rng, big=False):
    if big:
        k = rng.random()
        if k < 0.3:
            return rng.choice([-1, 1]) * (2 ** rng.randint(30, 70) + rng.randint(-3, 3))
        return rng.randint(-10 ** rng.randint(3, 14), 10 ** rng.randint(3, 14))
    k = rng.random()
    if k < 0.6:
        return rng.randint(-3, 3)
    return rng.randint(-9, 9)


def rcoef(rng, params, kind):
    """a coefficient: polynomial in the parameter variables.  kind: 'int' | 'bigint' | 'par' (small parametric)"""
    if kind == "int":
        return pconst(rint(rng))
    if kind == "bigint":
        return pconst(rint(rng, True))
    r = {}
    for _ in range(rng.choice([1, 1, 2, 2, 3])):
        k = [0] * NV
        for v in params:
            k[v] = rng.choice([0, 0, 1, 1, 2]) if rng.random() < 0.7 else 0
        c = rint(rng)
        if c:
            r[tuple(k)] = r.get(tuple(k), 0) + c
            if r[tuple(k)] == 0:
                del r[tuple(k)]
    return r


def rpoly(rng, v, params, deg, kind, sparse=0.25, monic=False):
    """polynomial of exact degree deg in x_v"""
    r = {}
    for i in range(deg + 1):
        if i < deg and rng.random() < sparse:
            continue
        c = rcoef(rng, params, kind)
        if i == deg:
            if monic:
                c = pconst(rng.choice([1, -1]))
            while not c:
                c = rcoef(rng, params, kind)
        r = padd(r, pmul(c, pvar(v, i)))
    return r


def pred_mod0(a, M):
    r = {}
    for k, c in a.items():
        c %= M
        if c > M // 2:
            c -= M
        if c:
            r[k] = c
    return r


def rassign(rng, params):
    return {v: rng.randint(-3, 3) for v in params}


def atext(rho):
    return ",".join("%d:%d" % (v, x) for v, x in sorted(rho.items())) if rho else "9:0"


def case_sr(v, P, Q, assigns, tg):
    return "sr %d %s %s %s #%s" % (v, ptext(P), ptext(Q), " ".join(atext(a) for a in assigns), tg)


def ok_pair(P, Q, v):
    return pdeg(P, v) >= 1 and pdeg(Q, v) >= 1


def generate(rng, tier):
    quick = tier == "quick"
    cases = []
    D = 4 if quick else 6            # largest degree
    MAXDIM_PAR = 8 if quick else 9   # largest m+n with parametric coefficients
    MAXDIM_INT = 11 if quick else 13  # largest m+n with small integer coefficients (many zeros: cheap expansion)
    MAXDIM_BIG = 8 if quick else 10   # largest m+n with big dense integer coefficients

    def lim(kind):
        return {"par": MAXDIM_PAR, "int": MAXDIM_INT, "bigint": MAXDIM_BIG}[kind]

    def setup():
        v = 0 if rng.random() < 0.8 else rng.choice([1, 2])
        params = [i for i in range(NV) if i != v]
        return v, params

    def emit(v, params, P, Q, tg, assigns=None, both=False):
        if not ok_pair(P, Q, v):
            return
        if assigns is None:
            assigns = [rassign(rng, params) for _ in range(2)] if params_used(P, Q, params) else []
        cases.append(case_sr(v, P, Q, assigns, tg))
        if both:
            cases.append(case_sr(v, Q, P, assigns, tg + "-swapped"))

    def params_used(P, Q, params):
        return any(k[u] for u in params for k in list(P) + list(Q))

    def kind_for(m, n):
        if m + n <= MAXDIM_PAR and rng.random() < 0.6:
            return "par"
        return "int" if rng.random() < 0.7 else "bigint"

    # ---- 1. all ordered degree combinations (equal degrees, gaps >= 2 included), several coefficient kinds
    reps = 10 if quick else 12
    for m in range(1, D + 1):
        for n in range(1, D + 1):
            for _ in range(reps):
                v, params = setup()
                kind = kind_for(m, n)
                if m + n > lim(kind):
                    kind = "int"
                if m + n > lim(kind):
                    continue
                P = rpoly(rng, v, params, m, kind, sparse=rng.choice([0, 0.2, 0.5]))
                Q = rpoly(rng, v, params, n, kind, sparse=rng.choice([0, 0.2, 0.5]))
                tg = "deg%s%s" % ("=" if m == n else (">" if m > n else "<"), "gap" if abs(m - n) >= 2 else "")
                emit(v, params, P, Q, tg + ":" + kind)

    # ---- 2. planted common factors: the first k psc vanish, the chain stops early / has zero entries
    for _ in range(100 if quick else 300):
        v, params = setup()
        k = rng.choice([1, 1, 2, 3])
        m1, n1 = rng.randint(0, 3), rng.randint(0, 3)
        kind = rng.choice(["par", "int", "int"])
        if (m1 + k) + (n1 + k) > lim(kind) or max(m1, n1) + k > D:
            continue
        G = rpoly(rng, v, params, k, kind)
        P = pmul(G, rpoly(rng, v, params, m1, kind))
        Q = pmul(G, rpoly(rng, v, params, n1, kind))
        if rng.random() < 0.15:
            Q = pmul(P, pconst(rng.choice([2, -1, 3])))     # proportional operands
        emit(v, params, P, Q, "common%d:%s" % (k, kind), both=True)

    # ---- 3. defective chains: remainder sequence with degree jumps  P = Q*A0 + R1, Q = R1*A1 + R2, deg R1 - deg R2 >= 2
    for _ in range(240 if quick else 700):
        v, params = setup()
        kind = rng.choice(["int", "int", "int", "par", "par1"])
        if kind == "par1":
            params = [rng.choice(params)]          # one parameter: the fast (Bareiss) reference applies beyond dimension 11
        d2 = rng.choice([0, 0, 0, 1])
        # jump = deg R1 - deg R2; S_e_optimized runs with n = jump - 1: n >= 4 makes its loop run at least twice
        jump = rng.choice([2, 2, 3, 3, 4, 4, 5, 5, 6] if quick else [2, 3, 3, 4, 4, 5, 5, 6, 6, 7])
        d1 = d2 + jump
        dq = d1 + rng.choice([1, 1, 1, 2])
        dp = dq + rng.choice([0, 0, 1, 2])
        big_ok = {"int": 18, "par1": 15, "par": MAXDIM_PAR}[kind]
        if dp + dq > big_ok:
            kind = "int"
        if dp + dq > 18:
            continue
        ck = "int" if kind == "int" else rng.choice(["int", "par"])
        R2 = rpoly(rng, v, params, d2, ck)
        R1 = rpoly(rng, v, params, d1, ck, monic=(rng.random() < 0.5))
        A1 = rpoly(rng, v, params, dq - d1, "int")
        A0 = rpoly(rng, v, params, dp - dq, "int")
        Q = padd(pmul(R1, A1), R2)
        P = padd(pmul(Q, A0), R1)
        if pdeg(P, v) != dp or pdeg(Q, v) != dq:
            continue
        if rng.random() < 0.2:
            M = rng.choice([3, 5, 7, 13, 101, 1000000007])
            Pr, Qr = pred_mod0(P, M), pred_mod0(Q, M)
            if pdeg(Pr, v) == dp and pdeg(Qr, v) == dq:
                cases.append("srp %d %d %s %s #Zp-defective-jump%d:%s" % (M, v, ptext(P), ptext(Q), jump, kind))
            continue
        emit(v, params, P, Q, "defective-jump%d:%s" % (jump, kind), both=(rng.random() < 0.4))
    # defective already at the first step (deg prem(P,Q) < deg Q - 1) and vanishing intermediate leading coefficients
    for _ in range(80 if quick else 300):
        v, params = setup()
        kind = rng.choice(["int", "par"])
        dq = rng.randint(2, D)
        dp = dq + rng.choice([0, 1, 2])
        if dp + dq > lim(kind):
            continue
        Q = rpoly(rng, v, params, dq, kind)
        A0 = rpoly(rng, v, params, dp - dq, "int")
        R = rpoly(rng, v, params, rng.randint(0, max(0, dq - 2)), kind)
        P = padd(pmul(Q, A0), R)
        emit(v, params, P, Q, "defective-first:%s" % kind, both=(rng.random() < 0.5))

    # ---- 4. specialisation: planted common roots / vanishing leading coefficients under an assignment
    for _ in range(100 if quick else 400):
        v, params = setup()
        u = rng.choice(params)
        a = rng.randint(-2, 2)
        lin = psub(pvar(u), pconst(a))          # (x_u - a)
        what = rng.choice(["common", "lcP", "lcQ", "lcboth", "lcP+common", "zeroP"])
        m, n = rng.randint(1, 3), rng.randint(1, 3)
        if m + n > MAXDIM_PAR - 1:
            continue
        ck = rng.choice(["int", "par"])
        if what == "common":
            C = rpoly(rng, v, params, 1, "int")
            P = padd(pmul(C, rpoly(rng, v, params, m - 1, ck)), pmul(lin, rpoly(rng, v, params, m, "int")))
            Q = padd(pmul(C, rpoly(rng, v, params, n - 1, ck)), pmul(lin, rpoly(rng, v, params, n, "int")))
        elif what == "zeroP":
            P = pmul(lin, rpoly(rng, v, params, m, ck))
            Q = rpoly(rng, v, params, n, ck)
        else:
            P = rpoly(rng, v, params, m, ck)
            Q = rpoly(rng, v, params, n, ck)
            if "lcP" in what or what == "lcboth":
                P = padd(rpoly(rng, v, params, m - 1, ck), pmul(pmul(lin, rcoef(rng, params, "int") or pconst(1)), pvar(v, m)))
            if what in ("lcQ", "lcboth"):
                Q = padd(rpoly(rng, v, params, n - 1, ck), pmul(pmul(lin, rcoef(rng, params, "int") or pconst(1)), pvar(v, n)))
            if what == "lcP+common" and m >= 2:
                C = rpoly(rng, v, params, 1, "int")
                P = padd(pmul(C, rpoly(rng, v, params, m - 2, "int")), pmul(lin, rpoly(rng, v, params, m, "int")))
                Q = padd(pmul(C, rpoly(rng, v, params, n - 1, "int")), pmul(lin, rpoly(rng, v, params, n - 1, "int")))
        if pdeg(P, v) != m or pdeg(Q, v) != n:
            continue
        rho = rassign(rng, params)
        rho[u] = a
        emit(v, params, P, Q, "spec-" + what, assigns=[rho, rassign(rng, params), rassign(rng, params)], both=(rng.random() < 0.3))

    # ---- 5. purely univariate integer pairs with bigger coefficients
    for _ in range(100 if quick else 200):
        m, n = rng.randint(1, D), rng.randint(1, D)
        if m + n > MAXDIM_BIG:
            continue
        P = rpoly(rng, 0, [], m, "bigint", sparse=rng.choice([0, 0.3]))
        Q = rpoly(rng, 0, [], n, "bigint", sparse=rng.choice([0, 0.3]))
        if rng.random() < 0.3:
            G = rpoly(rng, 0, [], 1, "bigint")
            P, Q = pmul(P, G), pmul(Q, G)
            if pdeg(P, 0) + pdeg(Q, 0) > MAXDIM_BIG:
                continue
        emit(0, [], P, Q, "univariate-big", both=(rng.random() < 0.3))

    # ---- 7. contexts over Z_p: the same API with coefficients in a prime field (exact divisions become multiplications
    #         by inverses mod p; numeric divisors that are not units over Z are the interesting ones)
    def pred_mod(a, M):
        r = {}
        for k, c in a.items():
            c %= M
            if c > M // 2:
                c -= M
            if c:
                r[k] = c
        return r

    def zp_coef(M):
        k = rng.random()
        if k < 0.5:
            return rng.randint(-min(M, 9), min(M, 9))
        return rng.randint(-M, M)

    def zp_poly(v, params, deg, M, par, sparse):
        r = {}
        for i in range(deg + 1):
            if i < deg and rng.random() < sparse:
                continue
            if par and rng.random() < 0.6:
                c = {}
                for _ in range(rng.choice([1, 2, 2])):
                    k = [0] * NV
                    for u in params:
                        k[u] = rng.choice([0, 0, 1, 1, 2])
                    c = padd(c, {tuple(k): zp_coef(M)})
                c = {k: x for k, x in c.items() if x}
            else:
                c = pconst(zp_coef(M))
            if i == deg:
                tries = 0
                while not pred_mod(c, M) and tries < 20:
                    c = pconst(zp_coef(M)); tries += 1
            r = padd(r, pmul(c, pvar(v, i)))
        return r

    PRIMES = [2, 3, 5, 7, 7, 13, 13, 101, 1000000007, 2**61 - 1]
    for _ in range(260 if quick else 800):
        M = rng.choice(PRIMES)
        v, params = setup()
        par = rng.random() < 0.45
        shape = rng.choice(["generic", "generic", "gap", "equal", "common", "jump", "first"])
        limd = (MAXDIM_PAR - 1 if par else (MAXDIM_BIG - 1 if M > 1000 else (9 if quick else 10)))   # dense operands
        sparse = rng.choice([0, 0, 0.3, 0.5])
        if shape == "generic":
            m, n = rng.randint(1, D), rng.randint(1, D)
        elif shape == "gap":
            n = rng.randint(1, D - 2); m = n + rng.randint(2, D - n)
        elif shape == "equal":
            m = n = rng.randint(1, D)
        if shape in ("generic", "gap", "equal"):
            if m + n > limd:
                continue
            P = zp_poly(v, params, m, M, par, sparse); Q = zp_poly(v, params, n, M, par, sparse)
        elif shape == "common":
            k = rng.choice([1, 1, 2])
            m1, n1 = rng.randint(0, 3), rng.randint(0, 3)
            if m1 + n1 + 2 * k > limd:
                continue
            G = zp_poly(v, params, k, M, par, 0)
            P = pmul(G, zp_poly(v, params, m1, M, par, 0)); Q = pmul(G, zp_poly(v, params, n1, M, par, 0))
        elif shape == "jump":
            d2 = rng.choice([0, 0, 1]); jump = rng.choice([2, 3, 3, 4]); d1 = d2 + jump
            dq = d1 + rng.choice([1, 1, 2]); dp = dq + rng.choice([0, 1, 2])
            if dp + dq > limd:
                continue
            R2 = zp_poly(v, params, d2, M, par, 0); R1 = zp_poly(v, params, d1, M, par and rng.random() < 0.5, 0)
            A1 = zp_poly(v, params, dq - d1, M, False, 0); A0 = zp_poly(v, params, dp - dq, M, False, 0)
            Q = padd(pmul(R1, A1), R2); P = padd(pmul(Q, A0), R1)
        else:
            dq = rng.randint(2, D); dp = dq + rng.choice([0, 1, 2])
            if dp + dq > limd:
                continue
            Q = zp_poly(v, params, dq, M, par, 0); A0 = zp_poly(v, params, dp - dq, M, False, 0)
            P = padd(pmul(Q, A0), zp_poly(v, params, rng.randint(0, max(0, dq - 2)), M, par, 0))
        Pr, Qr = pred_mod(P, M), pred_mod(Q, M)
        if pdeg(Pr, v) < 1 or pdeg(Qr, v) < 1 or pdeg(Pr, v) + pdeg(Qr, v) > limd:
            continue
        if rng.random() < 0.5:
            P, Q = Pr, Qr            # already reduced text; otherwise the parser reduces
        if rng.random() < 0.35:
            P, Q = Q, P
        mt = str(M) if M < 1000 else "big"
        cases.append("srp %d %d %s %s #Zp%s-%s%s" % (M, v, ptext(P), ptext(Q), mt, shape, ":par" if par else ":int"))

    # ---- 8. defective steps DEEP in the chain with non-unit leading coefficients: operands in x^k (even / sparse
    #         structure: only every k-th subresultant is non-zero, so S_e_optimized runs at d < deg Q with
    #         lc(S_d) not a unit and lc(S_{d-1})^n / lc(S_d)^n not exact), perturbed and mixed-parity variants;
    #         over Z and over Z_p, both argument orders
    def pcompose_xk(a, v, k):
        r = {}
        for key, c in a.items():
            kk = list(key); kk[v] *= k
            r[tuple(kk)] = c
        return r

    LCS_INT = [2, 3, -2, -3, 2, 4, 5, -1, 1, 6]

    def lc_choice(params, par):
        if par and params and rng.random() < 0.7:
            u = rng.choice(params)
            base = padd(pvar(u), pconst(rng.choice([1, -1, 2])))           # y+1, y-1, y+2
            if rng.random() < 0.5:
                base = pneg(base)                                            # -y-1 ...
            if rng.random() < 0.3:
                base = pmul(base, pconst(rng.choice([2, 3])))
            return base
        return pconst(rng.choice(LCS_INT))

    def low_poly(v, params, deg, par):
        """polynomial of degree deg in x_v with a chosen non-unit leading coefficient and small lower coefficients"""
        r = pmul(lc_choice(params, par), pvar(v, deg))
        for i in range(deg):
            if rng.random() < 0.2:
                continue
            if par and rng.random() < 0.35:
                c = rcoef(rng, params, "par")
            else:
                c = pconst(rng.choice([-3, -2, -1, 1, 2, 3, 0]))
            r = padd(r, pmul(c, pvar(v, i)))
        return r

    for _ in range(260 if quick else 500):
        v, params = setup()
        par = rng.random() < 0.4
        k = rng.choice([2, 2, 2, 3, 3, 4, 4, 5, 6])
        a, b = rng.randint(1, 3), rng.randint(1, 3)
        if k >= 4:
            a, b = rng.randint(1, 12 // k), rng.randint(1, 12 // k)
            if max(a, b) * k < 8 and rng.random() < 0.7:
                a = 12 // k
        one_par = par and (k >= 4 or rng.random() < 0.5)
        if one_par:
            params = [rng.choice(params)]      # one parameter: fast (Bareiss) reference beyond dimension 11
        shape = rng.choice(["xk", "xk", "xk", "xk-perturbed", "xk-mixed-parity", "xk-times-linear"])
        p0 = low_poly(v, params, a, par); q0 = low_poly(v, params, b, par)
        P = pcompose_xk(p0, v, k); Q = pcompose_xk(q0, v, k)
        if shape == "xk-perturbed":           # one operand gets a low odd term: gaps at the top of the chain only
            P = padd(P, pmul(pconst(rng.choice([1, -1, 2, 3])), pvar(v, rng.randint(1, k - 1))))
        elif shape == "xk-mixed-parity":      # Q = x^r * q(x^k)
            Q = pmul(Q, pvar(v, rng.randint(1, k - 1)))
            Q = padd(Q, pconst(rng.choice([0, 0, 1, -2])))
        elif shape == "xk-times-linear":      # common linear factor times even parts
            L = padd(pmul(pconst(rng.choice([1, 2, -1])), pvar(v)), pconst(rng.choice([1, -1, 2])))
            if rng.random() < 0.5:
                P = pmul(P, L)
            else:
                P, Q = pmul(P, L), pmul(Q, L)
        m, n = pdeg(P, v), pdeg(Q, v)
        if m < 1 or n < 1 or m + n > ((24 if one_par else 10) if par else 24) or max(m, n) > 13:
            continue
        if rng.random() < 0.4:
            P, Q = Q, P
        kind = "par" if par else "int"
        if rng.random() < 0.3:
            M = rng.choice([3, 5, 7, 13, 101, 1000000007])
            Pr, Qr = pred_mod(P, M), pred_mod(Q, M)
            if pdeg(Pr, v) >= 1 and pdeg(Qr, v) >= 1:
                cases.append("srp %d %d %s %s #Zp-%s%d:%s" % (M, v, ptext(P), ptext(Q), shape, k, kind))
            continue
        emit(v, params, P, Q, "%s%d:%s" % (shape, k, kind))

    # ---- 6. discriminant as polyxx computes it
    for _ in range(50 if quick else 200):
        v, params = setup()
        m = rng.randint(1, 4 if quick else 5)
        kind = rng.choice(["int", "par", "bigint"]) if m <= 4 else "int"
        P = rpoly(rng, v, params, m, kind)
        if rng.random() < 0.25 and m >= 2:
            L = rpoly(rng, v, params, 1, "int")
            P = pmul(pmul(L, L), rpoly(rng, v, params, m - 2, kind))    # repeated factor: discriminant 0
        if pdeg(P, v) >= 1:
            cases.append("disc %d %s #disc:%s" % (v, ptext(P), kind))

    # ---- 9. operands whose STORED LAYOUT depends on the variable order (seeded change C04-4: external_clean on the wrong
    #         operand).  The check re-runs every case with VERIF_STALE=1: all operands are external polynomials built under
    #         the reversed order and every API call of the driver gets at least one operand nobody has touched since.  The
    #         layout of an operand differs between the two orders exactly when it contains a parameter, so the class pins
    #         down WHICH operand is order-sensitive (only the second, only the first, both with one shared parameter, both
    #         with two parameters - nested coefficients are permuted too -, disjoint parameters), for every main variable
    #         (x0: the default order; x1, x2: orders that are not sorted by index), small degrees in both orders, over Z
    #         and over Z_p.  Placed last: it does not shift the random stream of the classes above.
    def order_poly(v, ps, deg):
        """degree deg in x_v; every listed parameter occurs, the leading or the constant coefficient is parametric"""
        for _ in range(50):
            r = rpoly(rng, v, ps, deg, "par" if ps else "int", sparse=rng.choice([0, 0.3]))
            if all(any(k[u] for k in r) for u in ps) and pdeg(r, v) == deg:
                return r
        r = rpoly(rng, v, [], deg, "int", sparse=0)
        for u in ps:
            r = padd(r, pmul(pvar(u, rng.choice([1, 2])), pvar(v, rng.choice([0, deg]))))
        return r

    DEGS = [(1, 1), (2, 1), (1, 2), (2, 2), (3, 2), (2, 3), (3, 1), (1, 3), (3, 3)]
    for v in range(NV):
        u1, u2 = [i for i in range(NV) if i != v]
        for shape, pp, qp in [("second", [], [u1]), ("second", [], [u2]), ("second2", [], [u1, u2]),
                              ("first", [u1], []), ("first", [u2], []), ("first2", [u1, u2], []),
                              ("shared", [u1], [u1]), ("shared", [u2], [u2]), ("both2", [u1, u2], [u1, u2]),
                              ("disjoint", [u1], [u2]), ("disjoint", [u2], [u1])]:
            for _ in range(2 if quick else 6):
                m, n = rng.choice(DEGS)
                P = order_poly(v, pp, m); Q = order_poly(v, qp, n)
                if rng.random() < 0.3:
                    M = rng.choice([3, 7, 13, 101, 1000000007])
                    Pr, Qr = pred_mod(P, M), pred_mod(Q, M)
                    if pdeg(Pr, v) >= 1 and pdeg(Qr, v) >= 1 and (params_used(Pr, Pr, pp) or not pp) and (params_used(Qr, Qr, qp) or not qp):
                        cases.append("srp %d %d %s %s #Zp-order-%s-x%d" % (M, v, ptext(P), ptext(Q), shape, v))
                        continue
                emit(v, sorted(set(pp + qp)), P, Q, "order-%s-x%d" % (shape, v))
    return cases


def tag(case):
    t = case.split()
    return t[-1][1:] if t[-1].startswith("#") else t[0]


def nontrivial(case):
    """both operands have degree >= 1 by construction; non-trivial = not a pair of linear polynomials"""
    t = case.split()
    if t[0] == "disc":
        return "^2" in t[2] or "^3" in t[2] or "^4" in t[2] or "^5" in t[2]
    if t[0] == "srp":
        t = t[1:]
    v = t[1]
    return any(("x%s^%d" % (v, e)) in t[2] + " " + t[3] for e in range(2, 12))


RULE = ("seeded structured generator gen/C04.py (corpus first): all ordered degree pairs, planted common factors, "
        "remainder sequences with degree jumps, planted specialisations, big univariate pairs, discriminants; "
        "distinct = distinct case line; non-trivial = some operand of degree >= 2 in the main variable")
ASSUMPTIONS = ["operands are non-constant polynomials with the same top variable (documented precondition of the API)",
               "coefficient rings: Z and prime fields Z_p (p in 2,3,5,7,13,101,1000000007,2^61-1); composite moduli are not exercised",
               "reference determinants by Laplace expansion are limited to dimension m+n <= 13 (sparse small integers), 10 (big integers), 9 (parametric)"]
TRUSTED = ["polyio text I/O (harness/polyio.h, ocaml/io.ml) shared with the other polynomial properties"]
EXPLANATION = ("three-way comparison per case: libpoly's resultant (fresh/used/aliased outputs), psc list and subresultant list "
               "vs. the Sylvester-determinant reference (Sylvester.v, proved equal to MathComp's \\det / resultant) vs. the "
               "faithful model of subres.c (Subres.v); plus the specialisation claim on sampled integer assignments")


def explain(case, c_out, m_out):
    return "model verdict: %s" % m_out
