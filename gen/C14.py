HARNESS = "c14"
LEVEL = "proof"
"""C14 case generator: finite-field feasibility sets, roots in Z_p, Z_p constraints, reduce_degree_Zp.
Every random choice comes from the one `rng` passed in.

Case lines (see harness/c14.c):
  obs M A | point M A | fromint0 M inv | bin M A B | contains M A v.. | pick M A
  roots M c0..cn | rootsR M c0..cn (forced Rabin, only with VERIF_HOOK_RABIN=1) | rootsc M n c0..cn <cert>
  cons M EQ|NE neg yv zv P k a1..ak C <cert|0> T <term> | red M c0..cn | redm M <term>
set literal L:e1,e2 / I:e1,e2 ; cert = lc k r1..rk q b1 c1..bq cq ; term = N c | P v n t0..t(n-1)
"""
import os
import itertools

HOOK = os.environ.get("VERIF_HOOK_RABIN", "1") == "1"   # the hook is committed in /repo (44a44d5); set VERIF_HOOK_RABIN=0 for a tree without it

P61 = 2**61 - 1
P89 = 2**89 - 1
P127 = 2**127 - 1
SMALL_EXH_QUICK = [2, 3, 5]
SMALL_EXH_THOROUGH = [2, 3, 5, 7]
SAMPLED_SMALL = [13, 101, 997]          # below FIELD_ORDER_LIMIT (1000): brute-force root finding
SAMPLED_BIG = [1009, 10007, 2**31 - 1, P61, P89, P127]   # randomised root finding; 10007 > the 10000 of _invert

ASSUMPTIONS = [
    "assignment values and probe values are canonical representatives of Z_p (the library asserts operands in the ring)",
    "unsigned long is 64 bit (ULONG_MAX = 2^64-1 in fs_size_approx)",
    "roots_find_Zp is called with polynomials of positive degree (constants go through the constraint function)",
]
TRUSTED = ["for fields above the brute-force limit the expected root set comes from a generator-supplied factorisation "
           "certificate that the model CHECKS (multiply back, Euler criterion) - theorem C14_certificate_complete"]
RULE = ("exhaustive sweep of all ordered pairs of subsets x 4 representation combinations for the smallest fields, "
        "all monic polynomials of degree <= 3 over p <= 7, then seeded structured cases (corpus first); "
        "distinct = distinct case line; non-trivial per gen.nontrivial()")


def lb(p): return -((p - 1) // 2)
def ub(p): return p // 2


def canon(v, p):
    r = v % p
    return r - p if r > ub(p) else r


def field(p): return list(range(lb(p), ub(p) + 1))


def render_elem(rng, v, p, noisy):
    """an arbitrary integer congruent to v"""
    if noisy and rng.random() < 0.3:
        return v + p * rng.choice([-2, -1, 1, 2, 3])
    return v


def lit(rng, inv, elems, p, noisy=True):
    es = list(elems)
    if noisy:
        rng.shuffle(es)
        if es and rng.random() < 0.25:
            es.append(rng.choice(es))          # duplicate
    return ("I:" if inv else "L:") + ",".join(str(render_elem(rng, e, p, noisy)) for e in es)


def subsets(p):
    f = field(p)
    for mask in range(1 << p):
        yield [f[i] for i in range(p) if mask >> i & 1]


def boundary_pool(p):
    vals = {0, 1, -1, 2, -2, 3, lb(p), ub(p), lb(p) + 1, ub(p) - 1, lb(p) + 2, ub(p) - 2}
    return sorted(v for v in vals if lb(p) <= v <= ub(p))


def rand_elem(rng, p):
    if rng.random() < 0.6:
        return rng.choice(boundary_pool(p))
    return rng.randint(lb(p), ub(p))


def rand_set(rng, p, maxn):
    n = rng.randint(0, maxn)
    if p <= 4096 and rng.random() < 0.5:
        n = min(n, p)
        return sorted(rng.sample(field(p), n))
    return sorted({rand_elem(rng, p) for _ in range(n)})


def related(rng, p, a):
    """a set related to a: equal, subset, superset, disjoint-ish, complement (small fields), random"""
    k = rng.random()
    a = list(a)
    if k < 0.15:
        return list(a)
    if k < 0.35 and a:
        return sorted(rng.sample(a, rng.randint(0, len(a))))
    if k < 0.55:
        extra = {rand_elem(rng, p) for _ in range(rng.randint(1, 3))}
        return sorted(set(a) | extra)
    if k < 0.7 and p <= 4096:
        return sorted(set(field(p)) - set(a))
    if k < 0.8 and p <= 4096:
        c = sorted(set(field(p)) - set(a))
        if c:
            c.pop(rng.randrange(len(c)))
        if rng.random() < 0.5 and a:
            c.append(rng.choice(a))
        return sorted(set(c))
    return rand_set(rng, p, 6)


# ----------------------------------------------------------------------------- polynomials

def isprime(n):
    if n < 2:
        return False
    for q in (2, 3, 5, 7, 11, 13, 17, 19, 23, 29, 31, 37):
        if n % q == 0:
            return n == q
    d, s = n - 1, 0
    while d % 2 == 0:
        d //= 2
        s += 1
    for a in (2, 3, 5, 7, 11, 13, 17, 19, 23, 29, 31, 37):
        x = pow(a, d, n)
        if x in (1, n - 1):
            continue
        for _ in range(s - 1):
            x = x * x % n
            if x == n - 1:
                break
        else:
            return False
    return True


def pmul(a, b, p):
    r = [0] * (len(a) + len(b) - 1)
    for i, x in enumerate(a):
        for j, y in enumerate(b):
            r[i + j] = (r[i + j] + x * y) % p
    return r


def nonresidue_quadratic(rng, p):
    """(b, c) with b^2 - 4c a quadratic non-residue mod the odd prime p"""
    while True:
        b, c = rng.randint(lb(p), ub(p)), rng.randint(lb(p), ub(p))
        d = (b * b - 4 * c) % p
        if d and pow(d, (p - 1) // 2, p) == p - 1:
            return b, c


def planted(rng, p, maxroots=4):
    """(coeffs canonical, lc, roots with multiplicity, quadratics)"""
    k = rng.choice([0, 1, 1, 2, 2, 3, maxroots])
    pool = [0, 1, -1, 2, lb(p), ub(p), lb(p) + 1, ub(p) - 1]
    roots = []
    for _ in range(k):
        r = rng.choice(pool) if rng.random() < 0.5 else rng.randint(lb(p), ub(p))
        roots.append(r)
        if rng.random() < 0.2:
            roots.append(r)                 # multiple root
    nq = rng.choice([0, 0, 1, 1, 2]) if p > 2 else 0
    if not roots and nq == 0:
        nq = 1 if p > 2 else 0
        if p == 2:
            roots = [1]
    qs = [nonresidue_quadratic(rng, p) for _ in range(nq)]
    lc = rng.choice([1, 1, -1, 2, ub(p), lb(p)]) if rng.random() < 0.7 else rng.randint(1, ub(p))
    if lc % p == 0:
        lc = 1
    f = [lc % p]
    for r in roots:
        f = pmul(f, [(-r) % p, 1], p)
    for (b, c) in qs:
        f = pmul(f, [c % p, b % p, 1], p)
    return [canon(c, p) for c in f], lc, roots, qs


def cert_tokens(lc, roots, qs):
    t = [str(lc), str(len(roots))] + [str(r) for r in roots] + [str(len(qs))]
    for (b, c) in qs:
        t += [str(b), str(c)]
    return t


def noisy_coeffs(rng, cs, p):
    return [c + p * rng.choice([-1, 1, 2]) if rng.random() < 0.2 else c for c in cs]


def roots_cases(rng, tier):
    cases = []
    # all monic polynomials of degree <= 3 over p <= 7
    for p in (2, 3, 5, 7):
        for d in (1, 2, 3):
            for lower in itertools.product(field(p), repeat=d):
                cs = list(lower) + [1]
                cases.append("roots %d %s" % (p, " ".join(map(str, cs))))
                if HOOK:
                    cases.append("rootsR %d %s" % (p, " ".join(map(str, cs))))
    n = 150 if tier == "quick" else 2500
    for _ in range(n):
        p = rng.choice([2, 3, 5, 7, 11, 13, 13, 101, 101, 997, 997])
        if rng.random() < 0.6 and p > 2:
            cs, _, _, _ = planted(rng, p)
        else:
            d = rng.randint(1, 6)
            cs = [rng.randint(lb(p), ub(p)) for _ in range(d)] + [rng.choice([v for v in field(p) if v])]
            if rng.random() < 0.3:
                cs += [0, p][: rng.randint(0, 2)]          # leading coefficients that vanish mod p
        if len([c for c in cs[1:] if c % p]) == 0:
            continue
        cases.append("roots %d %s" % (p, " ".join(map(str, noisy_coeffs(rng, cs, p)))))
        if HOOK and rng.random() < 0.6:
            cases.append("rootsR %d %s" % (p, " ".join(map(str, noisy_coeffs(rng, cs, p)))))
    n = 120 if tier == "quick" else 1500
    for _ in range(n):
        p = rng.choice(SAMPLED_BIG)
        cs, lc, roots, qs = planted(rng, p, maxroots=rng.choice([4, 6]))
        if len(cs) < 2:
            continue
        cases.append("rootsc %d %d %s %s" % (p, len(cs) - 1, " ".join(map(str, noisy_coeffs(rng, cs, p))),
                                             " ".join(cert_tokens(lc, roots, qs))))
    return cases


# ----------------------------------------------------------------------------- constraints

def ypoly(rng, p, value_at, yv, zv):
    """term in y, z (no x) whose value at (yv, zv) is congruent to value_at"""
    k = rng.random()
    if k < 0.35:
        return "N %d" % value_at, False
    # t(y,z) = sum a_j(z) y^j ; constant term corrected
    ny = rng.randint(1, 3)
    coefs = []
    total = 0
    for j in range(ny):
        if rng.random() < 0.5:
            a = rng.randint(lb(p), ub(p)) if p < 10**6 else rng.choice([0, 1, -1, 2, lb(p), ub(p), rng.randint(lb(p), ub(p))])
            coefs.append(("N", [a]))
            total += a * pow(yv, j, p)
        else:
            nz = rng.randint(1, 3)
            zs = [rng.randint(lb(p), ub(p)) if p < 10**6 else rng.choice([0, 1, -1, 3, ub(p)]) for _ in range(nz)]
            coefs.append(("Z", zs))
            total += sum(c * pow(zv, i, p) for i, c in enumerate(zs)) * pow(yv, j, p)
    # fix the constant term
    corr = canon(value_at - total, p)
    kind, vals = coefs[0]
    vals[0] = canon(vals[0] + corr, p)
    parts = []
    for kind, vals in coefs:
        if kind == "N":
            parts.append("N %d" % vals[0])
        else:
            parts.append("P 2 %d %s" % (len(vals), " ".join("N %d" % c for c in vals)))
    return "P 1 %d %s" % (len(coefs), " ".join(parts)), True


def cons_case(rng, p, tier):
    yv, zv = rand_elem(rng, p), rand_elem(rng, p)
    big = p >= 1000
    if big or (p > 2 and rng.random() < 0.5):
        cs, lc, roots, qs = planted(rng, p)
    else:
        d = rng.randint(1, 5)
        cs = [rng.randint(lb(p), ub(p)) for _ in range(d + 1)]
        lc = roots = qs = None
    k = rng.random()
    if not big:
        if k < 0.08:
            cs = [0] * len(cs)                      # vanishes identically under the assignment
        elif k < 0.16:
            cs = [rng.choice([v for v in field(p) if v] or [1])] + [0] * (len(cs) - 1)   # non-zero constant
        elif k < 0.24:
            cs = cs + [0]                           # leading coefficient vanishes under the assignment
    terms = []
    ok_top = False
    for i, c in enumerate(cs):
        t, isp = ypoly(rng, p, c, yv, zv)
        terms.append(t)
    # make sure x is the main variable of A mod p: some leaf at x-degree >= 1 must be non-zero mod p
    def leafs(t):
        toks = t.split()
        return [int(toks[i + 1]) for i in range(len(toks)) if toks[i] == "N"]
    if not any(any(v % p for v in leafs(t)) for t in terms[1:]):
        # add (y - yv) * x^n : vanishes under the assignment, keeps x the main variable
        if yv % p == 0:
            terms.append("P 1 2 N 0 N 1")
        else:
            terms.append("P 1 2 N %d N 1" % canon(-yv, p))
    term = "P 0 %d %s" % (len(terms), " ".join(terms))
    cond = rng.choice(["EQ", "NE"])
    neg = rng.randint(0, 1)
    probes = []
    if p > 64 or rng.random() < 0.3:
        pool = boundary_pool(p) + ([canon(r, p) for r in roots] if roots else [])
        probes = [rng.choice(pool) if rng.random() < 0.7 else rng.randint(lb(p), ub(p)) for _ in range(rng.randint(1, 5))]
    cert = "0"
    if big:
        # certificate for the polynomial obtained under the assignment (degree > 0 guaranteed: lc != 0)
        cert = " ".join(cert_tokens(lc, roots, qs))
    return "cons %d %s %d %d %d P %d %s C %s T %s" % (p, cond, neg, yv, zv, len(probes),
                                                     " ".join(map(str, probes)), cert, term)


# ----------------------------------------------------------------------------- reduce degree

def red_case(rng, p):
    k = rng.random()
    if k < 0.15:
        d = rng.randint(0, max(0, p - 1))
    elif k < 0.3:
        d = rng.choice([p, p - 1, p + 1, 2 * p - 1, 2 * p, 2 * p - 2])
    else:
        d = rng.randint(p, 3 * p + 3)
    d = min(d, 60)
    cs = []
    for _ in range(d + 1):
        cs.append(0 if rng.random() < 0.3 else rng.randint(lb(p), ub(p)))
    if rng.random() < 0.8:
        cs[-1] = rng.choice([v for v in field(p) if v]) if p < 4096 else 1
    return "red %d %s" % (p, " ".join(map(str, noisy_coeffs(rng, cs, p))))


# ----------------------------------------------------------------------------- main

def generate(rng, tier, corpus_only=False):
    cases = []
    exh = SMALL_EXH_QUICK if tier == "quick" else SMALL_EXH_THOROUGH
    # 1. exhaustive: all ordered pairs of subsets x 4 representation combinations (union + intersect with status)
    for p in exh:
        subs = list(subsets(p))
        for a in subs:
            for inv in (False, True):
                cases.append("obs %d %s" % (p, lit(rng, inv, a, p)))
                cases.append("point %d %s" % (p, lit(rng, inv, a, p)))
                cases.append("contains %d %s %s" % (p, lit(rng, inv, a, p),
                                                    " ".join(str(v + p * rng.choice([0, 0, 1, -1, 2])) for v in field(p))))
                if (len(a) > 0) != inv or (0 < len(a) < p):
                    cases.append("pick %d %s" % (p, lit(rng, inv, a, p)))
        noisy = p <= 5
        for a in subs:
            for b in subs:
                for ia in (False, True):
                    for ib in (False, True):
                        cases.append("bin %d %s %s" % (p, lit(rng, ia, a, p, noisy), lit(rng, ib, b, p, noisy)))
        # same object passed twice
        for a in subs:
            for ia in (False, True):
                l = lit(rng, ia, a, p, False)
                cases.append("bin %d %s %s" % (p, l, l))
    cases.append("fromint0 7 0")
    cases.append("fromint0 %d 1" % P89)

    # 2. sampled set algebra
    n = 1500 if tier == "quick" else 20000
    for _ in range(n):
        p = rng.choice([7, 11, 13, 13, 101, 101, 997, 1009, 1009, 2**31 - 1, P61, P61, 2**64 + 13, P89, P89, P127])
        maxn = rng.choice([3, 6, 12]) if p > 4096 else rng.choice([3, 6, min(p, 20), min(p, 110)])
        a = rand_set(rng, p, maxn)
        b = related(rng, p, a)
        ia, ib = rng.random() < 0.5, rng.random() < 0.5
        k = rng.random()
        if k < 0.55:
            cases.append("bin %d %s %s" % (p, lit(rng, ia, a, p), lit(rng, ib, b, p)))
        elif k < 0.65:
            cases.append("obs %d %s" % (p, lit(rng, ia, a, p)))
        elif k < 0.72:
            cases.append("point %d %s" % (p, lit(rng, ia, a, p)))
        elif k < 0.85:
            vs = [rand_elem(rng, p) + p * rng.choice([0, 0, 0, 1, -1, 5]) for _ in range(6)] + \
                 [e + p * rng.choice([0, 1, -2]) for e in a[:4]]
            cases.append("contains %d %s %s" % (p, lit(rng, ia, a, p), " ".join(map(str, vs))))
        else:
            if ia:
                # complemented: make the 0, 1, -1, 2, ... scan run some steps
                steps = rng.randint(0, 7)
                scan = [0]
                for i in range(1, 10):
                    scan += [i, -i]
                a = sorted(set(a) | {canon(v, p) for v in scan[:steps]})
            if (ia and len(set(a)) < p) or (not ia and a):
                cases.append("pick %d %s" % (p, lit(rng, ia, a, p)))
    # complement materialisation above the 10000 limit of the pinned _invert, and below it
    for p in ([9973, 10007] if tier == "quick" else [997, 9973, 10007, 10009]):
        f = field(p)
        h = p // 2 + 40
        a = f[:h]
        b = f[20:20 + h]
        cases.append("bin %d %s %s" % (p, lit(rng, False, a, p, False), lit(rng, True, b, p, False)))
        cases.append("bin %d %s %s" % (p, lit(rng, True, b, p, False), lit(rng, False, a, p, False)))

    # 3. roots
    cases += roots_cases(rng, tier)

    # 4. constraints
    n = 500 if tier == "quick" else 6000
    for _ in range(n):
        p = rng.choice([2, 3, 3, 5, 5, 7, 7, 13, 13, 101, 997, 1009, 1009, 10007, P61, P89, P127])
        cases.append(cons_case(rng, p, tier))

    # 5. reduce degree
    n = 300 if tier == "quick" else 4000
    for _ in range(n):
        p = rng.choice([2, 2, 3, 3, 5, 5, 7, 11, 13, 101, P61])
        cases.append(red_case(rng, p))
    n = 150 if tier == "quick" else 1500
    for _ in range(n):
        p = rng.choice([2, 2, 3, 3, 3, 5])
        cases.append("redm %d %s" % (p, rand_term(rng, p, 0, 3 * p + 1)))
    # the main-variable part cancels under x^p = x and leaves high powers of the lower variables
    cases.append("redm 3 P 0 4 P 1 4 N 0 N 0 N 0 N 1 N -1 N 0 N 1")          # x^3 - x + y^3
    cases.append("redm 5 P 0 10 P 1 8 N 0 N 0 N 0 N 0 N 0 N 0 N 0 N 1 N -1 N 0 N 0 N 0 N 0 N 0 N 0 N 0 N 1")   # x^9 - x + y^7
    n = 200 if tier == "quick" else 2000
    for _ in range(n):
        p = rng.choice([2, 3, 3, 3, 5, 5])
        cases.append("redm %d %s" % (p, cancel_term(rng, p, 0)))
    # coefficients that are multiples of the vanishing polynomial y^p - y (z^p - z): non-zero as polynomials, zero
    # after reduction - as LEADING coefficient (degree must drop), as all non-constant coefficients (the result is
    # a constant / a polynomial in a lower variable), and nested
    cases.append("redm 5 P 0 3 N 3 N 1 P 1 6 N 0 N -1 N 0 N 0 N 0 N 1")      # (y^5 - y) x^2 + x + 3
    cases.append("redm 5 P 0 2 N 2 P 1 6 N 0 N -1 N 0 N 0 N 0 N 1")          # (y^5 - y) x + 2
    n = 250 if tier == "quick" else 2500
    for _ in range(n):
        p = rng.choice([2, 3, 3, 5, 5])
        cases.append("redm %d %s" % (p, vanishing_term(rng, p)))
    return cases


def vanishing_poly(rng, p, var):
    """(v^p - v) * q(v) as a term in the variable `var` (q of degree <= 2, numeral coefficients, sometimes with a
    coefficient that is itself a multiple of the next variable's vanishing polynomial added on top)"""
    q = [rng.randint(lb(p), ub(p)) for _ in range(rng.randint(1, 3))]
    if all(c % p == 0 for c in q):
        q[0] = 1
    cs = [0] * (len(q) + p)
    for i, c in enumerate(q):
        cs[i + 1] -= c
        cs[i + p] += c
    parts = ["N %d" % canon(c, p) for c in cs]
    if var < 2 and rng.random() < 0.3:
        parts[rng.randrange(len(parts))] = vanishing_poly(rng, p, var + 1)
    return "P %d %d %s" % (var, len(parts), " ".join(parts))


def small_term(rng, p, var):
    """a term in var..2 with all exponents < p (already reduced)"""
    if var > 2 or rng.random() < 0.5:
        return "N %d" % rng.randint(lb(p), ub(p))
    n = rng.randint(1, p)
    return "P %d %d %s" % (var, n, " ".join(small_term(rng, p, var + 1) for _ in range(n)))


def vanishing_term(rng, p):
    """sum c_i x^i with degree in x below p (only the recursive branch of coefficient_reduce_Zp runs) whose leading
    coefficients - or all coefficients of positive degree - vanish after reduction"""
    n = rng.randint(2, p) if p > 2 else 2
    k = rng.random()
    parts = [small_term(rng, p, 1) for _ in range(n)]
    if k < 0.45:
        for i in range(rng.randint(1, min(2, n - 1))):
            parts[n - 1 - i] = vanishing_poly(rng, p, 1)           # leading coefficient(s) vanish
    elif k < 0.7:
        for i in range(1, n):
            parts[i] = vanishing_poly(rng, p, 1)                   # everything but the constant vanishes
        if rng.random() < 0.5:
            parts[0] = "N %d" % rng.randint(lb(p), ub(p))
    elif k < 0.85:
        parts[rng.randrange(n)] = vanishing_poly(rng, p, 1)        # an inner / the constant coefficient vanishes
        parts[n - 1] = small_term(rng, p, 1)
    else:
        # the coefficient of y^j inside the leading coefficient vanishes in z
        inner = [small_term(rng, p, 2) for _ in range(rng.randint(2, p) if p > 2 else 2)]
        inner[-1] = vanishing_poly(rng, p, 2)
        parts[n - 1] = "P 1 %d %s" % (len(inner), " ".join(inner))
    if rng.random() < 0.3:
        # the same in a polynomial whose x-degree is >= p as well (both branches)
        parts += ["N 0"] * rng.randint(0, p) + [vanishing_poly(rng, p, 1)]
    return "P 0 %d %s" % (len(parts), " ".join(parts))


def cancel_term(rng, p, var):
    """term in the variables var..2 whose part of positive degree in `var` cancels (mostly completely) under
    v^p = v, while its constant coefficient is again such a term in the next variable: after the fold the
    polynomial collapses to a lower variable that still carries exponents in [p, 3p]"""
    if var == 2 or (var == 1 and rng.random() < 0.3):
        # plain polynomial of high degree in this variable
        d = rng.randint(p, 3 * p)
        cs = [0 if rng.random() < 0.5 else rng.randint(lb(p), ub(p)) for _ in range(d)] + \
             [rng.choice([v for v in field(p) if v])]
        return "P %d %d %s" % (var, len(cs), " ".join("N %d" % c for c in cs))
    maxdeg = rng.randint(p, 3 * p + 1)
    coef = [0] * (maxdeg + 1)
    for j in range(1, p):
        exps = list(range(j, maxdeg + 1, p - 1)) if p > 2 else []
        if p == 2:
            continue
        if len(exps) >= 2 and rng.random() < 0.8:
            k = rng.randint(2, len(exps))
            chosen = rng.sample(exps, k)
            vals = [rng.randint(lb(p), ub(p)) for _ in range(k - 1)]
            vals.append(-sum(vals))
            for e, v in zip(chosen, vals):
                coef[e] = canon(v, p)
    if p == 2:
        exps = list(range(1, maxdeg + 1))
        k = 2 * rng.randint(1, max(1, len(exps) // 2))
        for e in rng.sample(exps, min(k, len(exps) - len(exps) % 2)):
            coef[e] = 1
    if rng.random() < 0.2:
        coef[rng.randint(1, maxdeg)] += 1          # incomplete cancellation: the variable survives
    # make sure the top coefficient is not a literal zero (a shorter term is fine, the harness adds monomials)
    parts = [cancel_term(rng, p, var + 1)] + ["N %d" % c for c in coef[1:]]
    return "P %d %d %s" % (var, len(parts), " ".join(parts))


def rand_term(rng, p, var, maxdeg):
    """random nested term in the variables var..2 with degrees up to maxdeg (above p: reduction has work to do)"""
    if var > 2 or rng.random() < (0.15 if var == 0 else 0.45):
        return "N %d" % (rng.randint(lb(p), ub(p)) + p * rng.choice([0, 0, 0, 1, -1]))
    n = rng.randint(1, maxdeg + 1)
    if rng.random() < 0.5:
        n = min(n, p + 2)
    parts = []
    for i in range(n):
        if rng.random() < 0.35:
            parts.append("N 0")
        else:
            parts.append(rand_term(rng, p, var + 1, maxdeg if var + 1 < 2 else min(maxdeg, 2 * p + 1)))
    return "P %d %d %s" % (var, n, " ".join(parts))


def field_class(m):
    m = int(m)
    if m <= 7:
        return "p%d" % m
    if m < 1000:
        return "small"
    if m < 2**64:
        return "mid" if m < 2**31 else "limb1"
    return "multilimb"


def tag(case):
    t = case.split()
    op = t[0]
    if op == "bin":
        return "bin:%s%s:%s" % (t[2][0], t[3][0], field_class(t[1]))
    if op in ("obs", "point", "pick", "contains"):
        return "%s:%s:%s" % (op, t[2][0], field_class(t[1]))
    if op == "cons":
        return "cons:%s%s:%s" % (t[2], t[3], field_class(t[1]))
    return "%s:%s" % (op, field_class(t[1]) if len(t) > 1 else "")


def nontrivial(case):
    t = case.split()
    if t[0] == "bin":
        return len(t[2]) > 2 or len(t[3]) > 2
    if t[0] in ("roots", "rootsR", "rootsc", "red"):
        return len(t) > 3
    return True


def _sorted_roots(line):
    t = line.split()
    if not t or not t[0].isdigit():
        return line
    try:
        vals = sorted(int(x) for x in t[1:])
    except ValueError:
        return line
    return " ".join([t[0]] + [str(v) for v in vals])


def compare(case, c_out, m_out):
    op = case.split()[0]
    if op == "redm":
        # deg=dx,dy,dz A=<values on K^3> R=<values on K^3>: same function, every degree below p
        t = c_out.split()
        if len(t) != 3 or not t[0].startswith("deg=") or not t[1].startswith("A=") or not t[2].startswith("R="):
            return False
        p = int(case.split()[1])
        return t[1] == m_out and t[2][2:] == m_out[2:] and all(int(d) < p for d in t[0][4:].split(","))
    if m_out.startswith("CHECK"):
        return m_out.startswith("CHECK ok")
    if op in ("roots", "rootsR", "rootsc"):
        # root finding promises a set: order is free (the randomised branch splits in random order)
        return _sorted_roots(c_out) == m_out
    return c_out == m_out


def explain(case, c_out, m_out):
    return "implementation printed `%s`, the verified model expects `%s`" % (c_out, m_out)


def extra_coverage(cases, couts, mouts):
    ops = {}
    for c in cases:
        ops[c.split()[0]] = ops.get(c.split()[0], 0) + 1
    bins = {}
    for c in cases:
        t = c.split()
        if t[0] == "bin" and int(t[1]) <= 7:
            bins[int(t[1])] = bins.get(int(t[1]), 0) + 1
    # 4 * 4^p ordered pairs x representation combinations per field (+ the same-object cases)
    pairs = {q: n for q, n in bins.items() if n >= 4 * 4 ** q}
    scan = [m for m in mouts if m and m.startswith("CHECK ok scan=")]
    res = {
        "ops": ops,
        "exhaustive": True,
        "exhaustive_space": "all ordered pairs of subsets of Z_p x {listed,complemented}^2 x {union,intersect} with status, "
                            "for p in %s (cases per field: %s); all monic polynomials of degree <= 3 over p in {2,3,5,7}"
                            % ([p for p in sorted(pairs)], pairs),
        "pick_scan_agrees": "%d of %d complemented picks equal the model's 0,1,-1,2,.. scan"
                            % (len([m for m in scan if m.endswith("scan=1")]), len([m for m in scan if not m.endswith("scan=-")])),
        "rabin_hook": "on (VERIF_HOOK_RABIN=1): %d forced-Rabin cases on small fields" % ops.get("rootsR", 0) if HOOK
                      else "off: the randomised branch is exercised only for p >= 1009 (certificate-checked)",
    }
    return res
