HARNESS = "c18"
LEVEL = "proof"
"""C18 case generator: HISTORIES of order changes interleaved with operations on external / non-external
polynomials (see harness/c18.c for the command language).  Every random choice comes from `rng`.

The generator keeps its own (untrusted) copy of what every object denotes - a dict monomial -> coefficient - only
to aim the cases: to pick monomials that ADD or REMOVE a term of an already hashed object, to keep products small,
and to know which objects are certainly `compact` (size == capacity in every coefficient array).
lp_polynomial_add_monomial is only issued on compact objects: on others it runs into the size < capacity
defect of coefficient_ensure_capacity, which is property C01's finding, not an order / hash matter."""

NV = 5           # variables x0..x4 take part (the context has x0..x7)


# ---------------------------------------------------------------- tiny polynomial arithmetic (aiming only)
def p_norm(d):
    return {m: c for m, c in d.items() if c != 0}


def p_add(a, b, s=1):
    r = dict(a)
    for m, c in b.items():
        r[m] = r.get(m, 0) + s * c
    return p_norm(r)


def m_mul(m1, m2):
    d = dict(m1)
    for v, e in m2:
        d[v] = d.get(v, 0) + e
    return tuple(sorted(d.items()))


def p_mul(a, b):
    r = {}
    for m1, c1 in a.items():
        for m2, c2 in b.items():
            m = m_mul(m1, m2)
            r[m] = r.get(m, 0) + c1 * c2
    return p_norm(r)


def p_pow(a, n):
    r = {(): 1}
    for _ in range(n):
        r = p_mul(r, a)
    return r


def p_deriv(a, x):
    r = {}
    for m, c in a.items():
        d = dict(m)
        e = d.get(x, 0)
        if e == 0:
            continue
        if e == 1:
            del d[x]
        else:
            d[x] = e - 1
        mm = tuple(sorted(d.items()))
        r[mm] = r.get(mm, 0) + c * e
    return p_norm(r)


def p_vars(a):
    return sorted({v for m in a for v, _ in m})


def m_key(m):
    # the canonical order of the texts: lexicographic on (index, exponent) pairs, a proper prefix is smaller
    return tuple(m)


def p_text(a):
    if not a:
        return "0"
    ms = sorted(a.keys(), key=m_key, reverse=True)
    return "+".join(str(a[m]) + "".join("*x%d^%d" % (v, e) for v, e in m) for m in ms)


def t_text(m, c):
    return str(c) + "".join("*x%d^%d" % (v, e) for v, e in m)


class Order:
    def __init__(self):
        self.l = list(range(8))
        self.top = None
        self.bot = None

    def cmp(self, x, y):
        if x == y:
            return 0
        if x == self.bot:
            return -1
        if y == self.bot:
            return 1
        if x == self.top:
            return 1
        if y == self.top:
            return -1
        xi = self.l.index(x) if x in self.l else -1
        yi = self.l.index(y) if y in self.l else -1
        if xi == yi:
            return x - y
        if xi == -1:
            return 1
        if yi == -1:
            return -1
        return xi - yi

    def topvar(self, a):
        vs = p_vars(a)
        if not vs:
            return None
        t = vs[0]
        for v in vs[1:]:
            if self.cmp(v, t) > 0:
                t = v
        return t


class Obj:
    def __init__(self, den, compact=True):
        self.den = den          # dict or None (unknown: result of gcd / resultant)
        self.ext = False
        self.compact = compact
        self.hashed = False


def rand_mono(rng, nvars=None, maxdeg=3):
    k = rng.choice([0, 1, 1, 2, 2, 3]) if nvars is None else nvars
    vs = sorted(rng.sample(range(NV), min(k, NV)))
    return tuple((v, rng.randint(1, maxdeg)) for v in vs)


def rand_coef(rng):
    return rng.choice([1, -1, 2, -2, 3, 5, -7, 10, 12, 2**rng.randint(5, 70) + 1, -(3**rng.randint(2, 30))]
                      if rng.random() < 0.15 else [1, -1, 1, 2, -2, 3, -3, 4, 5, -6])


def rand_poly(rng, nterms=None):
    n = nterms if nterms is not None else rng.choice([1, 2, 2, 3, 3, 4, 5])
    d = {}
    for _ in range(n):
        d[rand_mono(rng)] = rand_coef(rng)
    return p_norm(d)


def _deg(a):
    return max([sum(e for _, e in m) for m in a] + [0])


def size_ok1(a):
    return a is not None and len(a) <= 6 and _deg(a) <= 4


def size_ok(a, b):
    return (a is not None and b is not None and len(a) * len(b) <= 30 and _deg(a) + _deg(b) <= 7
            and max([abs(c) for c in a.values()] + [0]) < 2**80 and max([abs(c) for c in b.values()] + [0]) < 2**80)


def maybe_const(a):
    return a is None or all(m == () for m in a)


class Hist:
    def __init__(self, rng):
        self.rng = rng
        self.cmds = []
        self.objs = []
        self.o = Order()

    # ---- order commands
    def c_ord(self, perm=None):
        rng = self.rng
        if perm is None:
            k = rng.choice([0, 1, 2, 3, 3, 4, 4, 5, 5, 5])
            perm = rng.sample(range(NV), k)
            if rng.random() < 0.15:
                perm = perm + rng.sample(range(NV, 8), rng.randint(1, 3))
                rng.shuffle(perm)
        self.cmds.append("ord:" + ",".join(map(str, perm)))
        self.o.l = list(perm)

    def c_order_change(self):
        rng = self.rng
        o = self.o
        k = rng.random()
        if k < 0.35:
            self.c_ord()
        elif k < 0.5:
            self.cmds.append("rev")
            o.l.reverse()
        elif k < 0.65:
            un = [v for v in range(NV) if v not in o.l]
            if un:
                v = rng.choice(un)
                self.cmds.append("push:%d" % v)
                o.l.append(v)
            else:
                self.cmds.append("pop")
                o.l.pop()
        elif k < 0.8:
            if o.l:
                self.cmds.append("pop")
                o.l.pop()
            else:
                self.c_ord()
        elif k < 0.86:
            self.cmds.append("clear")
            o.l = []
        elif k < 0.93:
            if o.top is None:
                o.top = rng.randrange(NV)
                self.cmds.append("top:%d" % o.top)
            else:
                o.top = None
                self.cmds.append("top:-")
        else:
            if o.bot is None:
                o.bot = rng.randrange(NV)
                self.cmds.append("bot:%d" % o.bot)
            else:
                o.bot = None
                self.cmds.append("bot:-")

    # ---- objects
    def new(self, den, ext_p=0.4):
        self.cmds.append("new:" + p_text(den))
        self.objs.append(Obj(dict(den)))
        i = len(self.objs) - 1
        if self.rng.random() < ext_p:
            self.ext(i)
        return i

    def ext(self, i):
        self.cmds.append("ext:%d" % i)
        self.objs[i].ext = True

    def pick(self):
        return self.rng.randrange(len(self.objs))

    def fresh(self, i):
        self.cmds.append("fresh:%d" % i)
        src = self.objs[i]
        self.objs.append(Obj(None if src.den is None else dict(src.den)))
        return len(self.objs) - 1

    def copy(self, i):
        self.cmds.append("copy:%d" % i)
        src = self.objs[i]
        n = Obj(None if src.den is None else dict(src.den))
        n.hashed = src.hashed
        self.objs.append(n)
        return len(self.objs) - 1

    def observe(self, i, j):
        for c in self.rng.sample(["eq", "cmp", "heq"], self.rng.randint(1, 3)):
            self.cmds.append("%s:%d:%d" % (c, i, j))
            if c in ("eq", "heq"):
                self.objs[i].hashed = self.objs[j].hashed = True

    def set_result(self, r, den):
        self.objs[r].den = den
        self.objs[r].compact = False

    def arith(self):
        rng = self.rng
        n = len(self.objs)
        a, b = self.pick(), self.pick()
        r = rng.choice([self.pick(), a, b, self.pick()])
        A, B = self.objs[a].den, self.objs[b].den
        op = rng.choice(["add", "add", "sub", "sub", "mul", "mul", "neg", "der", "pow", "addmul", "gcd", "res"])
        if op in ("mul", "addmul") and not size_ok(A, B):
            op = "add"
        if op == "pow" and not (size_ok1(A) and len(A) <= 3):
            op = "neg"
        if op in ("gcd", "res") and not (A and B and size_ok(A, B)):
            op = "sub"
        if op == "addmul" and self.objs[r].den is None:
            op = "add"
        if op in ("add", "sub"):
            if maybe_const(A) and maybe_const(B) and r not in (a, b):
                # coefficient_add / coefficient_sub of two numerals write S->value.num whatever S is (a C19 matter:
                # SEGV when S holds a polynomial); keep the output a numeral in that situation
                r = a
            self.cmds.append("%s:%d:%d:%d" % (op, r, a, b))
            self.set_result(r, None if A is None or B is None else p_add(A, B, 1 if op == "add" else -1))
        elif op == "mul":
            self.cmds.append("mul:%d:%d:%d" % (r, a, b))
            self.set_result(r, p_mul(A, B))
        elif op == "addmul":
            self.cmds.append("addmul:%d:%d:%d" % (r, a, b))
            self.set_result(r, p_add(self.objs[r].den, p_mul(A, B)))
        elif op == "neg":
            self.cmds.append("neg:%d:%d" % (r, a))
            self.set_result(r, None if A is None else p_add({}, A, -1))
        elif op == "der":
            self.cmds.append("der:%d:%d" % (r, a))
            if A is None:
                self.set_result(r, None)
            else:
                x = self.o.topvar(A)
                self.set_result(r, {} if x is None else p_deriv(A, x))
        elif op == "pow":
            e = rng.choice([0, 1, 2, 2, 3])
            if len(A) > 2 and e == 3:
                e = 2
            self.cmds.append("pow:%d:%d:%d" % (r, a, e))
            self.set_result(r, p_pow(A, e))
        else:
            self.cmds.append("%s:%d:%d:%d" % (op, r, a, b))
            self.set_result(r, None)
        return r

    def mono_target(self):
        c = [i for i, o in enumerate(self.objs) if o.compact and o.den is not None]
        return self.rng.choice(c) if c else None

    def mono(self, i, structural=True):
        """in-place lp_polynomial_add_monomial on object i changing its set of monomials"""
        rng = self.rng
        o = self.objs[i]
        k = rng.random()
        if o.den and k < 0.4:
            # remove an existing term
            m = rng.choice(sorted(o.den.keys()))
            c = -o.den[m]
        elif o.den and k < 0.55 and not structural:
            # only change a coefficient
            m = rng.choice(sorted(o.den.keys()))
            c = rand_coef(rng)
            if c == -o.den[m]:
                c += 1
        else:
            m = rand_mono(rng)
            for _ in range(5):
                if m in o.den:
                    m = rand_mono(rng)
            c = rand_coef(rng)
        # the monomial is given with its powers in a random order
        mm = list(m)
        rng.shuffle(mm)
        self.cmds.append("mono:%d:%s" % (i, t_text(mm, c)))
        cancels = (o.den.get(m, 0) + c == 0)
        o.den = p_add(o.den, {m: c})
        if cancels:
            o.compact = False

    def hash_mutate_block(self):
        """the stale-cache shape: hash an object, change its monomial structure in place, compare with an equal
        polynomial built afresh"""
        rng = self.rng
        i = self.pick()
        self.cmds.append(rng.choice(["hash:%d" % i, "heq:%d:%d" % (i, self.pick()), "eq:%d:%d" % (i, self.pick())]))
        self.objs[i].hashed = True
        if rng.random() < 0.3:
            self.c_order_change()
        k = rng.random()
        o = self.objs[i]
        if k < 0.4 and o.compact and o.den is not None:
            self.mono(i)
        elif k < 0.55:
            j = self.pick()
            self.cmds.append("assign:%d:%d" % (i, j))
            if i != j:
                o.den = None if self.objs[j].den is None else dict(self.objs[j].den)
                o.compact = True
        elif k < 0.6:
            self.cmds.append("vmove:%d" % i)
            o.den = {}
            o.compact = True
        else:
            # an operation writing into the hashed object
            b = self.pick()
            A, B = o.den, self.objs[b].den
            op = rng.choice(["add", "sub", "mul", "addmul", "neg", "der", "other", "other"])
            if op in ("mul", "addmul") and not size_ok(A, B):
                op = "add"
            if op == "other":
                self.other_writer(i, b)
            elif op in ("add", "sub"):
                self.cmds.append("%s:%d:%d:%d" % (op, i, i, b))
                self.set_result(i, None if A is None or B is None else p_add(A, B, 1 if op == "add" else -1))
            elif op == "mul":
                self.cmds.append("mul:%d:%d:%d" % (i, b, i))
                self.set_result(i, p_mul(A, B))
            elif op == "addmul":
                self.cmds.append("addmul:%d:%d:%d" % (i, b, b))
                self.set_result(i, p_add(A, p_mul(B, B)) if size_ok(B, B) and A is not None else None)
                if not (size_ok(B, B) and A is not None):
                    self.cmds.pop()
                    self.cmds.append("neg:%d:%d" % (i, i))
                    self.set_result(i, None if A is None else p_add({}, A, -1))
            elif op == "neg":
                self.cmds.append("neg:%d:%d" % (i, i))
                self.set_result(i, None if A is None else p_add({}, A, -1))
            else:
                self.cmds.append("der:%d:%d" % (i, i))
                if A is None:
                    self.set_result(i, None)
                else:
                    x = self.o.topvar(A)
                    self.set_result(i, {} if x is None else p_deriv(A, x))
        if rng.random() < 0.3:
            self.c_order_change()
        k = self.fresh(i)
        self.observe(i, k)

    def other_writer(self, i, b):
        """the less common in-place writers of polynomial.c, with the (already hashed) object i as output"""
        rng = self.rng
        A, B = self.objs[i].den, self.objs[b].den
        op = rng.choice(["cont", "pp", "reductum", "lcm", "submul", "mulc", "shl", "pow"])
        if op in ("lcm", "submul") and not size_ok(A, B):
            op = "mulc"
        if op == "pow" and not (size_ok1(A) and len(A) <= 3):
            op = "mulc"
        if op == "shl" and not self.objs[i].compact:
            # lp_polynomial_shl in place goes through coefficient_ensure_capacity: same C01 matter as `mono`
            op = "mulc"
        if op in ("cont", "pp", "reductum"):
            self.cmds.append("%s:%d:%d" % (op, i, i))
            self.set_result(i, None)
        elif op == "lcm":
            self.cmds.append("lcm:%d:%d:%d" % (i, i, b))
            self.set_result(i, None)
        elif op == "submul":
            self.cmds.append("submul:%d:%d:%d" % (i, b, b if size_ok(B, B) else i))
            self.set_result(i, None)
        elif op == "mulc":
            k = rng.choice([0, 1, -1, 2, -3, 7, 2**64 + 1])
            self.cmds.append("mulc:%d:%d:%d" % (i, i, k))
            self.set_result(i, None if A is None else p_norm({m: c * k for m, c in A.items()}))
        elif op == "shl":
            self.cmds.append("shl:%d:%d:%d" % (i, i, rng.choice([0, 1, 2])))
            self.set_result(i, None)
        else:
            e = rng.choice([0, 2, 2, 3]) if len(A) <= 2 else rng.choice([0, 2])
            self.cmds.append("pow:%d:%d:%d" % (i, i, e))
            self.set_result(i, p_pow(A, e))

    def gcd_block(self):
        rng = self.rng
        g = rand_poly(rng, rng.choice([1, 2, 2, 3]))
        h1 = rand_poly(rng, rng.choice([1, 2]))
        h2 = rand_poly(rng, rng.choice([1, 2]))
        if not (size_ok(g, h1) and size_ok(g, h2)):
            return
        ig, i1, i2 = self.new(g), self.new(h1), self.new(h2)
        self.cmds.append("mul:%d:%d:%d" % (i1, ig, i1))
        self.set_result(i1, p_mul(g, h1))
        if rng.random() < 0.7:
            self.c_order_change()
        self.cmds.append("mul:%d:%d:%d" % (i2, i2, ig))
        self.set_result(i2, p_mul(g, h2))
        if rng.random() < 0.7:
            self.c_order_change()
        r = rng.choice([ig, self.pick()])
        if r in (i1, i2):
            r = ig
        op = rng.choice(["gcd", "gcd", "res"])
        self.cmds.append("%s:%d:%d:%d" % (op, r, i1, i2))
        self.set_result(r, None)

    def equal_routes_block(self):
        """the same polynomial built along two routes under two orders must be eq / hash-equal"""
        rng = self.rng
        a, b = rand_poly(rng), rand_poly(rng)
        if not size_ok(a, b):
            return
        ia, ib = self.new(a), self.new(b)
        op = rng.choice(["add", "mul", "sub"])
        r1 = self.new({}, ext_p=0.5)
        self.cmds.append("%s:%d:%d:%d" % (op, r1, ia, ib))
        res = p_mul(a, b) if op == "mul" else p_add(a, b, 1 if op == "add" else -1)
        self.set_result(r1, res)
        if rng.random() < 0.5:
            self.cmds.append("hash:%d" % r1)
        self.c_order_change()
        if rng.random() < 0.5:
            self.c_order_change()
        # second route: from the text of the result, or by the same operation under the new order
        if rng.random() < 0.5:
            r2 = self.new(res)
        else:
            r2 = self.new({}, ext_p=0.5)
            if op == "sub":
                self.cmds.append("neg:%d:%d" % (r2, ib))
                self.cmds.append("add:%d:%d:%d" % (r2, r2, ia))
            else:
                self.cmds.append("%s:%d:%d:%d" % (op, r2, ib, ia))
            self.set_result(r2, res)
        self.observe(r1, r2)

    def build(self, nsteps):
        rng = self.rng
        self.c_ord()
        for _ in range(rng.randint(2, 3)):
            self.new(rand_poly(rng))
        for _ in range(nsteps):
            k = rng.random()
            if len(self.objs) > 40 or len(self.cmds) > 120:
                break
            if k < 0.2:
                self.c_order_change()
            elif k < 0.25:
                self.new(rand_poly(rng))
            elif k < 0.29:
                self.copy(self.pick())
            elif k < 0.34:
                i = self.pick()
                self.observe(i, self.fresh(i))
            elif k < 0.38:
                self.ext(self.pick())
            elif k < 0.41:
                i, j = self.pick(), self.pick()
                self.cmds.append("assign:%d:%d" % (i, j))
                if i != j:
                    self.objs[i].den = None if self.objs[j].den is None else dict(self.objs[j].den)
                    self.objs[i].compact = True
            elif k < 0.44:
                i, j = self.pick(), self.pick()
                self.cmds.append("swap:%d:%d" % (i, j))
                oi, oj = self.objs[i], self.objs[j]
                oi.den, oj.den = oj.den, oi.den
                oi.compact, oj.compact = oj.compact, oi.compact
                oi.hashed, oj.hashed = oj.hashed, oi.hashed
            elif k < 0.47:
                self.cmds.append("ens:%d" % self.pick())
            elif k < 0.62:
                self.arith()
            elif k < 0.67:
                i = self.pick()
                self.cmds.append("hash:%d" % i)
                self.objs[i].hashed = True
            elif k < 0.73:
                i = self.mono_target()
                if i is not None:
                    self.mono(i, structural=rng.random() < 0.7)
            elif k < 0.8:
                self.observe(self.pick(), self.pick())
            elif k < 0.9:
                self.hash_mutate_block()
            elif k < 0.95:
                self.equal_routes_block()
            else:
                self.gcd_block()
        return " ".join(self.cmds)


# ---------------------------------------------------------------- cross-order cases (harness: xorder)
XV = 4   # variables x0..x3 take part in the cross-order cases


def x_orders(rng, used):
    """orders as digit strings: the default, its reverse, permutations that disagree with the ids, partial lists
    (only some of the polynomial's variables listed, or only foreign ones), nothing listed"""
    used = sorted(set(used)) or [0]
    allv = list(range(XV + 1))
    out = ["".join(map(str, allv)), "".join(map(str, reversed(allv)))]
    out.append("".join(map(str, reversed(used))))
    for _ in range(rng.randint(2, 4)):
        k = rng.random()
        if k < 0.3:
            p = allv[:]
            rng.shuffle(p)
        elif k < 0.55:
            p = rng.sample(used, rng.randint(1, len(used)))
        elif k < 0.7:
            p = rng.sample(allv, rng.randint(1, len(allv)))
        elif k < 0.8:
            p = [v for v in allv if v not in used]
            rng.shuffle(p)
        elif k < 0.9:
            p = used[:]
            rng.shuffle(p)
            p = p + [v for v in allv if v not in used][:rng.randint(0, 2)]
        else:
            p = []
        out.append("".join(map(str, p)) or "-")
    if rng.random() < 0.5:
        out.append("-")
    rng.shuffle(out)
    return out


def x_mono(rng, vs, maxdeg=2):
    k = rng.randint(0, min(2, len(vs)))
    return tuple((v, rng.randint(1, maxdeg)) for v in sorted(rng.sample(vs, k)))


def x_poly(rng, vs, nterms=None, maxdeg=2):
    n = nterms or rng.choice([1, 2, 2, 3])
    d = {}
    for _ in range(n):
        d[x_mono(rng, vs, maxdeg)] = rng.choice([1, -1, 1, 2, -2, 3, -3, 5])
    return p_norm(d)


def val_rational(rng):
    k = rng.random()
    if k < 0.45:
        return "z:%d" % rng.choice([0, 1, -1, 2, -2, 3, 5, -7])
    if k < 0.75:
        from math import gcd
        while True:
            n, d = rng.randint(-9, 9), rng.choice([2, 3, 4, 5, 7, 10])
            if n != 0 and gcd(n, d) == 1:
                return "q:%d/%d" % (n, d)
    a = rng.choice([1, -1, 3, -3, 5, 7, -9])
    return "d:%d/%d" % (a, rng.choice([1, 2, 3]))


def val_algebraic(rng):
    k = rng.random()
    n = rng.choice([2, 3, 5, 6, 7])
    if k < 0.5:
        return "r:%d,0,1:%d" % (-n, rng.choice([0, 1]))          # -sqrt n / sqrt n
    if k < 0.75:
        return "r:%d,0,0,1:0" % (-n)                             # cube root
    return "r:-1,-1,1:%d" % rng.choice([0, 1])                   # golden ratio and its conjugate


def x_vals(rng, used, algebraic=1, unassigned=None):
    vals = []
    alg_left = algebraic
    for v in range(XV + 1):
        if v == unassigned:
            vals.append("none")
        elif v in used and alg_left > 0 and rng.random() < 0.6:
            vals.append(val_algebraic(rng))
            alg_left -= 1
        elif v in used or rng.random() < 0.3:
            vals.append(val_rational(rng))
        else:
            vals.append("none")
    return vals


def xcase(op, a, b, orders, vals=()):
    return "xorder %s %s %s %d %s%s" % (op, p_text(a), "-" if b is None else p_text(b), len(orders), " ".join(orders),
                                        (" " + " ".join(vals)) if vals else "")


def gen_xorder(rng):
    vs = list(range(XV))
    k = rng.random()
    if k < 0.3:
        # gcd / lcm: a common factor (often a monomial), cofactors over DIFFERENT variable sets
        g = {x_mono(rng, vs): rng.choice([1, 1, 2, -3])} if rng.random() < 0.5 else x_poly(rng, vs, rng.choice([1, 2]))
        v1 = rng.sample(vs, rng.randint(1, 2))
        v2 = rng.sample(vs, rng.randint(1, 2))
        h1, h2 = x_poly(rng, v1, rng.choice([1, 2]), 1), x_poly(rng, v2, rng.choice([1, 2]), 2)
        if rng.random() < 0.15:
            h2 = {}
        a, b = p_mul(g, h1), p_mul(g, h2)
        if rng.random() < 0.5:
            a, b = b, a
        return xcase("gl", a, b, x_orders(rng, p_vars(a) + p_vars(b)))
    if k < 0.4:
        a, b = x_poly(rng, rng.sample(vs, 2)), x_poly(rng, rng.sample(vs, 2))
        return xcase("ar", a, b, x_orders(rng, p_vars(a) + p_vars(b)))
    if k < 0.55:
        sh = rng.sample(vs, 2)
        a = p_add(x_poly(rng, sh, 2), x_poly(rng, vs, 1))
        b = p_add(x_poly(rng, sh, 2), x_poly(rng, rng.sample(vs, 1), 1, 1))
        return xcase("rp", a, b, x_orders(rng, p_vars(a) + p_vars(b)))
    if k < 0.7:
        c = x_poly(rng, rng.sample(vs, rng.randint(1, 2)), rng.choice([1, 1, 2]), 1)
        a = p_mul(c, x_poly(rng, vs, rng.choice([2, 3])))
        if rng.random() < 0.05:
            a = {}
        return xcase("cpd", a, None, x_orders(rng, p_vars(a)))
    if k < 0.9:
        return gen_sgn(rng)
    # real roots in u at an assignment of the other variables
    u = rng.randrange(XV)
    others = rng.sample([v for v in vs if v != u], rng.randint(0, 2))
    a = {}
    for e in range(rng.choice([1, 2, 2, 3]) + 1):
        c = x_poly(rng, others, rng.choice([1, 1, 2]), 1) if others else {(): rng.randint(-4, 4)}
        a = p_add(a, p_mul(c, {((u, e),) if e else (): 1}))
    a = p_norm(a)
    orders = x_orders(rng, p_vars(a) + [u])
    # make sure some orders have u on top
    rest = [v for v in range(XV + 1) if v != u]
    rng.shuffle(rest)
    orders += ["".join(map(str, rest)) or "-", "".join(map(str, rest[:2] + [u]))]
    return xcase("ri", a, None, orders, x_vals(rng, others, algebraic=rng.choice([0, 0, 1]), unassigned=u))


def gen_sgn(rng):
    """sign and value at rational / algebraic points, with the tiny non-zero differences that make the library
    fall back on the resultant-based zero test"""
    vs = list(range(XV))
    k = rng.random()
    if k < 0.45:
        i, j = rng.sample(vs, 2)
        n = rng.choice([2, 3, 5, 7])
        eps = 10 ** rng.choice([9, 9, 12, 7])
        near = "r:%d,0,%d:1" % (-(n * eps + rng.choice([1, -1])), eps)      # sqrt(n +- 1/eps)
        exact = "r:%d,0,1:1" % (-n)
        vals = ["none"] * (XV + 1)
        shape = rng.random()
        if shape < 0.5:
            a = {((i, 1),): 1, ((j, 1),): -1}                               # x_i - x_j
            vals[i], vals[j] = exact, rng.choice([near, near, exact])
        elif shape < 0.75:
            a = {tuple(sorted([(i, 1), (j, 1)])): 1, (): -n}                # x_i x_j - n
            vals[i], vals[j] = exact, rng.choice([near, exact])
        else:
            a = {((i, 2),): eps, ((j, 1),): -1, (): -(n * eps)}             # eps x_i^2 - x_j - n eps  at x_j tiny
            vals[i], vals[j] = exact, rng.choice(["z:0", "q:1/%d" % (eps * 1000), "z:1"])
        if rng.random() < 0.3:
            c = rng.choice([2, -3])
            a = {m: c * v for m, v in a.items()}
        if rng.random() < 0.3:
            l = rng.choice([v for v in vs if v not in (i, j)])
            a = p_mul(a, {((l, 1),): 1, (): 1})
            vals[l] = val_rational(rng)
        return xcase("se", a, None, x_orders(rng, p_vars(a)), vals)
    a = x_poly(rng, rng.sample(vs, rng.randint(1, 3)), rng.choice([1, 2, 3]))
    return xcase("se", a, None, x_orders(rng, p_vars(a)), x_vals(rng, p_vars(a), algebraic=rng.choice([0, 1, 1, 2])))


def generate(rng, tier):
    n = 2400 if tier == "quick" else 16000
    cases = []
    for k in range(n):
        h = Hist(rng)
        cases.append(h.build(rng.choice([4, 8, 8, 12, 12, 16, 24])))
    for k in range(1600 if tier == "quick" else 8000):
        cases.append(gen_xorder(rng))
    return cases


ORDER_CMDS = ("ord", "push", "pop", "rev", "clear", "top", "bot")
WRITERS = ("add", "sub", "mul", "addmul", "neg", "der", "pow", "gcd", "res", "mono", "assign", "vmove",
           "cont", "pp", "reductum", "lcm", "submul", "mulc", "shl")


def features(case):
    cmds = [c.split(":") for c in case.split()]
    f = set()
    hashed = set()
    seen_obj = False
    for c in cmds:
        if c[0] in ("new", "fresh", "copy"):
            seen_obj = True
        if c[0] in ORDER_CMDS and seen_obj:
            f.add("O")
            if c[0] == "ord" and len([x for x in c[1].split(",") if x]) < NV:
                f.add("U")
            if c[0] in ("top", "bot"):
                f.add("T")
        if c[0] == "ext":
            f.add("X")
        if c[0] in ("hash",):
            hashed.add(c[1])
        if c[0] in ("eq", "heq"):
            hashed.add(c[1])
            hashed.add(c[2])
        if c[0] in WRITERS and c[1] in hashed:
            f.add("H")
        if c[0] in ("gcd", "res"):
            f.add("G")
        if c[0] == "mono":
            f.add("M")
        if c[0] in ("eq", "cmp", "heq"):
            f.add("E")
    return f


def tag(case):
    if case.startswith("xorder"):
        return "xo:" + case.split()[1]
    f = features(case)
    return "".join(sorted(f)) or "plain"


def nontrivial(case):
    if case.startswith("xorder"):
        t = case.split()
        return len(set(t[5:5 + int(t[4])])) >= 3
    f = features(case)
    return "O" in f and ("E" in f or "H" in f or "M" in f)


def compare(case, c_out, m_out):
    if m_out.startswith("CHECK"):
        return m_out.startswith("CHECK ok")
    a, b = c_out.split(), m_out.split()
    if len(a) != len(b):
        return False
    for x, y in zip(a, b):
        if x != y and not (y.endswith("?") and x[:-1] == y[:-1]):
            return False
    return True


def explain(case, c_out, m_out):
    if case.startswith("xorder"):
        return "cross-order case: the results under the listed orders (separated by |) are `%s`; verdict of the checker: %s" % (c_out, m_out)
    a, b = (c_out or "").split(";"), (m_out or "").split(";")
    cmds = case.split()
    for k, (x, y) in enumerate(zip(a[1:], b[1:])):
        if not compare("", x, y):
            return "first difference after command %d (%s): implementation `%s`, model `%s` (objects are printed as text/check_order)" % (
                k, cmds[k] if k < len(cmds) else "?", x.strip(), y.strip())
    return "outputs differ in length"


RULE = ("seeded histories and cross-order cases from gen/C18.py (corpus first); distinct = distinct case line; non-trivial = "
        "(history) the variable order changes while objects are live and the history compares, hashes-then-mutates or adds "
        "monomials in place; (cross-order) the operation is run under at least 3 different orders")
ASSUMPTIONS = ["coefficients in Z (ctx->K == lp_Z); one context; exponents < 2^20",
               "non-external operands are re-ordered explicitly (lp_polynomial_ensure_order) before an operation reads them",
               "lp_polynomial_add_monomial is issued only on objects whose coefficient arrays have size == capacity (C01's ensure_capacity finding is out of scope here)",
               "histories: values of gcd / lcm / resultant / cont / pp are taken from the implementation; only their independence of the route is checked",
               "cross-order cases: add, sub, mul, derivative, resultant (Sylvester determinant), cont*pp, sign and value at the assignment, real roots at rational assignments have exact references; gcd, lcm (up to sign, gcd*lcm = +-A*B), prem and real roots at algebraic assignments are required to agree across the orders"]
TRUSTED = ["harness/polyio.h text I/O; the generator's own polynomial arithmetic only aims the cases, it decides no verdict"]
