HARNESS = "c11"
LEVEL = "proof"
"""C12 case generator: feasible sets of polynomial constraints (op fs: 6 sign conditions x 2 polarities, the
complement sweep, the evaluator) and of root constraints (op rc: root indices 0..deg+1 x 6 x 2, the evaluator) on
the polynomials / assignments of C11's generator (gen/C11.py).  Every random choice comes from `rng`."""
import C11

HAND = [c.replace("iso ", "fs ", 1) for c in C11.HAND] + [c.replace("iso ", "rc ", 1) for c in C11.HAND[:10]]


def generate(rng, tier, corpus_only=False):
    # the boundary cases HAND are in corpus/C12.txt, which every run executes first
    n = 330 if tier == "quick" else 3300
    cases = []
    cases += C11.gen_cases(rng, n, "fs", light=True)
    cases += C11.gen_cases(rng, n // 3, "rc", light=True)
    return cases


def tag(case):
    return C11.tag(case)


def nontrivial(case):
    return C11.nontrivial(case)


def explain(case, c_out, m_out):
    return ("harness/c11.c printed the feasible sets / membership bits / evaluator bits of the case; the model re-ran the "
            "extracted sweep of coq/FeasSweep.v on the exact roots and signs and compared: %s" % m_out)


RULE = ("C11's seeded structured generator (products with checked factor structure; sparse polynomials with one "
        "irrational parameter) x 6 sign conditions x 2 polarities (x root indices 0..deg+1 for root constraints); "
        "membership probed at every root, between consecutive roots and beyond the extreme roots")
ASSUMPTIONS = C11.ASSUMPTIONS + ["y is unassigned when a feasible set is requested (the library un-assigns y itself when it probes between roots)"]
TRUSTED = C11.TRUSTED + ["poly::infeasible_regions (C++) is tied to the model by a line-by-line C transcription inside harness/c11.c, not by running the C++ code"]
TIMEOUT = 600
