HARNESS = "c11"
LEVEL = "proof"
STALE_RERUN = True   # every operand is also re-run as a stale external polynomial (see check; harness/c11.c re-creates it per call)
STALE_LIMIT = 120
"""C12 case generator: feasible sets of polynomial constraints (op fs: 6 sign conditions x 2 polarities, the
complement sweep, the evaluator) and of root constraints (op rc: root indices 0..deg+1 x 6 x 2, the evaluator) on
the polynomials / assignments of C11's generator (gen/C11.py).  Every random choice comes from `rng`."""
import C11

HAND = [c.replace("iso ", "fs ", 1) for c in C11.HAND] + [c.replace("iso ", "rc ", 1) for c in C11.HAND[:10]]


def generate(rng, tier, corpus_only=False):
    # the boundary cases HAND are in corpus/C12.txt, which every run executes first
    n = 180 if tier == "quick" else 2000
    cases = []
    cases += C11.gen_cases(rng, n, "fs", light=True)
    cases += C11.gen_cases(rng, n // 3, "rc", light=True)
    return cases


# ------------------------------------------------------------------ the C++ helper poly::infeasible_regions
# The framework's C driver is C only; the real C++ function is exercised here: harness/cxx/c12_cxx.cpp (+ C glue) is
# compiled with g++ against /repo/src/polyxx/*.cpp and the sanitizer build of the C library, kept running, and fed
# every `fs` case; its regions must equal, value by value, the regions of the C transcription in harness/c11.c,
# which the model has compared with its own complement sweep and with the truth at the probes.
import os, subprocess, glob, hashlib
from fractions import Fraction

_CXX = {"state": "unbuilt", "proc": None, "cases": 0, "mismatches": 0, "why": {}, "note": ""}


def _cxx_build():
    import vlib
    src = sorted(glob.glob(os.path.join(vlib.REPO, "src", "polyxx", "*.cpp")))
    mine = [os.path.join(vlib.VERIF, "harness", "cxx", "c12_cxx.cpp"), os.path.join(vlib.VERIF, "harness", "cxx", "c12_glue.c"),
            os.path.join(vlib.VERIF, "harness", "polyio.h"), os.path.join(vlib.VERIF, "harness", "valio.h")]
    clib = vlib.build_clib()
    h = vlib.tree_hash(src + mine + [os.path.join(vlib.REPO, "include", "polyxx")], os.path.basename(clib))
    outd = os.path.join(vlib.BUILD, "cxx-" + h)
    exe = os.path.join(outd, "c12cxx")
    with vlib.Lock("cxx"):
        if os.path.exists(exe):
            return exe
        for d in sorted(glob.glob(os.path.join(vlib.BUILD, "cxx-*")), key=os.path.getmtime, reverse=True)[2:]:
            import shutil
            shutil.rmtree(d, ignore_errors=True)
        os.makedirs(outd, exist_ok=True)
        inc = ["-I" + os.path.join(vlib.REPO, "include"), "-I" + os.path.join(vlib.REPO, "src"), "-I" + os.path.join(vlib.VERIF, "harness")]
        san = ["-O1", "-g", "-fno-omit-frame-pointer", "-fsanitize=address,undefined", "-fno-sanitize-recover=all", "-w"]
        procs, objs = [], []
        for f in src + [mine[0]]:
            o = os.path.join(outd, os.path.basename(f) + ".o")
            objs.append(o)
            procs.append(subprocess.Popen(["g++", "-std=c++11"] + san + inc + ["-c", f, "-o", o], stdout=subprocess.PIPE, stderr=subprocess.STDOUT, text=True))
        o = os.path.join(outd, "glue.o")
        objs.append(o)
        procs.append(subprocess.Popen(["gcc", "-std=gnu99", "-DHAVE_OPEN_MEMSTREAM"] + san + inc + ["-c", mine[1], "-o", o], stdout=subprocess.PIPE, stderr=subprocess.STDOUT, text=True))
        out = ""
        for pr in procs:
            so, _ = pr.communicate()
            if pr.returncode != 0:
                out += so
        if not out:
            pr = subprocess.run(["g++", "-fsanitize=address,undefined"] + objs + [os.path.join(clib, "libpoly.a"), "-lgmpxx", "-lgmp", "-lm", "-o", exe + ".tmp"],
                                stdout=subprocess.PIPE, stderr=subprocess.STDOUT, text=True)
            out = pr.stdout if pr.returncode != 0 else ""
        if out:
            raise RuntimeError(out[-1500:])
        os.rename(exe + ".tmp", exe)
    return exe


def _cxx_start():
    import vlib
    if _CXX["state"] == "unbuilt":
        try:
            _CXX["exe"] = _cxx_build()
            _CXX["state"] = "ok"
        except Exception as e:      # no g++ / polyxx does not compile: the C++ helper is then not exercised (reported)
            _CXX["state"] = "unavailable"
            _CXX["note"] = str(e)[-400:]
            vlib.log("C12: C++ driver for poly::infeasible_regions not available:", _CXX["note"][-200:])
    if _CXX["state"] != "ok":
        return None
    if _CXX["proc"] is None or _CXX["proc"].poll() is not None:
        env = dict(os.environ)
        env.update(vlib.SAN_ENV)
        _CXX["proc"] = subprocess.Popen([_CXX["exe"]], stdin=subprocess.PIPE, stdout=subprocess.PIPE, stderr=subprocess.DEVNULL,
                                        text=True, bufsize=1, env=env)
    return _CXX["proc"]


def _cxx_query(case):
    pr = _cxx_start()
    if pr is None:
        return None
    try:
        pr.stdin.write(case + "\n")
        pr.stdin.flush()
        line = pr.stdout.readline()
    except (BrokenPipeError, OSError):
        line = ""
    if not line.endswith("\n"):
        _CXX["proc"] = None
        return "CRASH"
    return line.rstrip("\n")


def _num(tok):
    """('q', Fraction) | ('a', coeffs, lo, hi) | ('inf', +-1)"""
    if tok == "-inf":
        return ("inf", -1)
    if tok == "+inf":
        return ("inf", 1)
    k, rest = tok.split(":", 1)
    if k == "z":
        return ("q", Fraction(int(rest)))
    if k in ("d", "p"):
        a, n = rest.split("/")
        return ("q", Fraction(int(a), 2 ** int(n)))
    if k == "q":
        a, b = rest.split("/")
        return ("q", Fraction(int(a), int(b)))
    f = rest.split(":")
    dy = lambda s: Fraction(int(s.split("/")[0]), 2 ** int(s.split("/")[1]))
    return ("a", tuple(int(c) for c in f[0].split(",")), dy(f[1]), dy(f[2]))


def _same_value(t1, t2):
    """same real number: both sides come from the same isolation of the same polynomial, so two isolating
    intervals denote the same root iff they overlap; a point equals an isolated root iff it lies inside and is a root"""
    a, b = _num(t1), _num(t2)
    if a[0] != "a" and b[0] != "a":
        return a == b
    if a[0] == "a" and b[0] == "a":
        return a[1] == b[1] and max(a[2], b[2]) < min(a[3], b[3])
    if a[0] != "a":
        a, b = b, a
    if b[0] != "q":
        return False
    q = b[1]
    return a[2] < q < a[3] and sum(c * q ** i for i, c in enumerate(a[1])) == 0


def _regions(toks):
    """tokens 'N sc k (P v | I a ao b bo)* [C bits]' ... -> {sc: [interval]}"""
    res, i = {}, 0
    while i < len(toks):
        if toks[i] != "N":
            i += 1
            continue
        sc, k = toks[i + 1], int(toks[i + 2])
        i += 3
        ivs = []
        for _ in range(k):
            if toks[i] == "P":
                ivs.append(("P", toks[i + 1]))
                i += 2
            else:
                ivs.append(("I", toks[i + 1], toks[i + 2], toks[i + 3], toks[i + 4]))
                i += 5
        res[sc] = ivs
    return res


def _same_regions(cxx_line, c_out):
    ct = c_out.split()
    if "N" not in ct:
        return "no complement in the C output"
    ct = ct[ct.index("N"):]
    if "E" in ct:
        ct = ct[:ct.index("E")]
    rc, rx = _regions(ct), _regions(cxx_line.split())
    if sorted(rc) != sorted(rx):
        return "different sign conditions"
    for sc in rc:
        if len(rc[sc]) != len(rx[sc]):
            return "sc %s: %d regions from C++, %d expected" % (sc, len(rx[sc]), len(rc[sc]))
        for u, v in zip(rc[sc], rx[sc]):
            if u[0] != v[0]:
                return "sc %s: point/interval kind differs" % sc
            if u[0] == "P":
                if not _same_value(u[1], v[1]):
                    return "sc %s: different point" % sc
            elif u[2] != v[2] or u[4] != v[4] or not _same_value(u[1], v[1]) or not _same_value(u[3], v[3]):
                return "sc %s: different interval %s vs %s" % (sc, " ".join(v[1:]), " ".join(u[1:]))
    return None


def compare(case, c_out, m_out):
    ok = m_out.startswith("CHECK ok")
    if not ok or not case.startswith("fs "):
        return ok
    r = _cxx_query(case)
    if r is None:
        return ok
    _CXX["cases"] += 1
    why = "the C++ driver crashed" if r == "CRASH" else ("C++ driver refused the case" if r == "-" else _same_regions(r, c_out))
    if why:
        _CXX["mismatches"] += 1
        _CXX["why"][case] = "poly::infeasible_regions (C++): %s; C++ printed `%s`" % (why, r[:600])
        return False
    return True


def tag(case):
    return C11.tag(case)


def nontrivial(case):
    return C11.nontrivial(case)


def explain(case, c_out, m_out):
    if case in _CXX["why"]:
        return _CXX["why"][case]
    return ("harness/c11.c printed the feasible sets / membership bits / evaluator bits of the case; the model re-ran the "
            "extracted sweep of coq/FeasSweep.v on the exact roots and signs and compared: %s" % m_out)


RULE = ("C11's seeded structured generator (products with checked factor structure; sparse polynomials with one "
        "irrational parameter) x 6 sign conditions x 2 polarities (x root indices 0..deg+1 for root constraints); "
        "membership probed at every root, between consecutive roots and beyond the extreme roots")
ASSUMPTIONS = C11.ASSUMPTIONS + ["y is unassigned when a feasible set is requested (the library un-assigns y itself when it probes between roots)"]
TRUSTED = C11.TRUSTED + ["poly::infeasible_regions (C++) is executed by a separate driver (harness/cxx/, built by gen/C12.py with g++) and compared with the C transcription in harness/c11.c that the model validates; when g++ or polyxx does not build, the C++ function is not exercised (see coverage.cxx_infeasible_regions)"]
TIMEOUT = 2400


def extra_coverage(cases, couts, mouts):
    """how the model side disposed of the cases: checked / skipped (no exact reference available) / out of fuel"""
    d = {}
    for m in mouts:
        k = "none" if m is None else (("accepted by the VERIFIED checker" if m.startswith("CHECK ok verified") else
                                       "accepted by the unverified reference only (outside the checker's scope)" if m.startswith("CHECK ok")
                                       else "rejected") if m.startswith("CHECK") else m.split()[0].lower())
        d[k] = d.get(k, 0) + 1
    roots = {}
    for o in couts:
        if o and o.startswith("R "):
            n = o.split()[1]
            roots[n] = roots.get(n, 0) + 1
    return {"model_disposition": d, "cases_by_number_of_real_roots": roots,
            "cxx_infeasible_regions": {"driver": _CXX["state"], "cases_run_through_the_cxx_function": _CXX["cases"],
                                       "mismatches": _CXX["mismatches"], "note": _CXX["note"]}}
