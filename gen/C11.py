HARNESS = "c11"
LEVEL = "translation_validation"
STALE_RERUN = True   # every operand is also re-run as a stale external polynomial (see check; harness/c11.c re-creates it per call)
STALE_LIMIT = 250
"""C11 case generator: root isolation under a partial assignment (also the source of C12's cases).
Every random choice comes from the one `rng` passed in.

case := iso ORD POLY NA (VAR TOK)* | [lc=.. lin=a;b .. quad=..]      (see harness/c11.c)

Shapes
  S   A = lc(x) * prod (a_i(x) y - b_i(x)) * quad(x, y); the factor structure is passed to the MODEL ONLY (after
      "|"), which multiplies it back before using it.  Aimed at: lc vanishing, coinciding roots (also the same
      number in two representations), vanishing linear coefficients, factors that vanish identically, quadratics
      with negative / zero discriminant, any number of algebraic parameters.
  E   A = sum c_k(x0[,x1]) y^k with at most one irrational parameter; reference by elimination (resultant) +
      exact zero test.  Aimed at: eliminants with spurious roots (conjugates), vanishing eliminants, vanishing
      leading coefficients, irrational roots of irrational-coefficient polynomials.
  H   hand-written boundary cases (also in corpus/C11.txt).
  K   A = N y^k + sum V_j y^j with every V_j vanishing at the assignment: the specialisation (and the eliminant of the
      algebraic coefficients) collapses to the single term c*y^k, whose only root is 0 (see shape_K).
  U   factors a(x) y - b(x) whose parametric leading coefficient evaluates to exactly -1 / +1 under a rational assignment
      (the linear special case of the univariate isolator; see shape_U).
      (D, N, V, Z, A, C: see the functions.)
"""
from fractions import Fraction

# ------------------------------------------------------------------ tiny sparse polynomials {monomial: coeff}
# monomial = tuple of (var, exp) sorted by var


def pconst(c):
    return {(): c} if c else {}


def pvar(i, e=1):
    return {((i, e),): 1}


def padd(p, q):
    r = dict(p)
    for m, c in q.items():
        r[m] = r.get(m, 0) + c
        if r[m] == 0:
            del r[m]
    return r


def pscale(c, p):
    return {m: c * a for m, a in p.items()} if c else {}


def psub(p, q):
    return padd(p, pscale(-1, q))


def mmul(a, b):
    d = dict(a)
    for v, e in b:
        d[v] = d.get(v, 0) + e
    return tuple(sorted(d.items()))


def pmul(p, q):
    r = {}
    for m, c in p.items():
        for n, d in q.items():
            k = mmul(m, n)
            r[k] = r.get(k, 0) + c * d
            if r[k] == 0:
                del r[k]
    return r


def ppow(p, n):
    r = pconst(1)
    for _ in range(n):
        r = pmul(r, p)
    return r


def ptext(p):
    if not p:
        return "0"
    ts = []
    for m in sorted(p, reverse=True):
        ts.append(str(p[m]) + "".join("*x%d^%d" % (v, e) for v, e in m))
    return "+".join(ts)


def pdeg(p, v):
    return max([dict(m).get(v, 0) for m in p] + [0])


def pvars(p):
    return sorted({v for m in p for v, _ in m})


# ------------------------------------------------------------------ values
SQRT2 = "r:-2,0,1:1"
VALS_RAT = ["z:0", "z:1", "z:-1", "z:2", "z:-2", "z:3", "d:1/1", "d:-3/1", "d:5/2", "q:1/3", "q:-2/3", "q:5/7", "z:4"]
VALS_ALG = [SQRT2, "r:-2,0,1:0", "r:-3,0,1:1", "r:-2,0,0,1:0", "r:-1,-1,1:1", "r:-1,-1,1:0",
            "r:1,-3,0,1:0", "r:1,-3,0,1:1", "r:1,-3,0,1:2", "r:-5,0,1:1",
            "a:6,0,-5,0,1:5/2:3/1",        # sqrt2 as a root of (x^2-2)(x^2-3)
            "a:6,0,-5,0,1:13/3:15/3",      # sqrt3 of the same reducible polynomial
            "a:2,-4,-1,2:1/2:3/2",         # 1/2 as an "algebraic" root of (2x-1)(x^2-2)
            "a:2,0,-3,0,1:5/2:3/1",        # sqrt2 of (x^2-1)(x^2-2)
            "r:-2,0,0,0,1:1"]              # 2^(1/4)


ALG_DEG2 = [SQRT2, "r:-2,0,1:0", "r:-3,0,1:1", "r:-3,0,1:0", "r:-1,-1,1:1", "r:-5,0,1:1"]
LIGHT = [False]     # C12 sets this while it generates: quadratic irrationalities only (its subject is the sweep)


def value(rng, palg):
    if rng.random() < palg:
        return rng.choice(ALG_DEG2 + ["a:6,0,-5,0,1:5/2:3/1"]) if LIGHT[0] else rng.choice(VALS_ALG)
    return rng.choice(VALS_RAT)


def small(rng):
    return rng.choice([-3, -2, -1, 1, 1, 2, 3])


def coeff_poly(rng, xs, rich=0.5):
    """a small polynomial in the lower variables"""
    k = rng.random()
    x = pvar(rng.choice(xs))
    if k < 0.25:
        return pconst(small(rng))
    if k < 0.5:
        return padd(pscale(small(rng), x), pconst(rng.choice([0, 0, 1, -1, 2])))
    if k < 0.7:
        return padd(pmul(x, x), pconst(rng.choice([-2, -2, -3, -1, 1, -4])))
    if k < 0.85 and len(xs) > 1:
        a, b = rng.sample(xs, 2)
        return rng.choice([padd(pvar(a), pvar(b)), psub(pvar(a), pvar(b)), pmul(pvar(a), pvar(b)),
                           psub(pmul(pvar(a), pvar(a)), pvar(b))])
    return padd(pmul(x, x), padd(pscale(small(rng), x), pconst(small(rng))))


def pick_vars(rng, nlow):
    idx = rng.sample(range(6), nlow + 1)
    y = idx[-1]
    xs = idx[:-1]
    order = xs[:]
    rng.shuffle(order)
    return xs, y, order + [y]


def mk_case(op, order, A, assign, extra=None):
    s = "%s %s %s %d" % (op, ",".join(map(str, order)), ptext(A), len(assign))
    for v, t in assign:
        s += " %d %s" % (v, t)
    if extra:
        s += " | " + " ".join(extra)
    return s


def tiny_coeff(rng, xs):
    """coefficient polynomials cheap enough for exact arithmetic with two irrational parameters"""
    k = rng.random()
    if k < 0.3 or len(xs) < 2:
        v = rng.choice(xs)
        return rng.choice([pvar(v), padd(pvar(v), pconst(rng.choice([-1, 1, 2]))), pscale(-1, pvar(v)),
                           psub(pmul(pvar(v), pvar(v)), pconst(2))])
    a, b = rng.sample(xs, 2)
    return rng.choice([padd(pvar(a), pvar(b)), psub(pvar(a), pvar(b)), pmul(pvar(a), pvar(b)), pvar(a), pvar(b),
                       psub(pmul(pvar(a), pvar(b)), pconst(2))])


def shape_S(rng):
    nlow = rng.choice([1, 1, 2, 2, 3])
    xs, y, order = pick_vars(rng, nlow)
    Y = pvar(y)
    palg = rng.choice([0.0, 0.5, 0.8])
    assign = [(v, value(rng, palg)) for v in xs]
    # at most two irrational parameters (cost of the exact reference arithmetic), and then quadratic ones
    algs = [i for i, (v, t) in enumerate(assign) if t[0] in "ra"]
    for i in algs[2:]:
        assign[i] = (assign[i][0], rng.choice(VALS_RAT))
    algs = algs[:2]
    two = len(algs) == 2
    if two:
        for i in algs:
            assign[i] = (assign[i][0], rng.choice(ALG_DEG2))
        # sometimes the same number twice
        if rng.random() < 0.25:
            assign[algs[1]] = (assign[algs[1]][0], assign[algs[0]][1])
    coeff = (lambda: tiny_coeff(rng, xs)) if two else (lambda: coeff_poly(rng, xs))
    extra = []
    A = pconst(1)
    # leading coefficient
    k = rng.random()
    if k < 0.35:
        lc = pconst(rng.choice([1, 1, -1, 2, -3]))
    elif k < 0.6:
        lc = coeff()
    else:
        # designed to vanish (or nearly) at the assignment: x^2 - 2, x - c for the assigned c, ...
        v, t = rng.choice(assign)
        lc = rng.choice([psub(pmul(pvar(v), pvar(v)), pconst(2)), psub(pmul(pvar(v), pvar(v)), pconst(3)),
                         padd(pvar(v), pconst(-int(t[2:]))) if t[0] == "z" else psub(pvar(v), pconst(1)),
                         pvar(v)])
    extra.append("lc=" + ptext(lc))
    A = pmul(A, lc)
    nlin = rng.choice([0, 1, 1, 2, 2, 3])
    useq = rng.random() < 0.45
    if two:
        nlin = min(nlin, 2)
    if nlin == 0 and not useq:
        nlin = 1
    bs = []
    for i in range(nlin):
        k = rng.random()
        if k < 0.6 or two:
            a = pconst(rng.choice([1, 1, 1, 2, -1]))
        else:
            a = coeff()
        k = rng.random()
        if bs and k < 0.3:
            # coincide with an earlier root under the assignment: b' = b + (something vanishing) or the same
            v, t = rng.choice(assign)
            van = {"r:-2,0,1:1": psub(pmul(pvar(v), pvar(v)), pconst(2)), "r:-2,0,1:0": psub(pmul(pvar(v), pvar(v)), pconst(2)),
                   "r:-3,0,1:1": psub(pmul(pvar(v), pvar(v)), pconst(3))}.get(t, pconst(0))
            a = pconst(1)
            b = padd(rng.choice(bs), pconst(0) if two else van)
        elif k < 0.55 and len(xs) > 1:
            b = pvar(rng.choice(xs))
        else:
            b = coeff()
        if a == pconst(1):
            bs.append(b)
        # a repeated factor now and then: the square-free factorisation then returns several factors whose root
        # lists interleave (exercises the sort / de-duplication of the per-factor lists)
        reps = 2 if (rng.random() < 0.2 and i + 1 < nlin) else 1
        for _ in range(reps):
            extra.append("lin=%s;%s" % (ptext(a), ptext(b)))
            A = pmul(A, psub(pmul(a, Y), b))
    if useq:
        v = rng.choice(xs)
        X = pvar(v)
        qs = [
            padd(pmul(Y, Y), pconst(1)),
            padd(pmul(Y, Y), padd(pmul(X, X), pconst(1))),
            padd(pmul(Y, Y), padd(pmul(X, Y), pconst(1))),                       # disc x^2 - 4
            padd(pmul(Y, Y), padd(pscale(-2, pmul(X, Y)), pmul(X, X))),          # (y - x)^2
            padd(pmul(psub(pmul(X, X), pconst(2)), pmul(Y, Y)), padd(Y, pconst(1))),   # (x^2-2) y^2 + y + 1
            psub(pmul(Y, Y), X),                                                 # y^2 - x (needs method E when x > 0)
            padd(pmul(Y, Y), padd(Y, pmul(X, X))),                               # disc 1 - 4x^2
        ]
        q = rng.choice(qs[:4] if two else qs)
        extra.append("quad=" + ptext(q))
        A = pmul(A, q)
    if pdeg(A, y) == 0:
        A = padd(A, Y)
        extra = []
    return mk_case("iso", order, A, assign, extra), "S"


def shape_E(rng):
    nlow = rng.choice([1, 1, 1, 2])
    xs, y, order = pick_vars(rng, nlow)
    Y = pvar(y)
    assign = []
    for i, v in enumerate(xs):
        assign.append((v, value(rng, 0.75) if i == 0 else rng.choice(VALS_RAT)))
    deg = rng.choice([1, 2, 2, 3, 3])
    A = {}
    for k in range(deg + 1):
        if k < deg and rng.random() < 0.25:
            continue
        c = coeff_poly(rng, xs)
        if k == deg and rng.random() < 0.35:
            v = xs[0]
            c = rng.choice([psub(pmul(pvar(v), pvar(v)), pconst(2)), psub(pmul(pvar(v), pvar(v)), pconst(3)), pvar(v), c])
        A = padd(A, pmul(c, ppow(Y, k)))
    # sometimes multiply by a content factor in x (vanishing or not)
    if rng.random() < 0.2:
        v = xs[0]
        A = pmul(A, rng.choice([psub(pmul(pvar(v), pvar(v)), pconst(2)), padd(pvar(v), pconst(1)), pvar(v)]))
    if pdeg(A, y) == 0:
        A = padd(A, Y)
    return mk_case("iso", order, A, assign), "E"


HAND = [
    # coordinator's witnesses of two seeded bugs the first generator missed:
    # (y^2 - x0)^2 (y^2 - x1) at x0 = x1 = 1: the square-free factors share the TWO roots -1, 1
    "iso 0,1,2 1*x2^6+-1*x1^1*x2^4+-2*x0^1*x2^4+2*x0^1*x1^1*x2^2+1*x0^2*x2^2+-1*x0^2*x1^1 2 0 z:1 1 z:1",
    # y^2 + x y + x^2 at x = cbrt 2: no real root, the eliminant (y^3-2)^2 has exactly one real candidate
    "iso 0,1 1*x1^2+1*x0^1*x1^1+1*x0^2 1 0 r:-2,0,0,1:0",
    # eliminant vanishes identically and so does the specialisation: y*(x^2-2) at sqrt2
    "iso 0,1 1*x0^2*x1^1+-2*x1^1 1 0 r:-2,0,1:1",
    # eliminant vanishes (conjugate sqrt3 of the reducible defining polynomial), the specialisation does not
    "iso 0,1 1*x0^2*x1^1+-1*x0^2+-3*x1^1+3 1 0 a:6,0,-5,0,1:5/2:3/1",
    # spurious conjugate root: y - x at sqrt2 (eliminant y^2 - 2)
    "iso 0,1 1*x1^1+-1*x0^1 1 0 r:-2,0,1:1",
    "iso 0,1 1*x1^1+-1*x0^1 1 0 r:-2,0,1:0",
    # irrational roots of an irrational polynomial: y^2 - x at +-sqrt2
    "iso 0,1 1*x1^2+-1*x0^1 1 0 r:-2,0,1:1",
    "iso 0,1 1*x1^2+-1*x0^1 1 0 r:-2,0,1:0",
    # leading coefficient vanishes: (x^2-2) y^2 + y - 1 at sqrt2; x y^2 - 2 at 0 (non-zero constant)
    "iso 0,1 1*x0^2*x1^2+-2*x1^2+1*x1^1+-1 1 0 r:-2,0,1:1",
    "iso 0,1 1*x0^1*x1^2+-2 1 0 z:0",
    # content factor (x-1) vanishes / does not vanish
    "iso 0,1 1*x0^1*x1^2+-1*x1^2+-1*x0^1+1 1 0 z:1",
    "iso 0,1 1*x0^1*x1^2+-1*x1^2+-1*x0^1+1 1 0 z:3",
    # multiple roots: (y - x)^2 (y + x) at sqrt2; (y^2 - 2)^2
    "iso 0,1 1*x1^3+-1*x0^1*x1^2+-1*x0^2*x1^1+1*x0^3 1 0 r:-2,0,1:1 | lc=1 lin=1;1*x0^1 lin=1;1*x0^1 lin=1;-1*x0^1",
    "iso 0,1 1*x1^4+-4*x1^2+4 1 0 z:5",
    # two representations of sqrt2 in two variables: (y - x0)(y - x1)
    "iso 1,0,2 1*x2^2+-1*x0^1*x2^1+-1*x1^1*x2^1+1*x0^1*x1^1 2 0 r:-2,0,1:1 1 a:6,0,-5,0,1:5/2:3/1 | lc=1 lin=1;1*x0^1 lin=1;1*x1^1",
    # sqrt2 * sqrt3 and sqrt2 + sqrt3: (y - x0*x1)(y - x0 - x1)(y^2 + 1), order x1 < x0 < y
    "iso 1,0,2 1*x2^4+-1*x1^1*x2^3+-1*x0^1*x2^3+-1*x0^1*x1^1*x2^3+1*x2^2+1*x0^1*x1^2*x2^2+1*x0^2*x1^1*x2^2+-1*x1^1*x2^1+-1*x0^1*x2^1+-1*x0^1*x1^1*x2^1+1*x0^1*x1^2+1*x0^2*x1^1 2 0 r:-2,0,1:1 1 r:-3,0,1:1 | lc=1 lin=1;1*x0^1*x1^1 lin=1;1*x0^1+1*x1^1 quad=1*x2^2+1",
    # rational value given as an algebraic number: y - 2x at x = 1/2
    "iso 0,1 1*x1^1+-2*x0^1 1 0 a:2,-4,-1,2:1/2:3/2",
    # y is the lowest index, order permuted
    "iso 2,1,0 1*x0^2+-1*x1^1*x2^1 2 1 z:2 2 r:-2,0,1:1",
]


# ------------------------------------------------------------------ shape D: roots shared between square-free factors
def shape_D(rng):
    """A = prod (y - b_i)^m1 * prod (y - b_i')^m2 [* (y - c)^m3] with b_i = b_i' UNDER THE ASSIGNMENT ONLY (different
    polynomials) and m1 != m2: the square-free factorisation returns factors of different multiplicity whose root
    lists share TWO OR THREE distinct roots, so the duplicate removal must drop several duplicates (a removal that
    compares with the array predecessor, or moves the kept roots by swapping, only survives one)."""
    kind = rng.choice(["int", "int", "sqrt2", "twin", "twin"])
    idx = rng.sample(range(6), 3)
    y = idx[2]
    Y = pvar(y)
    if kind == "int":
        xs = [idx[0]]
        v = rng.choice([-2, -1, 1, 2, 3])
        assign = [(idx[0], "z:%d" % v)]
        X = pvar(idx[0])
        pairs = [(X, pconst(v)), (pmul(X, X), pconst(v * v)), (padd(X, pconst(1)), pconst(v + 1)),
                 (pscale(2, X), pconst(2 * v)), (pscale(-1, X), pconst(-v)), (psub(pmul(X, X), X), pconst(v * v - v))]
    elif kind == "sqrt2":
        xs = [idx[0]]
        assign = [(idx[0], rng.choice([SQRT2, "r:-2,0,1:0", "a:6,0,-5,0,1:5/2:3/1"]))]
        X = pvar(idx[0])
        X2 = pmul(X, X)
        # rational and IRRATIONAL shared roots: x^2 = 2, x^3 = 2x, x^4 = 4, x^2 + x = x + 2, x^3 - x = x
        pairs = [(X2, pconst(2)), (pmul(X2, X), pscale(2, X)), (pmul(X2, X2), pconst(4)),
                 (padd(X2, X), padd(X, pconst(2))), (psub(pmul(X2, X), X), X), (psub(X2, pconst(2)), pconst(0))]
    else:
        # two parameters that are equal under the assignment only (also one number in two representations)
        xs = [idx[0], idx[1]]
        t = rng.choice(["z:2", "z:-1", "q:1/3", SQRT2, "r:-3,0,1:1", "r:-1,-1,1:1"])
        t2 = "a:6,0,-5,0,1:5/2:3/1" if (t == SQRT2 and rng.random() < 0.5) else t
        assign = [(idx[0], t), (idx[1], t2)]
        X, Z = pvar(idx[0]), pvar(idx[1])
        pairs = [(X, Z), (padd(X, pconst(1)), padd(Z, pconst(1))), (pscale(-1, X), pscale(-1, Z)), (pscale(2, X), padd(X, Z)),
                 (pmul(X, X), pmul(X, Z)), (pconst(0), psub(X, Z))]
    k = rng.choice([2, 2, 3])
    chosen = rng.sample(pairs, k)
    m1, m2 = rng.choice([(1, 2), (2, 1), (1, 3), (1, 2)])
    if k == 3:
        m1, m2 = rng.choice([(1, 2), (2, 1)])
    extra = ["lc=1"]
    A = pconst(1)
    first, second = [], []
    for (b, b2) in chosen:
        if rng.random() < 0.5:
            b, b2 = b2, b
        first.append(b)
        second.append(b2)
    # sometimes only k-1 of the roots are really shared (the last second-copy is shifted)
    if rng.random() < 0.2:
        second[-1] = padd(second[-1], pconst(1))
    for b in first:
        for _ in range(m1):
            extra.append("lin=1;%s" % ptext(b))
            A = pmul(A, psub(Y, b))
    for b in second:
        for _ in range(m2):
            extra.append("lin=1;%s" % ptext(b))
            A = pmul(A, psub(Y, b))
    if rng.random() < 0.3 and k == 2 and m1 + m2 <= 3:
        c = rng.choice([pconst(rng.choice([-3, 0, 5])), first[0]])
        for _ in range(3 if (m1 + m2 == 3 and rng.random() < 0.5) else 1):
            extra.append("lin=1;%s" % ptext(c))
            A = pmul(A, psub(Y, c))
    order = xs[:]
    rng.shuffle(order)
    return mk_case("iso", order + [y], A, assign, extra + ["cls=D"]), "D"


# ------------------------------------------------------------------ shape N: no real root, but the eliminant has some
ROOT3 = ["r:-2,0,0,1:0", "r:-3,0,0,1:0", "r:2,0,0,1:0", "r:-5,0,0,1:0"]          # cube roots of 2, 3, -2, 5
ROOT4 = ["r:-2,0,0,0,1:1", "r:-2,0,0,0,1:0", "r:-3,0,0,0,1:1"]                 # +-2^(1/4), 3^(1/4)


def shape_N(rng):
    """norm-form polynomials, positive definite in y at the real parameter alpha, whose eliminant
    prod_conjugates A(alpha', y) nevertheless has real roots - they come from the COMPLEX conjugates of alpha:
      y^2 + x y + x^2      at x = cbrt(d): eliminant (y^3 - d)^2, ONE real candidate, not a root
      y^2 - x y + x^2      at x = cbrt(d): candidate -cbrt(d)
      y^2 + 2 x y + 4 x^2  at x = cbrt(d): candidate 2 cbrt(d)
      y^2 + x^2            at x = d^(1/4): eliminant (y^4 - d)^2, TWO real candidates, none a root
    optionally shifted (y -> y - c), scaled, or multiplied by a linear factor (y - x), (y + x), (y - c) so that
    of one / two candidates exactly one survives.  A filter that trusts a single candidate, or any candidate, fails."""
    idx = rng.sample(range(6), 3)
    x, y = idx[0], idx[2]
    X, Y = pvar(x), pvar(y)
    c = rng.choice([0, 0, 0, 1, -2])
    Yc = psub(Y, pconst(c))
    if rng.random() < 0.65:
        t = rng.choice(ROOT3)
        q = rng.choice([
            padd(pmul(Yc, Yc), padd(pmul(X, Yc), pmul(X, X))),
            padd(pmul(Yc, Yc), padd(pscale(-1, pmul(X, Yc)), pmul(X, X))),
            padd(pmul(Yc, Yc), padd(pscale(2, pmul(X, Yc)), pscale(4, pmul(X, X)))),
            padd(pscale(4, pmul(Yc, Yc)), padd(pscale(2, pmul(X, Yc)), pmul(X, X))),
        ])
    else:
        t = rng.choice(ROOT4)
        q = rng.choice([
            padd(pmul(Yc, Yc), pmul(X, X)),
            padd(pmul(Yc, Yc), pscale(4, pmul(X, X))),
            padd(pscale(2, pmul(Yc, Yc)), pmul(pmul(X, X), pmul(X, X))),      # 2 y^2 + x^4: x^4 = d, constant: no candidate
        ])
    assign = [(x, t)]
    order = [x]
    extra = ["lc=%d" % 1, "quad=" + ptext(q)]
    A = q
    k = rng.random()
    if k < 0.2:
        lf = rng.choice([X, pscale(-1, X), pconst(c), padd(X, pconst(c))])
        extra.append("lin=1;%s" % ptext(lf))
        A = pmul(A, psub(Y, lf))
    elif k < 0.3:
        sc = rng.choice([-1, 2, 3])
        extra[0] = "lc=%d" % sc
        A = pscale(sc, A)
    elif k < 0.4:
        # a second, rationally assigned parameter as a positive weight: y^2 + w x y + w^2 x^2 keeps the form
        w = idx[1]
        W = pvar(w)
        A = padd(pmul(Yc, Yc), padd(pmul(pmul(W, X), Yc), pmul(pmul(W, W), pmul(X, X)))) if t in ROOT3 else padd(pmul(Yc, Yc), pmul(pmul(W, W), pmul(X, X)))
        assign.append((w, rng.choice(["z:1", "z:2", "z:-1", "q:1/3"])))
        order = [x, w]
        rng.shuffle(order)
        extra = []
    return mk_case("iso", order + [y], A, assign, extra + ["cls=N"]), "N"


# ------------------------------------------------------------------ shape V: the eliminant vanishes identically
NUMVAL = {"r:-2,0,1:1": 2 ** 0.5, "r:-2,0,1:0": -2 ** 0.5, "r:-3,0,1:1": 3 ** 0.5, "r:-3,0,1:0": -3 ** 0.5,
          "a:6,0,-5,0,1:5/2:3/1": 2 ** 0.5, "a:6,0,-5,0,1:13/3:15/3": 3 ** 0.5,
          "r:-2,0,0,1:0": 2 ** (1 / 3), "r:-4,0,0,1:0": 4 ** (1 / 3), "z:2": 2.0, "z:-1": -1.0, "q:1/3": 1 / 3, "z:3": 3.0}


def pnum(p, env):
    """floating point value of a polynomial (only used to CHOOSE signs / square roots; the model re-checks exactly)"""
    tot = 0.0
    for m, c in p.items():
        t = float(c)
        for v, e in m:
            t *= env[v] ** e
        tot += t
    return tot


def shape_V(rng):
    """Two (or three) assigned variables with conjugate-related algebraic values and a polynomial all of whose
    coefficients lie in the ideal of ANOTHER conjugate combination, without a common factor:
       x0 = x1 = sqrt d      :  x0 + x1,  x0 x1 + d              (vanish at (sqrt d, -sqrt d))
       x0 = sqrt d = -x1     :  x0 - x1,  x0 x1 - d              (vanish at (sqrt d, sqrt d))
       x0 = x1 = cbrt 2      :  g = x0^2 + x0 x1 + x1^2 and g x0, g x0 x1 reduced with x^3 = 2   (vanish at x1 = w x0)
       x0 = cbrt 2, x1 = cbrt 4 :  g = x1^2 + x0^2 x1 + 2 x0 and g x0, g x1 reduced            (vanish at x1 = w x0^2)
    The iterated resultant with the defining polynomials is then identically zero although the specialisation is a
    proper polynomial: coefficient_roots_isolate must take its "vanished" regime (fresh variable for the leading
    coefficient, recursion).  Shapes with 0, 1 and 2 real roots, a double root, and the truly vanishing assignment.
    (Products of two such factors are avoided: the library needs minutes for the sign test of their candidates.)"""
    idx = rng.sample(range(6), 4)
    a, b, w, y = idx
    X, Z, W, Y = pvar(a), pvar(b), pvar(w), pvar(y)
    fam = rng.choice(["same", "same", "opp", "cb_same", "cb_sq"])
    # (two real roots +-r only in the square-root families: with cube roots the library needs 5 s .. minutes)
    kind = rng.choice(["one", "one", "one", "none", "two", "double", "two-lin"] if fam in ("same", "opp") else ["one", "one", "none"])
    if kind == "two-lin" and rng.random() < 0.75:      # 5 - 8 s per case in the library: keep them rare
        kind = "one"
    if fam in ("same", "opp"):
        d = rng.choice([2, 2, 3])
        pos, neg = "r:-%d,0,1:1" % d, "r:-%d,0,1:0" % d
        alt = "a:6,0,-5,0,1:5/2:3/1" if d == 2 else "a:6,0,-5,0,1:13/3:15/3"      # the same number, reducible polynomial
        root4 = "r:-%d,0,0,0,1:1" % d
        if fam == "same":
            if rng.random() < 0.3:
                va, vb = neg, neg
            else:
                va, vb = pos, (alt if (kind == "one" and rng.random() < 0.3) else pos)
            gs = [padd(X, Z), padd(pmul(X, Z), pconst(d))]
        else:
            va, vb = (pos, neg) if rng.random() < 0.5 else (neg, pos)
            gs = [psub(X, Z), psub(pmul(X, Z), pconst(d))]
        if kind == "one" and rng.random() < 0.15:
            # the combination at which everything DOES vanish: the specialisation is identically zero
            va, vb = (pos, neg) if fam == "same" else (pos, pos)
    elif fam == "cb_same":
        va = vb = "r:-2,0,0,1:0"
        root4 = "r:-2,0,0,0,0,0,1:1"                                             # 2^(1/6) = sqrt(g x0 / g)
        g = padd(pmul(X, X), padd(pmul(X, Z), pmul(Z, Z)))
        gs = [g, padd(pconst(2), padd(pmul(pmul(X, X), Z), pmul(X, pmul(Z, Z)))),
              padd(pscale(2, Z), padd(pmul(pmul(X, X), pmul(Z, Z)), pscale(2, X)))]
    else:
        va, vb = "r:-2,0,0,1:0", "r:-4,0,0,1:0"
        root4 = "r:-2,0,0,0,0,0,1:1"
        gs = [padd(pmul(Z, Z), padd(pmul(pmul(X, X), Z), pscale(2, X))),
              padd(pmul(X, pmul(Z, Z)), padd(pscale(2, Z), pscale(2, pmul(X, X)))),
              padd(pconst(4), padd(pmul(pmul(X, X), pmul(Z, Z)), pscale(2, pmul(X, Z))))]
    assign = [(a, va), (b, vb)]
    env = {a: NUMVAL[va], b: NUMVAL[vb]}
    lows = [a, b]
    third = pconst(1)
    if kind == "one" and rng.random() < 0.35:
        lows.append(w)
        t = rng.choice(["z:2", "z:-1", "q:1/3", "z:3"] + (["r:-3,0,1:1"] if fam in ("same", "opp") and rng.random() < 0.4 else []))
        assign.append((w, t))
        third = W
    extra = ["lc=1"]
    if kind in ("none", "two"):
        ga, gb = gs[0], gs[1]
        # q = ga y^2 - s gb,  y^2 = s gb/ga: the sign s decides between no root and the two roots +-(|gb/ga|)^(1/2)
        ratio = pnum(gb, env) / pnum(ga, env) if abs(pnum(ga, env)) > 1e-9 else 1.0
        s_ = (1 if ratio > 0 else -1) * (1 if kind == "two" else -1)
        k = 1 if kind == "two" else rng.choice([1, 2, 3])
        q = psub(pmul(ga, pmul(Y, Y)), pscale(s_ * k, gb))
        extra.append("quad=" + ptext(q))
        if kind == "two":
            extra.append("sqrt=" + root4)
        A = q
    else:
        def lin_factor():
            ga, gb = rng.sample(gs, 2) if rng.random() < 0.8 else (gs[0], gs[0])
            m = rng.choice([1, 1, 2, -1])
            k = rng.choice([1, -1, 2, -3])
            B1 = pscale(k, gb)
            if third != pconst(1) and len(pmul(gb, third)) <= 4:
                B1 = pmul(B1, third)
            return pscale(m, ga), B1
        A1, B1 = lin_factor()
        extra.append("lin=%s;%s" % (ptext(A1), ptext(B1)))
        A = psub(pmul(A1, Y), B1)
        if kind == "double":
            # a second, ordinary factor with the same root: (x0 + x1) y - (x0 x1 + d) has the root x0 (fam same)
            A1, B1 = gs[0], gs[1]
            extra[-1] = "lin=%s;%s" % (ptext(A1), ptext(B1))
            A = psub(pmul(A1, Y), B1)
            c2 = X if fam == "same" else pscale(-1, X)
            c2 = rng.choice([c2, padd(c2, pconst(0))])
            extra.append("lin=1;%s" % ptext(c2))
            A = pmul(A, psub(Y, c2))
        elif kind == "two-lin":
            c2 = pconst(rng.choice([0, 1, -2]))
            extra.append("lin=1;%s" % ptext(c2))
            A = pmul(A, psub(Y, c2))
    rng.shuffle(lows)
    return mk_case("iso", lows + [y], A, assign, extra + ["cls=V"]), "V"


# ------------------------------------------------------------------ shape Z: a zero-valued variable above fractions
def shape_Z(rng):
    """rational substitution with nested denominators: a variable assigned 0 (as integer, dyadic or rational zero)
    sits ABOVE variables with non-integral rational values in the order, and every coefficient mixes them - the
    common-denominator multipliers of sibling coefficients have to stay consistent when a power of 0 kills a term."""
    nlow = rng.choice([2, 2, 3])
    idx = rng.sample(range(6), nlow + 1)
    y = idx[-1]
    lows = idx[:-1]
    Y = pvar(y)
    zero = lows[-1] if rng.random() < 0.7 else rng.choice(lows)       # mostly the variable just below y
    fr = ["q:1/2", "q:-3/4", "q:5/3", "d:1/1", "d:-3/2", "q:-2/3", "q:7/5"]
    assign = [(v, rng.choice(["z:0", "z:0", "q:0/1", "d:0/0"]) if v == zero else rng.choice(fr)) for v in lows]
    Zv = pvar(zero)
    others = [v for v in lows if v != zero]
    def mix():
        l = pvar(rng.choice(others))
        k = rng.random()
        base = rng.choice([padd(Zv, l), psub(Zv, l), padd(pmul(Zv, l), l), padd(pmul(Zv, Zv), pscale(2, l)),
                           padd(pmul(Zv, l), pconst(rng.choice([1, -1, 2]))), pmul(padd(Zv, l), padd(Zv, pconst(1))),
                           padd(pmul(l, l), Zv), l])
        if len(others) > 1 and k < 0.4:
            base = padd(base, pscale(rng.choice([1, -1, 3]), pvar(rng.choice(others))))
        return base
    deg = rng.choice([1, 1, 2, 2, 3])
    A = {}
    for k in range(deg + 1):
        if 0 < k < deg and rng.random() < 0.3:
            continue
        c = mix() if (k > 0 or rng.random() < 0.5) else pconst(rng.choice([-1, 1, -2, 3]))
        A = padd(A, pmul(c, ppow(Y, k)))
    if pdeg(A, y) == 0:
        A = padd(A, pmul(mix(), Y))
    # the order: bottom first; the zero variable is never the bottom one
    order = lows[:]
    rng.shuffle(order)
    if order[0] == zero:
        order[0], order[-1] = order[-1], order[0]
    return mk_case("iso", order + [y], A, assign, ["cls=Z"]), "Z"


# ------------------------------------------------------------------ shape A: coefficients that nearly vanish
def _convergents(kind):
    """continued-fraction convergents p/q (q between 10^3 and 10^7) of sqrt2, sqrt3, cbrt2, exact integer arithmetic"""
    from math import isqrt
    out = []
    if kind in (2, 3):
        # sqrt(n): periodic continued fraction by the classical (m, d, a) recurrence
        n = kind
        a0 = isqrt(n)
        m, d, a = 0, 1, a0
        h0, h1, k0, k1 = 1, a0, 0, 1
        while k1 < 10 ** 7:
            m = d * a - m
            d = (n - m * m) // d
            a = (a0 + m) // d
            h0, h1 = h1, a * h1 + h0
            k0, k1 = k1, a * k1 + k0
            if 10 ** 3 <= k1 < 10 ** 7:
                out.append((h1, k1))
    else:
        # cbrt 2 by exact comparison p^3 ? 2 q^3 (Stern-Brocot walk = continued fraction)
        from fractions import Fraction
        lo, hi = Fraction(1), Fraction(2)
        x_lo, x_hi = (1, 1), (2, 1)
        # mediants
        a, b, c, d = 1, 1, 2, 1
        last = None
        while True:
            p, q = a + c, b + d
            if q >= 10 ** 7:
                break
            if p ** 3 < 2 * q ** 3:
                a, b = p, q
                side = 0
            else:
                c, d = p, q
                side = 1
            if last is not None and side != last and q >= 10 ** 3:
                out.append((p, q))
            last = side
    return out


CONV = {}


def shape_A(rng):
    """near-cancellation: B = q*x - p (or p - q*x) with p/q a continued-fraction convergent of the irrational
    value of x, |B| ~ 1e-3 .. 1e-7 with coefficients up to 1e7, used as leading coefficient, constant term or inner
    coefficient.  The sign of such a coefficient decides the degree under the assignment, the number of roots and
    both unbounded cells; an interval test that stops too early calls it 0."""
    if not CONV:
        CONV[2], CONV[3], CONV["c"] = _convergents(2), _convergents(3), _convergents("c")
    idx = rng.sample(range(6), 2)
    x, y = idx
    X, Y = pvar(x), pvar(y)
    k = rng.random()
    if k < 0.45:
        tok, key = "r:-2,0,1:1", 2
    elif k < 0.8:
        tok, key = "r:-3,0,1:1", 3
    else:
        tok, key = "r:-2,0,0,1:0", "c"
    p, q = rng.choice(CONV[key])
    B = psub(pscale(q, X), pconst(p))
    if rng.random() < 0.5:
        B = pscale(-1, B)
    where = rng.choice(["lc", "lc", "lc2", "const", "inner", "prod"])
    extra = []
    if where == "lc":
        A = psub(pmul(B, Y), pconst(rng.choice([1, -1, 2])))
        extra = ["lc=1", "lin=%s;%s" % (ptext(B), ptext(psub(pmul(B, Y), A)))]
    elif where == "lc2":
        A = padd(pmul(B, pmul(Y, Y)), padd(Y, pconst(rng.choice([-1, 1]))))
    elif where == "const":
        A = psub(pmul(Y, Y), B) if rng.random() < 0.5 else padd(pscale(rng.choice([1, 3]), Y), B)
    elif where == "inner":
        A = padd(pmul(Y, Y), padd(pmul(B, Y), pconst(rng.choice([-1, -1, 1]))))
    else:
        A = pmul(psub(Y, pconst(1)), psub(pmul(B, Y), pconst(1)))
        extra = ["lc=1", "lin=1;1", "lin=%s;1" % ptext(B)]
    return mk_case("iso", [x, y], A, [(x, tok)], extra + ["cls=A"]), "A"


# ------------------------------------------------------------------ shape C: a conjugate extremely close to the value
def shape_C(rng):
    """the parameter is a root of  a (t - c)^2 - eps  with a = 2^40 .. 2^60 and a small eps: its two real roots
    c -+ sqrt(eps/a) differ by 1e-6 .. 1e-9, far below the 2^-20 interval precision, and the leading coefficient
    dominates the defining polynomial.  The polynomial is positive definite in y times a linear factor in y that
    depends on the parameter, so the conjugate contributes a spurious candidate root which only the resultant-based
    zero threshold of the exact sign test can reject."""
    idx = rng.sample(range(6), 2)
    x, y = idx
    X, Y = pvar(x), pvar(y)
    e = rng.choice([40, 44, 50, 52, 56, 60])
    a = 2 ** e
    c = rng.choice([1, 1, 2, -1, 3])
    eps = rng.choice([3, 3, 5, 7, 2 if e % 2 == 0 else 3, 12])
    # a t^2 - 2 a c t + a c^2 - eps
    tok = "r:%d,%d,%d:%d" % (a * c * c - eps, -2 * a * c, a, rng.choice([0, 1]))
    # (quadratics that contain the parameter, or a second linear factor, cost the exact reference 5 s and more)
    quad = rng.choice([padd(pmul(Y, Y), pconst(1)), padd(pmul(Y, Y), padd(Y, pconst(1))), padd(pscale(2, pmul(Y, Y)), pconst(3))])
    la = pconst(rng.choice([1, 1, 2]))
    lb = rng.choice([pscale(3, X), X, padd(X, pconst(1)), pscale(-2, X), psub(pmul(X, X), pconst(c * c)), padd(pmul(X, X), X)])
    A = pmul(quad, psub(pmul(la, Y), lb))
    extra = ["lc=1", "quad=" + ptext(quad), "lin=%s;%s" % (ptext(la), ptext(lb))]
    return mk_case("iso", [x, y], A, [(x, tok)], extra + ["cls=C"]), "C"


# ------------------------------------------------------------------ shape K: the specialisation collapses to c*y^k
def _ratval(tok):
    """exact value of a rational value token: z:n, q:a/b, d:a/k (= a / 2^k)"""
    kind, body = tok.split(":")
    if kind == "z":
        return Fraction(int(body))
    a, b = body.split("/")
    return Fraction(int(a), int(b)) if kind == "q" else Fraction(int(a), 2 ** int(b))


def _peval(p, env):
    """exact value of a polynomial at rational values"""
    tot = Fraction(0)
    for m, c in p.items():
        t = Fraction(c)
        for v, e in m:
            t *= env[v] ** e
        tot += t
    return tot


def _upoly(v, coeffs):
    """sum coeffs[i] * x_v^i"""
    r = {}
    for i, c in enumerate(coeffs):
        r = padd(r, pscale(c, ppow(pvar(v), i) if i else pconst(1)))
    return r


# irrational values: token -> (coefficients of the polynomial that vanishes at ALL roots of the defining polynomial,
#                              coefficients of a polynomial that vanishes at the value but not at every conjugate, or None)
K_ALG = {
    "r:-2,0,1:1": ([-2, 0, 1], None), "r:-2,0,1:0": ([-2, 0, 1], None),
    "r:-3,0,1:1": ([-3, 0, 1], None), "r:-3,0,1:0": ([-3, 0, 1], None),
    "r:-5,0,1:1": ([-5, 0, 1], None),
    "r:-1,-1,1:1": ([-1, -1, 1], None), "r:-1,-1,1:0": ([-1, -1, 1], None),
    "r:-2,0,0,1:0": ([-2, 0, 0, 1], None),
    "r:1,-3,0,1:0": ([1, -3, 0, 1], None), "r:1,-3,0,1:2": ([1, -3, 0, 1], None),
    "r:-2,0,0,0,1:1": ([-2, 0, 0, 0, 1], None),
    "a:6,0,-5,0,1:5/2:3/1": ([6, 0, -5, 0, 1], [-2, 0, 1]),       # sqrt2 as a root of (x^2-2)(x^2-3)
    "a:6,0,-5,0,1:13/3:15/3": ([6, 0, -5, 0, 1], [-3, 0, 1]),     # sqrt3 of the same polynomial
    "a:2,0,-3,0,1:5/2:3/1": ([2, 0, -3, 0, 1], [-2, 0, 1]),       # sqrt2 of (x^2-1)(x^2-2)
}
K_ALG_QUADRATIC = ["r:-2,0,1:1", "r:-2,0,1:0", "r:-3,0,1:1", "r:-3,0,1:0", "r:-5,0,1:1", "r:-1,-1,1:1", "r:-1,-1,1:0"]
K_RAT = ["z:0", "z:0", "z:0", "q:0/1", "d:0/0", "z:1", "z:-1", "z:2", "z:2", "z:-2", "z:3", "z:4", "z:-3", "d:1/1", "d:-3/1",
         "d:5/2", "q:1/3", "q:-2/3", "q:5/7", "d:2/0", "q:3/1"]


def _k_vanishers(rng, assign):
    """polynomials in the assigned variables that vanish at the assignment (and, for irrational values, mostly at
    every conjugate too, so that the eliminant collapses as well); returns (list, list of 'partial' ones)"""
    full, part = [], []
    rats = [(v, _ratval(t)) for v, t in assign if t[0] in "zqd"]
    algs = [(v, t) for v, t in assign if t[0] in "ra"]
    for v, c in rats:
        X = pvar(v)
        L = psub(pscale(c.denominator, X), pconst(c.numerator))                 # b x - a
        full += [L, L, pscale(rng.choice([-1, 2, 3]), L), pmul(L, padd(X, pconst(rng.choice([1, -1, 2])))),
                 pmul(L, padd(pscale(c.denominator, X), pconst(c.numerator)))]  # b^2 x^2 - a^2
        if c == 0:
            full += [pmul(X, X), ppow(X, 3)]
        else:
            full += [pmul(L, X), pmul(L, L)]
    for v, t in algs:
        m, pt = K_ALG[t]
        M = _upoly(v, m)
        full += [M, M, pscale(rng.choice([-1, 2]), M), pmul(M, pvar(v))]
        if len(m) == 3:
            full.append(pmul(M, padd(pvar(v), pconst(1))))
        if pt is not None:
            part += [_upoly(v, pt), pmul(_upoly(v, pt), pvar(v))]
    # relations between two parameters
    if len(rats) == 2:
        (v0, c0), (v1, c1) = rats
        X0, X1 = pvar(v0), pvar(v1)
        if c0 == c1:
            full += [psub(X0, X1), psub(X0, X1), psub(pmul(X0, X0), pmul(X1, X1)), psub(pmul(X0, X1), pmul(X1, X1))]
        if c0 == -c1:
            full += [padd(X0, X1), padd(X0, X1), padd(pmul(X0, X1), pmul(X1, X1))]
        if c1 == c0 * c0:
            full += [psub(pmul(X0, X0), X1), psub(pmul(X0, X0), X1)]
        if c0.denominator == 1 and c1.denominator == 1:
            full += [psub(pmul(X0, X1), pconst(int(c0 * c1)))]
    if len(rats) == 1 and len(algs) == 1:
        (v0, c0), (v1, t1) = rats[0], algs[0]
        m, _ = K_ALG[t1]
        X0, X1 = pvar(v0), pvar(v1)
        L = psub(pscale(c0.denominator, X0), pconst(c0.numerator))
        M = _upoly(v1, m)
        full += [padd(L, M), pmul(L, X1), pmul(M, X0) if c0 != 0 else M, psub(M, L)]
        if len(m) == 3 and m[1] == 0 and c0 == -m[0]:
            full += [psub(pmul(X1, X1), X0)] * 3                                  # x1^2 - x0 at x0 = 2, x1 = sqrt2
    return full, part


def shape_K(rng):
    """COLLAPSE to a single term: A = N y^k + sum_{j != k} V_j y^j where every V_j vanishes at the assignment (through
    a rational value - 0, integers, dyadic and proper fractions -, an irrational value together with all its
    conjugates, or a relation between two parameters: x0 = x1, x0 = -x1, x1 = x0^2, x1^2 = x0) and N does not, so the
    specialised polynomial - and with irrational parameters the eliminant too - is c*y^k, k = 1 .. 5: the only root
    is 0, of multiplicity k.  Terms above y^k have vanishing leading coefficients; the constant term is mostly
    non-zero as a polynomial (otherwise y splits off as a factor of its own).  One or two parameters, i.e. 2-3
    variables, rational, irrational or one of each; with two irrational parameters a tiny linear / quadratic factor
    structure for the model.  Sometimes times a factor (y - c), c != 0, and sometimes one 'partial' vanisher (zero at
    the value but not at a conjugate of a reducible defining polynomial: the eliminant then keeps other terms)."""
    mode = rng.choice(["rat1", "rat1", "rat2", "rat2", "alg1", "alg1", "alg1", "mix", "mix", "alg2"])
    idx = rng.sample(range(6), 3)
    y = idx[2]
    Y = pvar(y)
    if mode == "rat1":
        assign = [(idx[0], rng.choice(K_RAT))]
    elif mode == "rat2":
        t0 = rng.choice(K_RAT)
        c0 = _ratval(t0)
        k = rng.random()
        if k < 0.3:
            t1 = t0 if rng.random() < 0.5 or c0.denominator != 1 else rng.choice(["z:%d" % c0, "q:%d/1" % c0, "d:%d/0" % c0])
        elif k < 0.45 and c0.denominator == 1:
            t1 = "z:%d" % (-c0)
        elif k < 0.6 and c0.denominator == 1:
            t1 = "z:%d" % (c0 * c0)
        else:
            t1 = rng.choice(K_RAT)
        assign = [(idx[0], t0), (idx[1], t1)]
    elif mode == "alg1":
        assign = [(idx[0], rng.choice(list(K_ALG)))]
    elif mode == "mix":
        t1 = rng.choice(list(K_ALG))
        m = K_ALG[t1][0]
        t0 = "z:%d" % (-m[0]) if (len(m) == 3 and m[1] == 0 and rng.random() < 0.4) else rng.choice(K_RAT)
        assign = [(idx[0], t0), (idx[1], t1)]
    else:
        t0 = rng.choice(K_ALG_QUADRATIC)
        t1 = t0 if rng.random() < 0.2 else rng.choice(K_ALG_QUADRATIC)
        assign = [(idx[0], t0), (idx[1], t1)]
    lows = [v for v, _ in assign]
    full, part = _k_vanishers(rng, assign)
    renv = {v: _ratval(t) for v, t in assign if t[0] in "zqd"}

    def nonvanishing():
        k = rng.random()
        if k < 0.5:
            return pconst(rng.choice([1, 1, -1, 2, -3, 5]))
        v, t = rng.choice(assign)
        if t[0] in "ra":
            return rng.choice([pvar(v), pscale(-1, pvar(v)), padd(pmul(pvar(v), pvar(v)), pconst(1))])
        for _ in range(8):
            c = rng.choice([padd(pvar(v), pconst(rng.choice([1, -1, 2, 3]))), padd(pmul(pvar(v), pvar(v)), pconst(1)),
                            psub(pscale(2, pvar(v)), pconst(1)), pvar(v)])
            if _peval(c, renv) != 0:
                return c
        return pconst(1)

    extra = []
    if mode == "alg2":
        # tiny structures only (exact arithmetic with two irrational parameters): N y - V  or  N y^2 + V1 y + V0
        tiny = [p for p in full if len(p) <= 3]
        (v0, t0), (v1, t1) = assign
        M0, M1 = _upoly(v0, K_ALG[t0][0]), _upoly(v1, K_ALG[t1][0])
        if len(padd(M0, M1)) <= 4:
            tiny.append(padd(M0, M1))
        N = rng.choice([pconst(1), pconst(-1), pconst(2), pvar(v0), pvar(v1), pmul(pvar(v0), pvar(v1))])
        if rng.random() < 0.35:
            V = rng.choice(tiny)
            A = psub(pmul(N, Y), V)
            extra = ["lc=1", "lin=%s;%s" % (ptext(N), ptext(V))]
        else:
            V0 = rng.choice(tiny)
            V1 = rng.choice(tiny + [pconst(0), pconst(0)])
            if rng.random() < 0.25:
                # the linear term survives instead: V2 y^2 + N y + V0
                A = padd(pmul(rng.choice(tiny), pmul(Y, Y)), padd(pmul(N, Y), V0))
            else:
                A = padd(pmul(N, pmul(Y, Y)), padd(pmul(V1, Y), V0))
            extra = ["lc=1", "quad=" + ptext(A)]
    else:
        d = rng.choice([2, 2, 3, 3, 4, 5]) if mode in ("rat1", "rat2") else rng.choice([1, 2, 2, 3, 3, 4])
        k = rng.choice([j for j in range(1, d + 1)] + [d, 2 if d >= 2 else 1])
        A = pmul(nonvanishing(), ppow(Y, k))
        used_part = False
        for j in range(d + 1):
            if j == k:
                continue
            r = rng.random()
            if j == 0:
                if r < 0.12:
                    continue
            elif r < 0.45 and not (j == d and d > k):
                continue
            if part and not used_part and rng.random() < 0.12:
                V = rng.choice(part)
                used_part = True
            else:
                V = rng.choice(full)
            if rng.random() < 0.2:
                V = pmul(V, pconst(rng.choice([-1, 2, -2])))
            A = padd(A, pmul(V, ppow(Y, j)))
        if pdeg(A, y) <= 2 and mode in ("alg1", "mix") and rng.random() < 0.5:
            # the model's factor-structure method as a second opinion (a quadratic with discriminant 0, or linear)
            cs = [{}, {}, {}]
            for m_, c_ in A.items():
                e = dict(m_).get(y, 0)
                cs[e][tuple(f for f in m_ if f[0] != y)] = c_
            extra = ["lc=1", "quad=" + ptext(A)] if pdeg(A, y) == 2 else ["lc=1", "lin=%s;%s" % (ptext(cs[1]), ptext(pscale(-1, cs[0])))]
        elif rng.random() < 0.15:
            A = pmul(A, psub(Y, pconst(rng.choice([1, -1, 2, -3]))))
    order = lows[:]
    rng.shuffle(order)
    return mk_case("iso", order + [y], A, assign, extra + ["cls=K"]), "K"


# ------------------------------------------------------------------ shape U: parametric leading coefficient = -1 / +1
def shape_U(rng):
    """A factor a(x) y - b(x), linear in y under a RATIONAL assignment, whose leading coefficient is a proper polynomial
    in the parameters that evaluates (after the denominators are cleared) to exactly -1 - or +1, -2, 2, 3 as controls -
    and b(x) != 0: the root b/a of the linear special case of the univariate isolator with a UNIT leading coefficient of
    either sign (numeric leading coefficients are made positive by the square-free factorisation, so -1 has to come from
    a parameter).  a = x - (c+1), c - 1 - x, x^2 - (c^2+1), x at c = -1, -1/2, -1/3, -1/4 (numerator -1), x0 - x1,
    x0 + x1, x0 x1 of two parameters, ...; one to three such factors, also squared, times (y - c) / (y^2 + 1), or below
    a y^2 / y^3 term whose coefficient vanishes at the assignment (the linear factor appears after the reductum)."""
    idx = rng.sample(range(6), 3)
    y = idx[2]
    Y = pvar(y)
    two = rng.random() < 0.4
    ints = [-3, -2, -1, -1, 0, 1, 1, 2, 3, 4]
    fr = ["d:-1/1", "q:-1/3", "d:-1/2", "d:1/1", "q:1/3", "q:-1/5"]
    def tok(c):
        return rng.choice(["z:%d" % c, "z:%d" % c, "q:%d/1" % c, "d:%d/0" % c])
    if two:
        c0 = rng.choice(ints)
        k = rng.random()
        if k < 0.3:
            c1 = c0 + 1                      # x0 - x1 = -1
        elif k < 0.5:
            c1 = -1 - c0                     # x0 + x1 = -1
        elif k < 0.65 and c0 in (1, -1):
            c1 = -c0                         # x0 x1 = -1
        else:
            c1 = rng.choice(ints)
        assign = [(idx[0], tok(c0)), (idx[1], tok(c1) if rng.random() < 0.8 else rng.choice(fr))]
    else:
        assign = [(idx[0], tok(rng.choice(ints)) if rng.random() < 0.7 else rng.choice(fr))]
    env = {v: _ratval(t) for v, t in assign}
    lows = [v for v, _ in assign]

    def cleared_lc(a, b):
        """leading coefficient of a y - b after substituting the values with one positive multiplier (prod d^deg)"""
        f = psub(pmul(a, Y), b)
        mult = Fraction(1)
        for v in lows:
            mult *= env[v].denominator ** pdeg(f, v)
        return _peval(a, env) * mult

    def unit_lc(target):
        """a proper polynomial in the parameters with value `target` (up to the multiplier: checked by the caller)"""
        v = rng.choice(lows)
        c = env[v]
        X = pvar(v)
        cands = []
        if c.denominator == 1:
            ci = int(c)
            cands += [padd(X, pconst(target - ci)), padd(pscale(-1, X), pconst(target + ci)),
                      padd(pmul(X, X), pconst(target - ci * ci)), padd(pscale(2, X), pconst(target - 2 * ci))]
            if ci == target:
                cands += [X, X, ppow(X, 3)]
            if ci == -target:
                cands += [pscale(-1, X), pscale(-1, X)]
        else:
            if c.numerator == target:
                cands += [X] * 3
            if c.numerator == -target:
                cands += [pscale(-1, X)] * 3
        if len(lows) == 2:
            X0, X1 = pvar(lows[0]), pvar(lows[1])
            for q in (psub(X0, X1), psub(X1, X0), padd(X0, X1), pmul(X0, X1), pscale(-1, pmul(X0, X1)), pscale(-1, padd(X0, X1))):
                if _peval(q, env) == target and all(e.denominator == 1 for e in env.values()):
                    cands += [q, q, q]
        return rng.choice(cands) if cands else None

    def const_part():
        k = rng.random()
        if k < 0.6:
            return pconst(rng.choice([3, -2, 5, 1, -1, 4, 7]))
        v = rng.choice(lows)
        return rng.choice([padd(pvar(v), pconst(rng.choice([5, 7, -6]))), padd(pmul(pvar(v), pvar(v)), pconst(3)),
                           psub(pconst(9), pvar(v))])

    # the square-free factorisation separates factors by MULTIPLICITY only: two such factors stay linear factors of
    # their own when their multiplicities differ (1 and 2); with equal multiplicities they form one quadratic factor
    nfac = rng.choice([1, 1, 1, 2, 2])
    mults = [1] if nfac == 1 else rng.choice([[1, 2], [2, 1], [1, 2], [2, 1], [1, 1]])
    if nfac == 1 and rng.random() < 0.15:
        mults = [2]
    A = pconst(1)
    extra = ["lc=1"]
    made = 0
    for _ in range(40):
        if made == nfac:
            break
        target = rng.choice([-1, -1, -1, -1, -1, -1, 1, 1, -2, 2])
        a = unit_lc(target)
        b = const_part()
        if a is None or _peval(b, env) == 0 or not pvars(a):
            continue
        if abs(target) == 1 and abs(cleared_lc(a, b)) != 1 and rng.random() < 0.8:
            continue
        for _ in range(mults[made]):
            A = pmul(A, psub(pmul(a, Y), b))
            extra.append("lin=%s;%s" % (ptext(a), ptext(b)))
        made += 1
    if made == 0:
        a, b = padd(pvar(lows[0]), pconst(-1 - int(env[lows[0]]) if env[lows[0]].denominator == 1 else 0)), pconst(3)
        A = psub(pmul(a, Y), b)
        extra.append("lin=%s;%s" % (ptext(a), ptext(b)))
    k = rng.random()
    if k < 0.08:
        # (joins the factors of multiplicity 1: a control, the linear special case is then not reached for those)
        c = pconst(rng.choice([1, -1, 2, 0, -4]))
        A = pmul(A, psub(Y, c))
        extra.append("lin=1;%s" % ptext(c))
    elif k < 0.15:
        q = padd(pmul(Y, Y), pconst(1))
        m3 = 3 if pdeg(A, y) <= 2 else 1
        for _ in range(m3):                       # (y^2+1)^3: a factor of its own; ^1: joins the simple factors
            A = pmul(A, q)
            extra.append("quad=" + ptext(q))
    elif k < 0.4:
        # a higher term whose coefficient vanishes at the assignment (no factor structure: the product is not a product any more)
        v = rng.choice(lows)
        c = env[v]
        L = psub(pscale(c.denominator, pvar(v)), pconst(c.numerator))
        A = padd(A, pmul(pmul(L, pconst(rng.choice([1, -1, 2]))), ppow(Y, pdeg(A, y) + rng.choice([1, 1, 2]))))
        extra = []
    order = lows[:]
    rng.shuffle(order)
    return mk_case("iso", order + [y], A, assign, extra + ["cls=U"]), "U"


def small_enough_D(case):
    main = case.split(" | ")[0].split()
    terms = main[2].split("+")
    alg = any(main[5 + 2 * i][0] in "ra" for i in range(int(main[3])))
    y = main[1].split(",")[-1]
    dy = max([int(f[1:].split("^")[1]) for t in terms for f in t.split("*")[1:] if f[1:].split("^")[0] == y] + [0])
    return len(terms) <= (45 if alg else 70) and dy <= (7 if alg else 10)



def small_enough(case):
    """keep the exact arithmetic on both sides affordable: few terms, low degrees in the assigned variables"""
    main = case.split(" | ")[0].split()
    poly = main[2]
    terms = poly.split("+")
    if len(terms) > 36:
        return False
    y = main[1].split(",")[-1]
    algvars = {main[4 + 2 * i] for i in range(int(main[3])) if main[5 + 2 * i][0] in "ra"}
    lowvars = set()
    for t in terms:
        for f in t.split("*")[1:]:
            if f[1:].split("^")[0] != y:
                lowvars.add(f[1:].split("^")[0])
    many = len(lowvars) >= 3      # the library's multivariate gcd (square-free factorisation) swells quickly with 3 parameters
    if many and len(terms) > 12:
        return False
    for t in terms:
        if many:
            for f in t.split("*")[1:]:
                v, e = f[1:].split("^")
                if int(e) > (3 if v == y else 2):
                    return False
        tot = 0
        for f in t.split("*")[1:]:
            v, e = f[1:].split("^")
            e = int(e)
            tot += e
            if v != y and e > (3 if v in algvars else 4):
                return False
            if v == y and e > 5:
                return False
        if tot > 7:
            return False
    return True


def heavy_for_sweep(case):
    """C12 repeats the isolation ~20 times per case: no high powers, and with an irrational parameter and no known
    factor structure at most a quadratic in y (irreducible cubics over Q(sqrt d) give degree-6 roots)"""
    main = case.split(" | ")[0].split()
    poly = main[2]
    if "^4" in poly or "^5" in poly:
        return True
    y = main[1].split(",")[-1]
    alg = any(main[5 + 2 * i][0] in "ra" for i in range(int(main[3])))
    if alg and " | " not in case and ("x%s^3" % y) in poly:
        return True
    return False


def gen_cases(rng, n, op="iso", light=False):
    cases = []
    LIGHT[0] = light
    try:
        while len(cases) < n:
            # classes K and U (16 %, not in C12's light stream, which is left exactly as it was) are drawn first; the
            # quick / thorough sizes were raised accordingly, so the other classes keep their shares AND their numbers
            k0 = 1.0 if light else rng.random()
            if k0 < 0.16:
                c, _ = (shape_K if k0 < 0.09 else shape_U)(rng)
                if len(c.split()[2].split("+")) <= (40 if k0 < 0.09 else 30):
                    cases.append(op.strip() + c[3:])
                continue
            k = rng.random()
            if k > 0.94:
                c, _ = shape_Z(rng)
                ok = True
            elif k > 0.86:
                c, _ = shape_A(rng)
                ok = True
            elif k > 0.81 and not light:
                c, _ = shape_C(rng)
                ok = True
            elif k < 0.10:
                c, _ = shape_D(rng)
                # (C12 repeats the isolation ~20 times per case: only the cheaper ones there)
                ok = small_enough_D(c) and not (light and ("^7" in c.split()[2] or "^8" in c.split()[2] or "^9" in c.split()[2] or "^10" in c.split()[2]))
            elif k < 0.20 and not light:
                c, _ = shape_N(rng)
                ok = True
            elif k < 0.28 and not light:
                c, _ = shape_V(rng)
                ok = len(c.split()[2].split("+")) <= 40
            else:
                c, _ = (shape_S if rng.random() < 0.55 else shape_E)(rng)
                ok = small_enough(c) and not (light and heavy_for_sweep(c))
            if ok:
                cases.append(op.strip() + c[3:])
    finally:
        LIGHT[0] = False
    return cases


def generate(rng, tier, corpus_only=False):
    # the hand-written boundary cases HAND are in corpus/C11.txt, which every run executes first
    n = 476 if tier == "quick" else 4285      # (400 / 3600 before classes K and U, 16 %, were added)
    # op isof: the per-factor root lists against the extracted assembly model (sort / de-duplicate / exit)
    return gen_cases(rng, n) + gen_cases(rng, n // 4, "isof")


def _parts(case):
    main = case.split(" | ")[0].split()
    return main


def tag(case):
    main = _parts(case)
    toks = main[4:]
    nalg = sum(1 for t in toks[1::2] if t[0] in "ra")
    kind = "S" if (" lc=" in case or " lin=" in case or " quad=" in case) else "E"
    if " cls=D" in case:
        kind = "D"
    if " cls=N" in case:
        kind = "N"
    if " cls=V" in case:
        kind = "V"
    if " cls=Z" in case:
        kind = "Z"
    if " cls=A" in case:
        kind = "A"
    if " cls=C" in case:
        kind = "C"
    if " cls=K" in case:
        kind = "K"
    if " cls=U" in case:
        kind = "U"
    return "%s-%s-alg%d" % (main[0], kind, nalg)


def nontrivial(case):
    main = _parts(case)
    return "^2" in main[2] or "^3" in main[2] or any(t[0] in "ra" for t in main[5::2])


def explain(case, c_out, m_out):
    return ("lp_polynomial_roots_isolate on the polynomial/assignment of the case (harness/c11.c op iso) printed `%s`; "
            "the model compared it with the exact real roots of the specialised polynomial: %s" % (c_out, m_out))


RULE = ("seeded structured generator gen/C11.py: products lc*prod(a y - b)*quadratic with the factor structure re-checked "
        "by the model, and sparse polynomials with one irrational parameter checked by an independent resultant "
        "elimination + exact zero test; hand-written boundary cases and corpus first")
ASSUMPTIONS = ["the polynomial has main variable y, the top of the variable order, and every lower variable is assigned",
               "degrees in y <= 5 and at most two irrational parameters per case (cost of the exact reference arithmetic)"]
TRUSTED = ["reference real algebraic arithmetic coq/RefAlg.v (Sturm sequences, resultants; extracted, no theorems) and the "
           "OCaml glue ocaml/feas_common.ml (substitution of rationals, elimination, factor-structure check)"]
TIMEOUT = 2400


def extra_coverage(cases, couts, mouts):
    """how the model side disposed of the cases: checked / skipped (no exact reference available) / out of fuel"""
    d = {}
    for m in mouts:
        k = "none" if m is None else (("accepted by the VERIFIED checker" if m.startswith("CHECK ok verified") else
                                       "accepted by the unverified reference only (outside the checker's scope)" if m.startswith("CHECK ok")
                                       else "rejected") if m.startswith("CHECK") else m.split()[0].lower())
        d[k] = d.get(k, 0) + 1
    roots = {}
    for o in couts:
        if o and o.startswith("R "):
            n = o.split()[1]
            roots[n] = roots.get(n, 0) + 1
    return {"model_disposition": d, "cases_by_number_of_real_roots": roots}
