"""C09 case generator: random HISTORIES of queries / refinements / arithmetic / copies / model-value uses over a pool of
6 numbers and 3 polynomials.  Every random choice comes from the one `rng` passed in.

case :=  c09 <mode> <v0> ... <v5> <p0> <p1> <p2> ; <op> ...        (see harness/c09.c for the operations)

The generator keeps a float approximation and a degree bound of every slot so that (a) comparisons are aimed at
rationals / dyadics NEAR the number (they force refinement; exact hits of secretly rational numbers force the
collapse / "root found" branches), (b) sums, products and evaluations stay at algebraic degree <= 16.
"""
import math
from fractions import Fraction

HARNESS = "c09"
LEVEL = "proof"
TIMEOUT = 900
NS = 6

# ------------------------------------------------------------------------------------------------ float root finding

def _peval(cs, x):
    r = 0.0
    for c in reversed(cs):
        r = r * x + c
    return r


def _deriv(cs):
    return [i * c for i, c in enumerate(cs)][1:]


def real_roots(cs):
    """real roots (floats, increasing) of the integer polynomial cs (low degree first) by recursion on the derivative;
    returns None when a root is not clearly simple / separated (the generator then drops the polynomial)"""
    cs = list(cs)
    while cs and cs[-1] == 0:
        cs.pop()
    if len(cs) <= 1:
        return []
    if len(cs) == 2:
        return [-cs[0] / cs[1]]
    crit = real_roots(_deriv(cs))
    if crit is None:
        return None
    bound = 1.0 + max(abs(c) for c in cs) / abs(cs[-1])
    pts = [-bound] + crit + [bound]
    roots = []
    for lo, hi in zip(pts, pts[1:]):
        flo, fhi = _peval(cs, lo), _peval(cs, hi)
        if abs(flo) < 1e-9 or abs(fhi) < 1e-9:
            return None
        if flo * fhi > 0:
            continue
        for _ in range(200):
            m = (lo + hi) / 2
            fm = _peval(cs, m)
            if fm == 0:
                lo = hi = m
                break
            if fm * flo < 0:
                hi = m
            else:
                lo, flo = m, fm
        roots.append((lo + hi) / 2)
    for a, b in zip(roots, roots[1:]):
        if b - a < 1e-3:
            return None
    return roots


# ------------------------------------------------------------------------------------------------ pool numbers
# (token, float value, bound on the algebraic degree, is it an lp_algebraic_number)

def dy_tok(a, n):
    while n > 0 and a % 2 == 0:
        a //= 2
        n -= 1
    return "%d/%d" % (a, n)


def fixed_numbers():
    s2, s3 = math.sqrt(2), math.sqrt(3)
    L = {
        "sqrt2": ("r:-2,0,1:1", s2, 2),
        "-sqrt2": ("r:-2,0,1:0", -s2, 2),
        "sqrt3": ("r:-3,0,1:1", s3, 2),
        "-sqrt3": ("r:-3,0,1:0", -s3, 2),
        # the three real roots of x^3 - 3x + 1
        "cub0": ("r:1,-3,0,1:0", 2 * math.cos(8 * math.pi / 9), 3),
        "cub1": ("r:1,-3,0,1:1", 2 * math.cos(14 * math.pi / 9), 3),
        "cub2": ("r:1,-3,0,1:2", 2 * math.cos(2 * math.pi / 9), 3),
        "cbrt2": ("r:-2,0,0,1:0", 2 ** (1 / 3), 3),
        # secretly rational: root 1/3 of (3x-1)(x^2-2) in (0,1); root 3/8 of (8x-3)(x^2-2) in (0,1);
        # root 2 of (x-2)(x^2-3) in (15/8,17/8) (collapses while it is constructed); 5/7 of (7x-5)(x^2+1)
        "sec1/3": ("a:2,-6,-1,3:0/0:1/0", 1 / 3, 3),
        "sec3/8": ("a:6,-16,-3,8:0/0:1/0", 3 / 8, 3),
        "sec2": ("a:6,-3,-2,1:15/3:17/3", 2.0, 3),
        "sec5/7": ("a:-5,7,-5,7:0/0:1/0", 5 / 7, 3),
        # rational numbers held as algebraic numbers with a polynomial of degree 1
        "alg1/3": ("r:-1,3:0", 1 / 3, 1),
        "alg5/7": ("r:-5,7:0", 5 / 7, 1),
        "alg-7/5": ("r:7,5:0", -7 / 5, 1),
        # sqrt2 again, behind other polynomials: x^4-4 on (1,2), (x^2-2)(x-3) on (1,2)
        "sqrt2b": ("a:-4,0,0,0,1:1/0:2/0", s2, 4),
        "sqrt2c": ("a:6,-2,-3,1:1/0:2/0", s2, 3),
        "sqrt3b": ("a:-9,0,0,0,1:1/0:2/0", s3, 4),
        # nearly sqrt2: convergents, and the root of 10^6 x^2 = 2*10^6 + 1
        "q1393/985": ("q:1393/985", 1393 / 985, 1),
        "alg1393/985": ("r:-1393,985:0", 1393 / 985, 1),
        "q665857/470832": ("q:665857/470832", 665857 / 470832, 1),
        "near2": ("r:-2000001,0,1000000:1", math.sqrt(2.000001), 2),
        "near2n": ("r:-2000001,0,1000000:0", -math.sqrt(2.000001), 2),
        "near3": ("r:-30001,0,10000:1", math.sqrt(3.0001), 2),
        # sqrt2 + sqrt3 (degree 4), golden ratio
        "s2+s3": ("r:1,0,-10,0,1:3", s2 + s3, 4),
        "s3-s2": ("r:1,0,-10,0,1:2", s3 - s2, 4),
        "phi": ("r:-1,-1,1:1", (1 + math.sqrt(5)) / 2, 2),
    }
    return L


FIXED = fixed_numbers()


def random_rational(rng):
    k = rng.random()
    if k < 0.3:
        z = rng.randint(-5, 5)
        return ("z:%d" % z, float(z), 1)
    if k < 0.6:
        n = rng.randint(1, 6)
        a = rng.randint(-40, 40) | 1
        return ("d:" + dy_tok(a, n), a / 2 ** n, 1)
    f = Fraction(rng.randint(-30, 30), rng.choice([3, 5, 7, 9, 11, 12, 1000]))
    if f.denominator == 1:
        return ("z:%d" % f.numerator, float(f), 1)
    if f.denominator & (f.denominator - 1) == 0:
        return ("d:" + dy_tok(f.numerator, f.denominator.bit_length() - 1), float(f), 1)
    return ("q:%d/%d" % (f.numerator, f.denominator), float(f), 1)


def random_root(rng):
    """k-th real root of a random small polynomial (degree 2..4)"""
    for _ in range(50):
        d = rng.choice([2, 2, 3, 3, 4])
        cs = [rng.randint(-6, 6) for _ in range(d + 1)]
        if cs[-1] == 0 or cs[0] == 0:
            continue
        rs = real_roots(cs)
        if not rs:
            continue
        k = rng.randrange(len(rs))
        return ("r:%s:%d" % (",".join(map(str, cs)), k), rs[k], d)
    return FIXED["phi"]


def frac_tok(fr):
    """dyadic Fraction -> a/n token"""
    n = fr.denominator.bit_length() - 1
    assert fr.denominator == 1 << n
    return "%d/%d" % (fr.numerator, n)


def straddle_number(rng):
    """`a:` token: root of x^2 - c (or x^3 - c) with an isolating interval SHORTER than 1 that STRADDLES an integer k (so
    that lp_algebraic_number_construct has to split at k to establish "no integer strictly inside"; k usually does not
    divide the constant term); several widths, both signs"""
    for _ in range(100):
        e = rng.choice([2, 2, 2, 3])
        c = rng.randint(2, 70)
        v = c ** (1.0 / e)
        k = int(round(v))
        if abs(v - k) < 1e-9 or k == 0:
            continue
        j = rng.choice([1, 2, 3, 4, 5, 6])
        lo_max = min(v, k)
        hi_min = max(v, k)
        lo = Fraction(int(math.floor(lo_max * 2 ** j)) - rng.choice([0, 0, 1]), 2 ** j)
        if lo >= lo_max:
            lo -= Fraction(1, 2 ** j)
        jh = rng.choice([1, 2, 3, 4, 5, 6])
        hi = Fraction(int(math.ceil(hi_min * 2 ** jh)) + rng.choice([0, 0, 1]), 2 ** jh)
        if hi <= hi_min:
            hi += Fraction(1, 2 ** jh)
        if not (lo < k < hi and lo < v < hi and hi - lo < 1 and lo > 0):
            continue
        cs = [-c] + [0] * (e - 1) + [1]
        if rng.random() < 0.3 and e == 2:
            # the negative root: p(-x) has the same coefficients for even e
            return ("a:%s:%s:%s" % (",".join(map(str, cs)), frac_tok(-hi), frac_tok(-lo)), -v, e)
        return ("a:%s:%s:%s" % (",".join(map(str, cs)), frac_tok(lo), frac_tok(hi)), v, e)
    return ("a:-10,0,1:23/3:13/2", math.sqrt(10), 2)


def inverse_source(rng):
    """1/sqrt(n) as root of n x^2 - 1, n = k^2 +- 1 ...: lp_value_inv of it builds sqrt(n) from an interval around k"""
    k = rng.randint(2, 9)
    n = k * k + rng.choice([1, 1, -1, 2, 3])
    return ("r:-1,0,%d:1" % n, 1 / math.sqrt(n), 2)


def deep_dyadic(rng):
    """n + m/2^d (m odd, d between 21 and 40: deeper than lp_value_approx refines) as the root of the REDUCIBLE cubic
    (2^d x - (n 2^d + m)) (x^2 - 7) on (n, n+1), n in {0, 1}: not rational for libpoly (degree 3), but a bisection that
    reaches depth d hits it exactly and the value collapses to a point in the middle of whatever loop is running.
    Returns (number, (2^d, n 2^d + m)) - the linear factor, for polynomials that vanish exactly there"""
    d = rng.choice([21, 22, 24, 24, 27, 30, 33, 40])
    n = rng.choice([0, 1, 1])
    k = rng.random()
    m = 1 if k < 0.4 else ((1 << d) - 1 if k < 0.6 else (rng.randrange(1, 1 << d) | 1))
    a, b = 1 << d, n * (1 << d) + m
    cs = [7 * b, -7 * a, -b, a]          # (a x - b)(x^2 - 7)
    return ("a:%s:%d/0:%d/0" % (",".join(map(str, cs)), n, n + 1), b / a, 3), (a, b)


# Families of numbers that libpoly holds with IDENTICAL isolating intervals (the `a:` interval is shorter than 1 and has
# no integer inside, so lp_algebraic_number_construct keeps it as given): lp_algebraic_number_cmp then takes the
# "equal intervals" branch (gcd test, reduction of both polynomials, bisect-away loop).  Members are reducible
# polynomials sharing factors whose roots lie OUTSIDE the interval, rationals and dyadics hidden behind a polynomial,
# several of them exactly at the mid point of the interval (they collapse on the first bisection).
# (lo, hi, [(coefficients low first, value as Fraction or float)])
FAMILIES = [
    ("1/0", "3/1", [
        ([6, 0, -5, 0, 1], math.sqrt(2)),            # (x^2-2)(x^2-3)
        ([-2, 0, 1], math.sqrt(2)),
        ([12, -9, -4, 3], Fraction(4, 3)),           # (x^2-3)(3x-4)
        ([-4, 3], Fraction(4, 3)),
        ([15, -12, -5, 4], Fraction(5, 4)),          # (4x-5)(x^2-3): the mid point
        ([-5, 4], Fraction(5, 4)),
        ([33, -24, -11, 8], Fraction(11, 8)),        # (8x-11)(x^2-3)
        ([-21, 16], Fraction(21, 16)),
    ]),
    ("1/2", "1/1", [
        ([-3, 8], Fraction(3, 8)),                   # the mid point of (1/4, 1/2)
        ([6, -16, -3, 8], Fraction(3, 8)),           # (8x-3)(x^2-2)
        ([-1, 2, 1], math.sqrt(2) - 1),
        ([2, -4, -3, 2, 1], math.sqrt(2) - 1),       # (x^2+2x-1)(x^2-2)
        ([-1, 3], Fraction(1, 3)),
        ([2, -6, -1, 3], Fraction(1, 3)),            # (3x-1)(x^2-2)
        ([-7, 16], Fraction(7, 16)),
        ([10, -32, -5, 16], Fraction(5, 16)),        # (16x-5)(x^2-2)
        ([-1, 2, 2], (math.sqrt(3) - 1) / 2),
    ]),
    ("2/0", "5/1", [
        ([-5, 0, 1], math.sqrt(5)),
        ([10, 0, -7, 0, 1], math.sqrt(5)),           # (x^2-5)(x^2-2)
        ([-9, 4], Fraction(9, 4)),                   # the mid point
        ([18, -8, -9, 4], Fraction(9, 4)),           # (4x-9)(x^2-2)
        ([-7, 3], Fraction(7, 3)),
        ([14, -6, -7, 3], Fraction(7, 3)),           # (3x-7)(x^2-2)
        ([-17, 8], Fraction(17, 8)),
    ]),
    ("-3/1", "-1/0", [
        ([-2, 0, 1], -math.sqrt(2)),
        ([6, 0, -5, 0, 1], -math.sqrt(2)),
        ([5, 4], Fraction(-5, 4)),                   # the mid point
        ([-15, -12, 5, 4], Fraction(-5, 4)),         # (4x+5)(x^2-3)
        ([4, 3], Fraction(-4, 3)),
        ([-12, -9, 4, 3], Fraction(-4, 3)),          # (3x+4)(x^2-3)
    ]),
]


def family_members(rng):
    """2..4 members of one family (+ sometimes the plain d:/q: value of a rational member); returns
    [(number, is_family_member, hidden_rational)]"""
    lo, hi, members = rng.choice(FAMILIES)
    k = rng.choice([2, 3, 3, 4])
    # always a rational / dyadic member and an irrational one when possible
    rats = [m for m in members if isinstance(m[1], Fraction)]
    irr = [m for m in members if not isinstance(m[1], Fraction)]
    pick = [rng.choice(rats), rng.choice(irr)]
    rest = [m for m in members if m not in pick]
    rng.shuffle(rest)
    pick += rest[:k - 2]
    rng.shuffle(pick)
    out = []
    for cs, v in pick:
        out.append((("a:%s:%s:%s" % (",".join(map(str, cs)), lo, hi), float(v), len(cs) - 1), True, isinstance(v, Fraction)))
    if rng.random() < 0.6:
        v = rng.choice([m[1] for m in pick if isinstance(m[1], Fraction)])
        if v.denominator & (v.denominator - 1) == 0:
            tok = "d:" + dy_tok(v.numerator, v.denominator.bit_length() - 1)
        else:
            tok = "q:%d/%d" % (v.numerator, v.denominator)
        out.append(((tok, float(v), 1), False, False))
    return out


def make_pool(rng):
    """6 numbers: always some rational, sqrt2-family, a cubic root, a secretly rational number and a nearly-equal pair"""
    groups = [
        [random_rational(rng)],
        [FIXED[rng.choice(["sqrt2", "-sqrt2", "sqrt3", "sqrt2b", "sqrt2c"])]],
        [FIXED[rng.choice(["cub0", "cub1", "cub2", "cbrt2", "phi", "s2+s3", "s3-s2"])]],
        [FIXED[rng.choice(["sec1/3", "sec3/8", "sec2", "sec5/7", "alg1/3", "alg5/7", "alg-7/5"])]],
    ]
    pair = rng.choice([("sqrt2", "q1393/985"), ("sqrt2", "near2"), ("sqrt2", "sqrt2b"), ("sqrt2c", "sqrt2b"),
                       ("sqrt2", "alg1393/985"), ("sqrt2", "q665857/470832"), ("-sqrt2", "near2n"), ("sqrt3", "near3"),
                       ("sqrt3", "sqrt3b"), ("sec1/3", "alg1/3"), ("sec5/7", "alg5/7"), ("near2", "sqrt2c")])
    pool = [g[0] for g in groups] + [FIXED[pair[0]], FIXED[pair[1]]]
    # sometimes replace one entry (not the nearly-equal pair) by a random root / a random rational / another fixed number
    for _ in range(rng.choice([0, 1, 1, 2])):
        i = rng.randrange(NS - 2)
        k = rng.random()
        pool[i] = random_root(rng) if k < 0.5 else (random_rational(rng) if k < 0.7 else FIXED[rng.choice(sorted(FIXED))])
    # numbers aimed at the representation invariants: an interval straddling an integer, a source for inv/div, a
    # deep dyadic root behind a reducible polynomial
    deep = None
    free = list(range(NS - 2))
    rng.shuffle(free)
    if rng.random() < 0.5:
        pool[free.pop()] = straddle_number(rng)
    if rng.random() < 0.4:
        pool[free.pop()] = inverse_source(rng)
    if rng.random() < 0.4:
        k = free.pop()
        pool[k], lin = deep_dyadic(rng)
        deep = (k, lin)
    perm = list(range(NS))
    rng.shuffle(perm)
    pool = [pool[k] for k in perm]
    if deep is not None:
        deep = (perm.index(deep[0]), deep[1])
    pair = (perm.index(NS - 2), perm.index(NS - 1))
    fam, hidden = [], []
    if rng.random() < 0.55:
        slots = [k for k in range(NS) if (deep is None or k != deep[0]) and (k not in pair or rng.random() < 0.5)]
        rng.shuffle(slots)
        for (num, is_member, is_hidden), k in zip(family_members(rng), slots):
            pool[k] = num
            if is_member:
                fam.append(k)
            if is_hidden:
                hidden.append(k)
    return pool, pair, deep, fam, hidden


# ------------------------------------------------------------------------------------------------ foreign roots
# Numbers whose defining polynomial is REDUCIBLE and has an integer / dyadic / rational root w that is NOT the number:
# (x - z) g(x) and (c x - n) g(x) with g irreducible, the number being a root of g.  Root isolation only makes polynomials
# square-free and the resultants of the arithmetic are reducible too, so libpoly holds such numbers all the time; every
# query that looks at the polynomial (comparison with an integer / dyadic / rational, sgn, hash) has to look at the
# isolating interval FIRST - "w is a zero of f" says nothing about the number.  The answer must also be the same before and
# after the polynomial is replaced by a factor (comparison with the same number behind g alone: reduction to the gcd).

IRREDUCIBLE = [[-2, 0, 1], [-3, 0, 1], [-5, 0, 1], [-7, 0, 1], [-10, 0, 1], [-1, -1, 1], [-1, 2, 1], [-1, 0, 2], [1, -4, 1],
               [-1, -3, 1], [-2, 0, 0, 1], [-3, 0, 0, 1], [1, -3, 0, 1], [-1, -1, 0, 1], [-2, 0, 0, 0, 1]]
BATTERY_Q = [Fraction(-7, 5), Fraction(1, 3), Fraction(3, 2)]      # harness/c09.c BATQ: compared with EVERY slot after EVERY step


def pmul(p, q):
    r = [0] * (len(p) + len(q) - 1)
    for i, a in enumerate(p):
        for j, b in enumerate(q):
            r[i + j] += a * b
    return r


def q_tok(w):
    return "%d/%d" % (w.numerator, w.denominator)


def is_dyadic(w):
    return w.denominator & (w.denominator - 1) == 0


def plain_value(w):
    """the rational w as a plain z: / d: / q: pool value"""
    if w.denominator == 1:
        return ("z:%d" % w.numerator, float(w), 1)
    if is_dyadic(w):
        return ("d:" + frac_tok(w), float(w), 1)
    return ("q:" + q_tok(w), float(w), 1)


def foreign_root_candidates(rng, v):
    """rationals to be the OTHER root of the defining polynomial of the number v (a float): integers at and next to
    floor / ceiling, far integers, dyadics (mid point of the unit interval of v: the first bisection point; neighbours at
    depth 2..4), rationals close to v, and the three rationals the battery compares every slot with"""
    fl = math.floor(v)
    k = rng.random()
    if k < 0.40:
        w = Fraction(rng.choice([fl, fl + 1, fl, fl + 1, fl - 1, fl + 2, 3, -2, 7, -fl, -fl - 1, rng.randint(-9, 9)]))
    elif k < 0.62:
        j = rng.choice([1, 1, 2, 3, 4])
        w = rng.choice([Fraction(2 * fl + 1, 2), Fraction(2 * fl + 1, 2),
                        Fraction(math.floor(v * 2 ** j), 2 ** j), Fraction(math.floor(v * 2 ** j) + 1, 2 ** j),
                        Fraction(math.floor(v * 2 ** j) - 1, 2 ** j), Fraction(rng.randint(-20, 20) | 1, 2 ** j)])
    elif k < 0.80:
        w = rng.choice(BATTERY_Q)
    else:
        w = rng.choice([Fraction(v).limit_denominator(rng.choice([3, 5, 7, 12])),
                        Fraction(math.floor(v * 3) + rng.choice([0, 1]), 3), Fraction(rng.randint(-20, 20), rng.choice([3, 5, 7]))])
    return w


def foreign_root_number(rng, g=None, kroot=None):
    """((token, float, degree), w, (g, index of the number among the real roots of g)): a root v of the irreducible g held
    as a root of (c x - n) g(x), w = n/c != 0.  Either an `r:` token (k-th root of the product: through
    lp_upolynomial_roots_isolate) or an `a:` token (the product with an isolating interval given as a dyadic cell)"""
    for _ in range(200):
        gg = g if g is not None else rng.choice(IRREDUCIBLE)
        rs = real_roots(gg)
        if not rs:
            continue
        k0 = kroot if kroot is not None else rng.randrange(len(rs))
        v = rs[k0]
        w = foreign_root_candidates(rng, v)
        if w == 0 or abs(float(w) - v) < 1e-7 or any(abs(float(w) - r) < 1e-7 for r in rs):
            continue
        cs = pmul([-w.numerator, w.denominator], gg)
        allr = sorted(rs + [float(w)])
        if rng.random() < 0.5:
            return ("r:%s:%d" % (",".join(map(str, cs)), allr.index(v)), v, len(cs) - 1), w, (gg, k0)
        j = rng.choice([1, 2, 2, 3, 4, 5])
        lo = Fraction(math.floor(v * 2 ** j), 2 ** j)
        hi = lo + Fraction(1, 2 ** j)
        if not (float(lo) < v < float(hi)) or lo <= w <= hi or any(float(lo) - 1e-9 <= r <= float(hi) + 1e-9 for r in rs if r != v):
            continue
        return ("a:%s:%s:%s" % (",".join(map(str, cs)), frac_tok(lo), frac_tok(hi)), v, len(cs) - 1), w, (gg, k0)
    return ("a:6,-2,-3,1:1/0:3/1", math.sqrt(2), 3), Fraction(3), ([-2, 0, 1], 1)


def foreign_queries(rng, i, v, w, comp=None, scale=1):
    """queries of slot i (value v, foreign root w of its polynomial) AT w and next to it; comp = a slot that holds w as a
    plain value; scale = -1 when slot i holds the negated number (foreign root -w)"""
    if scale == -1:
        v, w = -v, -w
    ops = []
    if w.denominator == 1:
        ops.append("cz:%d:%d" % (i, w.numerator))
    elif is_dyadic(w):
        ops.append("cd:%d:%s" % (i, frac_tok(w)))
    else:
        ops.append("cq:%d:%s" % (i, q_tok(w)))
    more = ["cq:%d:%s" % (i, q_tok(w)), "fl:%d" % i, "ce:%d" % i, "ii:%d" % i, "sg:%d" % i, "ra:%d" % i, "ra:%d" % i,
            "cz:%d:%d" % (i, math.floor(w)), "cz:%d:%d" % (i, math.floor(w) + 1), "cz:%d:%d" % (i, math.floor(v)),
            "cz:%d:%d" % (i, math.floor(v) + 1), "cz:%d:%d" % (i, math.ceil(w) - 1),
            "cq:%d:%s" % (i, q_tok(w + Fraction(rng.choice([-1, 1]), rng.choice([2, 3, 10 ** 3, 10 ** 9])))),
            "ha:%d:%d" % (i, rng.choice([0, 2, 6, 10]))]
    if is_dyadic(w):
        more += ["cd:%d:%s" % (i, frac_tok(w)), "cd:%d:%s" % (i, frac_tok(w)),
                 "cd:%d:%s" % (i, frac_tok(w + Fraction(rng.choice([-1, 1]), 2 ** rng.choice([1, 3, 8, 30]))))]
    if comp is not None:
        more += ["cmp:%d:%d" % (i, comp), "cmp:%d:%d" % (comp, i), "cmp:%d:%d" % (i, comp)]
    rng.shuffle(more)
    ops += more[:rng.choice([3, 4, 5])]
    rng.shuffle(ops)
    return ops


def make_foreign_case(rng):
    """a case aimed at the foreign roots: pool = X (root of (c x - n) g), the same number behind g alone or behind another
    product (its comparison with X reduces the polynomials to the gcd), the foreign root w as a plain value, a second number Y
    of the class, -w or a small integer (arithmetic that moves the foreign root onto 0 / keeps it), a scratch slot;
    history = queries at w / change of the representation / the same queries again, for X, for Y, for copies and negations"""
    X, wx, (g, k0) = foreign_root_number(rng)
    k = rng.random()
    if k < 0.5:
        P = ("r:%s:%d" % (",".join(map(str, g)), k0), X[1], len(g) - 1)            # the same number, irreducible polynomial
    elif k < 0.8:
        P = foreign_root_number(rng, g, k0)[0]                                     # the same number, another foreign root
    else:
        P = foreign_root_number(rng, g)[0]                                         # usually another root of the same g
    Y, wy, _ = foreign_root_number(rng)
    W = plain_value(wx)
    eq = rng.choice([-wx, -wx, wy, Fraction(1), -wy])
    E = plain_value(eq)
    F = random_rational(rng) if rng.random() < 0.5 else FIXED[rng.choice(["sqrt2", "sqrt3", "phi", "alg1/3", "sec3/8"])]
    pool = [X, P, W, Y, E, F]
    perm = list(range(NS))
    rng.shuffle(perm)
    pool = [pool[k] for k in perm]
    x, p, wslot, y, e, f = (perm.index(k) for k in range(NS))
    lin = lambda s, w_: "%d*x%d^1+%d" % (w_.denominator, s, -w_.numerator)       # vanishes at the FOREIGN root only
    polys = [(lin(x, wx), [x], False), (lin(y, wy), [y], False),
             rng.choice([("1*x%d^1+-1*x%d^1" % (min(x, wslot), max(x, wslot)), [x, wslot], False),
                         ("1*x%d^1+-1*x%d^1" % (min(x, p), max(x, p)), [x, p], False),
                         ("1*x6^2+-1*x%d^1" % x, [x], True),
                         ("%d*x%d^1*x6^1+%d*x6^1+1" % (wx.denominator, x, -wx.numerator), [x], True)])]
    val = [q[1] for q in pool]
    ops = foreign_queries(rng, x, val[x], wx, wslot)
    changes = ["cmp", "cmp", "rf", "cp", "neg", "add", "poly", "db", "inv"]
    rng.shuffle(changes)
    for ch in changes[:rng.choice([3, 4, 5])]:
        t, tv, tw = (x, val[x], wx) if rng.random() < 0.65 else (y, val[y], wy)
        if ch == "cmp":
            ops += [rng.choice(["cmp:%d:%d" % (x, p), "cmp:%d:%d" % (p, x)])]
            ops += foreign_queries(rng, x, val[x], wx, wslot) + foreign_queries(rng, p, val[p], wx, wslot)[:2]
        elif ch == "rf":
            ops += ["rf:%d:%d" % (t, rng.choice([1, 2, 5, 12]))] + foreign_queries(rng, t, tv, tw, wslot if t == x else None)
        elif ch == "cp":
            ops += ["cp:%d:%d" % (f, t)] + foreign_queries(rng, f, tv, tw, wslot if t == x else None) + ["cmp:%d:%d" % (f, t)]
            pool[f] = (pool[f][0], tv, pool[t][2])
        elif ch == "neg":
            ops += ["neg:%d:%d" % (f, t)] + foreign_queries(rng, f, tv, tw, None, -1)
            pool[f] = (pool[f][0], -tv, pool[t][2])
        elif ch == "add":
            # X + (-w): the foreign root moves onto 0, where lp_value_sgn asks; X + e in general
            ops += ["add:%d:%d:%d" % (f, x, e), "sg:%d" % f, "cz:%d:0" % f, "fl:%d" % f,
                    "cq:%d:%s" % (f, q_tok(wx + eq)), "ra:%d" % f]
            pool[f] = (pool[f][0], val[x] + pool[e][1], pool[x][2])
        elif ch == "inv":
            ops += ["inv:%d:%d" % (f, t), "cq:%d:%s" % (f, q_tok(1 / tw)), "ra:%d" % f, "fl:%d" % f]
            pool[f] = (pool[f][0], 1 / tv, pool[t][2])
        elif ch == "poly":
            ops += [rng.choice(["ps:0", "pe:0", "ps:1", "pe:1", "ps:2" if not polys[2][2] else "pr:2"])]
            ops += foreign_queries(rng, t, tv, tw, wslot if t == x else None)
        else:
            ops += ["db:%d" % t] + foreign_queries(rng, t, tv, tw, wslot if t == x else None)
    ops += foreign_queries(rng, y, val[y], wy)
    # a short random tail over the same pool
    ops += history(rng, pool, polys, rng.randint(6, 12), maxdeg=9)
    mode = rng.choice("OCM")
    return "c09 %s:%d %s %s ; %s" % (mode, approx_magnitude(), " ".join(q[0] for q in pool), " ".join(q[0] for q in polys),
                                     " ".join(ops))


# ------------------------------------------------------------------------------------------------ pool polynomials
# (text, assigned variables used, uses x6)

def make_deep_poly(rng, deep, root_only):
    """polynomials that VANISH exactly at the deep dyadic root x_D = b/a (linear factor a x - b)"""
    D, (a, b) = deep
    B = rng.choice([k for k in range(NS) if k != D])
    if root_only:
        t = rng.choice([
            ("1*x6^2+%d*x%d^1+-%d" % (a, D, b), [D]),                   # x6^2 + (a x_D - b): double root 0
            ("%d*x%d^1*x6^1+-%d*x6^1+1*x6^2" % (a, D, b), [D]),        # x6 (x6 + a x_D - b)
            ("1*x%d^1*x6^1+-1*x%d^1" % (D, B), [D, B]),
        ])
        return (t[0], t[1], True)
    lo, hi = min(D, B), max(D, B)
    t = rng.choice([
        ("%d*x%d^1+-%d" % (a, D, b), [D]),
        ("%d*x%d^1+-%d" % (a, D, b), [D]),
        ("%d*x%d^1*x%d^1+-%d*x%d^1" % (a, lo, hi, b, B), [D, B]),      # x_B (a x_D - b)
        ("%d*x%d^2+-%d*x%d^1" % (a, D, b, D), [D]),                    # x_D (a x_D - b)
        ("%d*x%d^1+-%d" % (a, D, b + 1), [D]),                          # off by 2^-d: tiny but not zero
        ("%d*x%d^1+1*x%d^1+-%d" % (a, D, B, b), [D, B]),               # = x_B
    ])
    return (t[0], t[1], False)


def make_poly(rng, root_only, pair=None):
    A, B, C = rng.sample(range(NS), 3)
    if pair is not None and rng.random() < 0.45:
        # aim at the nearly-equal pair: tiny or zero values force the refinement loops of sgn / evaluate
        A, B = pair if rng.random() < 0.5 else (pair[1], pair[0])
        C = rng.choice([k for k in range(NS) if k not in (A, B)])
    if pair is not None and (A, B) in (pair, (pair[1], pair[0])) and not root_only and rng.random() < 0.6:
        # difference / quotient-like expressions of the nearly-equal pair: the value is tiny (or exactly 0), so the
        # interval loops of coefficient_sgn and the root filter of coefficient_evaluate really have to narrow the values
        t = rng.choice([
            ("1*x%d^1+-1*x%d^1" % (A, B), [A, B]),
            ("1*x%d^1+-1*x%d^1" % (A, B), [A, B]),
            ("1*x%d^2+-1*x%d^2" % (A, B), [A, B]),
            ("1*x%d^1*x%d^1+-1*x%d^2" % (min(A, B), max(A, B), A), [A, B]),
            ("1*x%d^1+1*x%d^1" % (A, B), [A, B]),
            ("1000*x%d^1+-1000*x%d^1+1*x%d^1" % (A, B, C), [A, B, C]),
        ])
        return (t[0], t[1], False)
    if root_only:
        t = rng.choice([
            ("1*x6^2+-1*x%d^1" % A, [A]),
            ("1*x%d^1*x6^1+-1*x%d^1" % (A, B), [A, B]),
            ("1*x6^3+-1*x%d^1" % A, [A]),
            ("1*x6^2+1*x%d^1" % A, [A]),
            ("1*x6^2+-1*x%d^1*x6^1+-1" % A, [A]),
            ("1*x6^2+-1*x%d^2" % A, [A]),
            ("1*x%d^1*x6^2+-1*x%d^1" % (A, B), [A, B]),
        ])
        return (t[0], t[1], True)
    c = rng.choice([1, 2, 3, 6])
    t = rng.choice([
        ("1*x%d^2+-2" % A, [A]),
        ("1*x%d^2+-3" % A, [A]),
        ("3*x%d^1+-1" % A, [A]),
        ("1*x%d^1*x%d^1+-%d" % (min(A, B), max(A, B), c), [A, B]),
        ("1*x%d^1+1*x%d^1" % (A, B), [A, B]),
        ("1*x%d^1+-1*x%d^1" % (A, B), [A, B]),
        ("1*x%d^2+-1*x%d^1" % (A, B), [A, B]),
        ("1*x%d^2+-1*x%d^2+%d" % (A, B, rng.choice([-1, 1])), [A, B]),
        ("1*x%d^2+1*x%d^2+-1*x%d^1" % (A, B, C), [A, B, C]),
        ("1*x%d^1*x%d^1+-1*x%d^1" % (min(A, B), max(A, B), C), [A, B, C]),
        ("3*x%d^1*x%d^2+-6*x%d^1" % (min(A, B), max(A, B), min(A, B)), [A, B]) if A < B else ("1*x%d^1+-1*x%d^1" % (A, B), [A, B]),
        ("1*x%d^1+1*x%d^1+-1*x%d^1" % (A, B, C), [A, B, C]),
    ])
    return (t[0], t[1], False)


# ------------------------------------------------------------------------------------------------ histories

def near_rational(rng, v):
    """a rational token n/d near the float v (sometimes exactly a simple fraction equal to the number)"""
    k = rng.random()
    if k < 0.35:
        f = Fraction(v).limit_denominator(rng.choice([1, 2, 3, 7, 10, 100, 1000, 10**6, 10**9]))
    elif k < 0.7:
        f = Fraction(v).limit_denominator(10**12) + Fraction(rng.choice([-1, 1]), rng.choice([3, 10**2, 10**4, 10**8, 10**11]))
    else:
        f = Fraction(rng.randint(-40, 40), rng.choice([1, 2, 3, 5, 7, 8, 985]))
    return "%d/%d" % (f.numerator, f.denominator)


def near_dyadic(rng, v):
    n = rng.choice([0, 1, 2, 3, 4, 8, 12, 20, 30, 40])
    a = int(math.floor(v * 2 ** n)) + rng.choice([0, 0, 1, -1])
    return dy_tok(a, n)


OPS = [("cmp", 18), ("cz", 5), ("cq", 10), ("cd", 8), ("sg", 4), ("fl", 3), ("ce", 3), ("ii", 1), ("db", 3), ("rf", 8),
       ("ha", 4), ("mi", 2), ("add", 3), ("sub", 2), ("mul", 3), ("neg", 1), ("inv", 3), ("div", 2), ("cp", 6), ("rc", 3), ("ps", 7), ("pe", 7),
       ("pr", 4)]


def scenario(rng, fam, hidden, alive):
    """scripted blocks of queries (they assign nothing): the same pair compared twice and in both orders; hashes taken
    before and after a query that collapses a hidden dyadic; `alive` = family slots not overwritten so far"""
    fam = [k for k in fam if k in alive]
    hidden = [k for k in hidden if k in alive]
    k = rng.random()
    if len(fam) >= 2 and (k < 0.5 or not hidden):
        i, j = rng.sample(fam, 2)
        return rng.choice([
            ["cmp:%d:%d" % (i, j), "cmp:%d:%d" % (i, j), "cmp:%d:%d" % (j, i)],
            ["cmp:%d:%d" % (i, j), "cmp:%d:%d" % (j, i), "cmp:%d:%d" % (i, j)],
            ["fl:%d" % i, "cmp:%d:%d" % (i, j), "sg:%d" % j, "cmp:%d:%d" % (i, j)],
        ])
    if hidden:
        h = rng.choice(hidden)
        p1, p2 = rng.sample([0, 2, 6, 10], 2)
        collapse = rng.choice([["rf:%d:%d" % (h, rng.choice([1, 3, 8, 40]))],
                               ["cmp:%d:%d" % (h, rng.choice(fam) if fam else h)],
                               ["db:%d" % h, "rf:%d:40" % h]])
        return ["ha:%d:%d" % (h, p1), "ha:%d:%d" % (h, p2)] + collapse + ["ha:%d:%d" % (h, p1), "ha:%d:%d" % (h, p2)]
    return []


def history(rng, pool, polys, length, maxdeg=16, fam=(), hidden=()):
    val = [p[1] for p in pool]
    deg = [p[2] for p in pool]
    names = [o for o, _ in OPS]
    weights = [w for _, w in OPS]
    ops = []
    arith = 0
    tries = 0
    alive = set(range(NS))
    if (fam or hidden) and rng.random() < 0.75:
        ops += scenario(rng, fam, hidden, alive)            # on the pristine pool
    while len(ops) < length and tries < 20 * length:
        tries += 1
        for o_ in ops[-1:]:
            f_ = o_.split(":")
            if f_[0] in ("add", "sub", "mul", "div", "neg", "inv", "cp"):
                alive.discard(int(f_[1]))
        if (fam or hidden) and rng.random() < 0.04:
            ops += scenario(rng, fam, hidden, alive)
            continue
        o = rng.choices(names, weights)[0]
        i = rng.randrange(NS)
        if o == "cmp":
            j = rng.randrange(NS)
            if j == i and rng.random() < 0.9:
                continue
            ops.append("cmp:%d:%d" % (i, j))
        elif o == "cz":
            ops.append("cz:%d:%d" % (i, int(math.floor(val[i])) + rng.choice([0, 0, 1, -1, 2])))
        elif o == "cq":
            ops.append("cq:%d:%s" % (i, near_rational(rng, val[i])))
        elif o == "cd":
            ops.append("cd:%d:%s" % (i, near_dyadic(rng, val[i])))
        elif o in ("sg", "fl", "ce", "ii", "db", "mi", "rc"):
            ops.append("%s:%d" % (o, i))
        elif o == "rf":
            ops.append("rf:%d:%d" % (i, rng.choice([1, 1, 2, 3, 5, 10, 30])))
        elif o == "ha":
            ops.append("ha:%d:%d" % (i, rng.choice([0, 0, 2, 6, 6, 10, 20])))
        elif o in ("add", "sub", "mul"):
            a, b = rng.randrange(NS), rng.randrange(NS)
            nd = deg[a] * deg[b]
            nv = val[a] + val[b] if o == "add" else (val[a] - val[b] if o == "sub" else val[a] * val[b])
            if nd > min(maxdeg, 8) or abs(nv) > 1e4 or arith >= 8:
                continue
            # never overwrite the last low-degree numbers: the pool must stay usable for polynomial operations
            if sum(1 for k in range(NS) if k != i and deg[k] <= 2) < 2:
                continue
            arith += 1
            ops.append("%s:%d:%d:%d" % (o, i, a, b))
            val[i], deg[i] = nv, nd
        elif o == "inv":
            a = rng.randrange(NS)
            if abs(val[a]) < 1e-6 or abs(val[a]) > 1e6 or arith >= 8 or deg[a] > 8:
                continue
            arith += 1
            ops.append("inv:%d:%d" % (i, a))
            val[i], deg[i] = 1 / val[a], deg[a]
        elif o == "div":
            a, b = rng.randrange(NS), rng.randrange(NS)
            nd = deg[a] * deg[b]
            if abs(val[b]) < 1e-6 or nd > min(maxdeg, 8) or arith >= 8 or abs(val[a] / val[b]) > 1e4:
                continue
            if sum(1 for k in range(NS) if k != i and deg[k] <= 2) < 2:
                continue
            arith += 1
            ops.append("div:%d:%d:%d" % (i, a, b))
            val[i], deg[i] = val[a] / val[b], nd
        elif o == "neg":
            a = rng.randrange(NS)
            ops.append("neg:%d:%d" % (i, a))
            val[i], deg[i] = -val[a], deg[a]
        elif o == "cp":
            a = rng.randrange(NS)
            if a == i:
                continue
            ops.append("cp:%d:%d" % (i, a))
            val[i], deg[i] = val[a], deg[a]
        elif o in ("ps", "pe", "pr"):
            k = rng.randrange(len(polys))
            text, vs, root_only = polys[k]
            if root_only and o != "pr":
                continue
            d = 1
            for v in vs:
                d *= deg[v]
            # polynomials with huge coefficients (2^21 .. 2^40, the ones vanishing at a deep dyadic root) only while the
            # values involved are still of small degree: the eliminants grow like coefficient^degree
            big = any(abs(int(c)) >= 1 << 16 for c in __import__("re").findall(r"-?\d+(?=\*|\+|$)", text))
            if d > (6 if big else (8 if o == "pr" else maxdeg)):
                continue
            ops.append("%s:%d" % (o, k))
    return ops


def make_case(rng, length):
    pool, pair, deep, fam, hidden = make_pool(rng)
    polys = [make_poly(rng, False, pair), make_poly(rng, False, pair), make_poly(rng, rng.random() < 0.7, pair)]
    if deep is not None:
        polys[0] = make_deep_poly(rng, deep, False)
        if rng.random() < 0.6:
            polys[2] = make_deep_poly(rng, deep, rng.random() < 0.5)
    rng.shuffle(polys)
    mode = rng.choice("OCM")
    ops = history(rng, pool, polys, length, fam=fam, hidden=hidden)
    return "c09 %s:%d %s %s ; %s" % (mode, approx_magnitude(), " ".join(p[0] for p in pool), " ".join(p[0] for p in polys),
                                     " ".join(ops))


_MAG = None


def approx_magnitude():
    """LP_VALUE_APPROX_MIN_MAGNITUDE of the tree under test (lp_value_approx refines a model value permanently down to
    this size before sgn / evaluate remember its interval); the model checks that nothing stays narrower than that"""
    global _MAG
    if _MAG is None:
        _MAG = -20
        try:
            import re, os
            repo = os.environ.get("VERIF_REPO", "/repo")
            m = re.search(r"#define\s+LP_VALUE_APPROX_MIN_MAGNITUDE\s+(-?\d+)", open(os.path.join(repo, "src/number/value.c")).read())
            if m:
                _MAG = int(m.group(1))
        except Exception:
            pass
    return _MAG


def generate(rng, tier):
    global TIMEOUT
    # budget of ONE driver process over all remaining cases (a hanging library call is reported as a crash of its case)
    TIMEOUT = 900 if tier == "quick" else 3000
    n = 70 if tier == "quick" else 600
    cases = []
    for k in range(n):
        r = rng.random()
        length = rng.randint(20, 50) if r < 0.5 else (rng.randint(50, 120) if r < 0.85 else rng.randint(120, 200))
        cases.append(make_case(rng, length))
    # the foreign-root class has its own stream (derived from the run's seed without drawing from `rng`): the cases above
    # are exactly what they were before the class existed
    import random as _random
    sub = _random.Random("C09-foreign-roots-%r-%s" % (rng.getstate()[1][:4], tier))
    for k in range(12 if tier == "quick" else 100):
        cases.append(make_foreign_case(sub))
    return cases


# ------------------------------------------------------------------------------------------------ reporting

def _ops(case):
    t = case.split()
    return t[t.index(";") + 1:] if ";" in t else []


def tag(case):
    t = case.split()
    ops = _ops(case)
    kinds = set(o.split(":")[0] for o in ops)
    return "mode%s:%s" % (t[1][0] if len(t) > 1 else "?", "poly" if kinds & {"ps", "pe", "pr"} else "num")


def nontrivial(case):
    t = case.split()
    ops = _ops(case)
    return len(ops) >= 10 and any(x.startswith(("r:", "a:")) for x in t[2:2 + NS])


RULE = ("seeded random histories (gen/C09.py; corpus of past failures first): 6-number pool (rational, sqrt2 family, cubic "
        "root, secretly rational algebraic number, nearly-equal pair) + 3 polynomials, 20-200 operations; plus foreign-root "
        "cases (numbers behind (c x - n) g queried at n/c before / after changes of the representation); distinct = "
        "distinct case line; non-trivial = at least 10 operations over a pool with an algebraic number")
ASSUMPTIONS = ["algebraic degrees stay <= 16 (generator bound); model values are installed in one lp_assignment_t",
               "termination of the bisection loops is not proved (fuel); the reference comparison uses fuel 4000"]
TRUSTED = ["reference real algebraic numbers coq/RefAlg.v (Sturm counting, resultants) as extracted: the denotation of "
           "every printed representation and every expected observation is computed with them; their own correctness "
           "is not proved in this check"]


def extra_coverage(cases, couts, mouts):
    hist = {}
    steps = 0
    for c in cases:
        for o in _ops(c):
            k = o.split(":")[0]
            hist[k] = hist.get(k, 0) + 1
            steps += 1
    return {"operation_histogram": hist, "history_steps": steps,
            "observations_rechecked": steps * 45, "representations_validated": steps * 12}


def _verdict(case):
    """run both drivers on one case: (c_out or None, model_out or None)"""
    import vlib
    clib = vlib.build_clib()
    cexe = vlib.build_cdriver(HARNESS, clib)
    try:
        mexe = vlib.build_mdriver("C09")     # per-property model drivers
    except TypeError:
        mexe = vlib.build_mdriver()
    couts, crashes, _ = vlib.run_driver(cexe, [], [case], timeout=40)
    co = couts[0]
    if co is None:
        return None, None
    mouts, _, _ = vlib.run_driver(mexe, ["C09"], [case + " => " + co], timeout=120)
    return co, mouts[0]


def _fails(case):
    co, mo = _verdict(case)
    return co is None or mo is None or mo.startswith("CHECK fail")


def shrink(case, budget=30):
    """delta debugging (ddmin) over the operation list of a failing history; the pool stays as it is"""
    t = case.split()
    k = t.index(";")
    head, ops = t[:k + 1], t[k + 1:]
    trials = 0
    n = 2
    while len(ops) >= 2 and trials < budget:
        chunk = max(1, len(ops) // n)
        reduced = False
        for start in range(0, len(ops), chunk):
            cand = ops[:start] + ops[start + chunk:]
            if not cand:
                continue
            trials += 1
            if _fails(" ".join(head + cand)):
                ops, n, reduced = cand, max(n - 1, 2), True
                break
            if trials >= budget:
                break
        if not reduced:
            if chunk == 1:
                break
            n = min(len(ops), n * 2)
    return " ".join(head + ops)


def explain(case, c_out, m_out):
    text = "model verdict: %s" % (m_out,)
    try:
        small = shrink(case)
        co, mo = _verdict(small)
        text += " || shrunk history (%d of %d operations): %s || verdict on it: %s" % (
            len(_ops(small)), len(_ops(case)), small, mo if co is not None else "the C driver crashes / does not return")
    except Exception as e:   # shrinking is a convenience, never a reason to lose the replay
        text += " || (shrinking failed: %r)" % (e,)
    return text
