HARNESS = "c10"
STALE_RERUN = True   # operands also re-run as stale external polynomials (see check)
LEVEL = "translation_validation"
"""C10 case generator: sign / value / constraint truth of a polynomial under a total assignment.

  ev <mode> <perm> <poly> <tok0> .. <tok(n-1)>   lp_polynomial_sgn, lp_assignment_sgn, constraint_evaluate x6,
                                                  lp_polynomial_evaluate, the assignment and the polynomial afterwards
  er <perm> <poly> <tok..>                        coefficient_evaluate_rationals (internal)
  rlb <c0,..,cn>                                  coefficient_root_lower_bound (internal)
  va <perm> <poly> <tok..>                        coefficient_value_approx (internal) against the model on C15 intervals
  sc <cond> <sign>                                lp_sign_condition_consistent
Every random choice comes from the one `rng` passed in."""
import os, sys, itertools
from fractions import Fraction
from math import gcd

# (re)derive the generated Gallina model of the sign-condition table from the C source of the tree under test
try:
    sys.path.insert(0, os.path.dirname(os.path.abspath(__file__)))
    import sc_translate
    sc_translate.regenerate()
except Exception as e:  # the check then fails in the Coq build / hygiene stage, never silently
    print("[C10] sc_translate failed:", e, file=sys.stderr)

TIMEOUT = 1500

# ---------------------------------------------------------------------------------------------- values
# algebraic numbers: (coefficients low..high, number of real roots, degree of the number field element or 1)
SQRT2 = "-2,0,1"
SQRT3 = "-3,0,1"
SQRT6 = "-6,0,1"
QUADS = [(SQRT2, 2), (SQRT3, 2), (SQRT6, 2), ("-5,0,1", 2), ("-1,-1,1", 2), ("-1,0,2", 2), ("-1,-2,1", 2), ("1,-3,1", 2),
         ("-7,0,3", 2)]
CUBICS = [("-2,0,0,1", 1), ("-4,0,0,1", 1), ("1,-3,0,1", 3), ("-1,-1,0,1", 1), ("-3,0,0,2", 1)]
# reducible / secretly rational: 3x^3-x^2-6x+2 = (x^2-2)(3x-1): roots -sqrt2, 1/3, sqrt2 ;  6x^2+x-2 = (2x-1)(3x+2)
SECRET = [("2,-6,-1,3", 3), ("-2,1,6", 2), ("-3,2", 1), ("6,-5,1", 2), ("-4,0,1", 2), ("2,-3,-2,3", 3), ("-1,0,4", 2)]
A_TOKENS = ["a:-2,0,1:1/0:2/0", "a:-2,0,1:5/2:3/1", "a:-2,0,1:-3/1:-5/2", "a:-3,0,1:3/1:7/2", "a:-2,0,0,1:1/0:3/1",
            "a:-2,0,1:11/3:23/4", "a:-6,0,1:2/0:5/1", "a:-1,-1,1:3/1:7/2", "a:-3,2:1/0:2/0", "a:2,-6,-1,3:1/2:1/1"]


def dy_tok(a, n):
    while n > 0 and a % 2 == 0:
        a //= 2
        n -= 1
    return "d:%d/%d" % (a, n)


def q_tok(fr):
    return "q:%d/%d" % (fr.numerator, fr.denominator)


def rat_value(rng, small=True):
    k = rng.random()
    if k < 0.4:
        return "z:%d" % rng.choice([0, 1, -1, 2, -2, 3, 5, -7, rng.randint(-12, 12)])
    if k < 0.65:
        return dy_tok(rng.choice([1, -1, 3, -3, 5, 7, -9, rng.randint(-20, 20) | 1]), rng.choice([1, 1, 2, 3, 5]))
    fr = Fraction(rng.randint(-12, 12), rng.choice([3, 5, 6, 7, 9, 11]))
    return q_tok(fr)


def alg_value(rng, cubic_ok=True):
    k = rng.random()
    if k < 0.6:
        c, n = rng.choice(QUADS)
    elif k < 0.8 and cubic_ok:
        c, n = rng.choice(CUBICS)
    elif k < 0.9:
        c, n = rng.choice(SECRET)
    else:
        return rng.choice(A_TOKENS if cubic_ok else [t for t in A_TOKENS if t.count(",") < 3])
    return "r:%s:%d" % (c, rng.randrange(n))


def is_alg(tok):
    return tok[0] in "ran"


def alg_degree(tok):
    return tok.split(":")[2 if tok[0] == "n" else 1].count(",")


# ---------------------------------------------------------------------------------------------- polynomials
def term(c, exps):
    return str(c) + "".join("*x%d^%d" % (i, e) for i, e in enumerate(exps) if e > 0)


def poly_text(terms):
    """terms: dict exps-tuple -> coefficient"""
    ts = [term(c, e) for e, c in terms.items() if c != 0]
    return "+".join(ts) if ts else "0"


def padd(p, q, k=1):
    r = dict(p)
    for e, c in q.items():
        r[e] = r.get(e, 0) + k * c
        if r[e] == 0:
            del r[e]
    return r


def pmul(p, q):
    r = {}
    for e1, c1 in p.items():
        for e2, c2 in q.items():
            e = tuple(a + b for a, b in zip(e1, e2))
            r[e] = r.get(e, 0) + c1 * c2
            if r[e] == 0:
                del r[e]
    return r


def pconst(c, n):
    return {(0,) * n: c} if c else {}


def pvar(i, n, e=1):
    return {tuple(e if j == i else 0 for j in range(n)): 1}


def rand_poly(rng, n, nterms, maxdeg, cmax=5):
    p = {}
    for _ in range(nterms):
        e = tuple(rng.choice([0, 0, 1, 1, 2] if maxdeg >= 2 else [0, 1]) for _ in range(n))
        if maxdeg >= 3 and rng.random() < 0.15:
            i = rng.randrange(n)
            e = tuple(3 if j == i else 0 for j in range(n))
        c = rng.choice([1, -1, 2, -2, 3, -3, rng.randint(-cmax, cmax)])
        if c:
            p[e] = p.get(e, 0) + c
            if p[e] == 0:
                del p[e]
    return p


def perm_of(rng, n):
    l = list(range(n))
    rng.shuffle(l)
    return "".join(map(str, l))


def ev(rng, n, p, toks, mode=None, perm=None):
    return "ev %d %s %s %s" % (rng.randint(0, 1) if mode is None else mode, perm or perm_of(rng, n), poly_text(p), " ".join(toks))


# ---------------------------------------------------------------------------------------------- case classes
def sqrt_family(rng):
    """x0 = +-sqrt2, x1 = +-sqrt3, x2 = +-sqrt6 (algebraically dependent): true zeros, their multiples, and
    near-zeros (scaled perturbations), under every variable order."""
    n = 3
    s = [rng.choice([0, 1]) for _ in range(3)]           # root index 0 = negative, 1 = positive
    sg = [1 if i else -1 for i in s]
    toks = ["r:%s:%d" % (SQRT2, s[0]), "r:%s:%d" % (SQRT3, s[1]), "r:%s:%d" % (SQRT6, s[2])]
    if rng.random() < 0.15:
        toks[0] = "a:-2,0,1:1/0:2/0" if s[0] else "a:-2,0,1:-2/0:-1/0"
    x, y, z = pvar(0, n), pvar(1, n), pvar(2, n)
    kind = rng.randrange(6)
    sz = sg[0] * sg[1] * sg[2]                           # x*y = sz * z  up to sign
    if kind == 0:
        zero = padd(pmul(x, y), z, -sz)                  # x*y - (+-)z
    elif kind == 1:
        zero = padd(pmul(x, x), pconst(2, n), -1)        # x^2 - 2
    elif kind == 2:
        # (x+y)^2 - 5 - 2*x*y  with x*y = sz*z
        xy = padd(x, y)
        zero = padd(padd(pmul(xy, xy), pconst(5, n), -1), z, -2 * sz)
    elif kind == 3:
        zero = padd(pmul(x, z), y, -2 * sz)              # sqrt2*sqrt6 = 2 sqrt3
    elif kind == 4:
        zero = padd(pmul(y, z), x, -3 * sz)              # sqrt3*sqrt6 = 3 sqrt2
    else:
        zero = padd(pmul(z, z), pmul(pmul(x, x), pmul(y, y)), -1)   # z^2 - x^2 y^2
    mode = rng.random()
    if mode < 0.35:
        p = zero
    elif mode < 0.55:
        f = rand_poly(rng, n, rng.randint(1, 2), 1, 3)
        p = pmul(zero, f) if f else zero
    elif mode < 0.85:
        # near-zero by interval arithmetic: 2^k * zero + c  (value c, the enclosure contains 0 for large k)
        k = rng.choice([1, 5, 10, 18, 19, 20, 21, 22, 23, 30, 40])
        p = padd(pmul(zero, pconst(2 ** k, n)), pconst(rng.choice([1, -1, 3]), n))
    else:
        # genuinely tiny: replace sqrt6 by a root of 2^k z^2 - (6*2^k +- 1)
        k = rng.choice([4, 10, 20, 30, 44, 60])
        toks[2] = "r:%d,0,%d:%d" % (-(6 * 2 ** k + rng.choice([1, -1])), 2 ** k, s[2])
        p = zero
    return ev(rng, n, p, toks)


def tiny_linear(rng):
    """a*x - b at x = sqrt(d): continued-fraction convergents make the value tiny but non-zero"""
    d = rng.choice([2, 3, 5, 6, 7])
    # convergents of sqrt(d)
    import math
    a0 = math.isqrt(d)
    m, dd, a = 0, 1, a0
    h0, h1, k0, k1 = 1, a0, 0, 1
    steps = rng.randint(1, 25)
    for _ in range(steps):
        m = dd * a - m
        dd = (d - m * m) // dd
        a = (a0 + m) // dd
        h0, h1 = h1, a * h1 + h0
        k0, k1 = k1, a * k1 + k0
    n = 1
    p = padd(pmul(pconst(k1, n), pvar(0, n)), pconst(h1, n), -1)
    if rng.random() < 0.4:
        # two variables: x0 = sqrt d, x1 = h/k rational
        p2 = padd(pvar(0, 2), pvar(1, 2), -1)
        return ev(rng, 2, p2, ["r:%d,0,1:1" % (-d), q_tok(Fraction(h1, k1))])
    return ev(rng, n, p, ["r:%d,0,1:1" % (-d)])


def scaled_eliminant(rng):
    """C = a*x - b at a root of p(x) = B'(a x - b): the eliminant of the value is (a power of two times) B' and the
    first enclosure of the value has width a/2^21 - aimed at the decision `inside (-L, L) => zero` with L from
    coefficient_root_lower_bound (History_C10: L = 2^-(max_log - log_c0 + 1) is not a root bound)."""
    q = rng.choice([1, 3, 5, 7, 11, 13, 17, 23, 29, 45, 91])
    s = rng.choice([13, 14, 15, 16, 17, 18])
    a = q * 2 ** s
    b = rng.choice([0, 1, 1, -1, 2, 3])
    kind = rng.random()
    if kind < 0.5:
        l = rng.randint(1, 4)
        m = l + rng.randint(0, 3)
        c0 = 2 ** (l - 1) + (rng.randint(0, 1) if l > 1 else 0)
        M = 2 ** m - 1 - rng.randint(0, 1)
        Bp = [c0 * rng.choice([1, -1]), -M * rng.choice([1, -1]), -M * rng.choice([1, -1])]
    else:
        Bp = [rng.randint(-9, 9) or 1, rng.randint(-9, 9), rng.randint(-9, 9) or 1]
    if Bp[1] * Bp[1] - 4 * Bp[0] * Bp[2] <= 0:
        Bp[2] = -abs(Bp[2]) if Bp[0] > 0 else abs(Bp[2])
    # p(x) = B'(a x - b)
    c0, c1, c2 = Bp
    p = [c0 - c1 * b + c2 * b * b, c1 * a - 2 * c2 * a * b, c2 * a * a]
    g = gcd(gcd(abs(p[0]), abs(p[1])), abs(p[2]))
    if p[0] == 0 or g == 0:
        return None
    p = [c // g for c in p]
    disc = p[1] * p[1] - 4 * p[0] * p[2]
    if disc <= 0:
        return None
    k = rng.randrange(2)
    tok = "r:%d,%d,%d:%d" % (p[0], p[1], p[2], k)
    if rng.random() < 0.5:
        return ev(rng, 1, padd(pmul(pconst(a, 1), pvar(0, 1)), pconst(b, 1), -1), [tok])
    # the scale as an integer VALUE of a second variable
    return ev(rng, 2, padd(pmul(pvar(0, 2), pvar(1, 2)), pconst(b, 2), -1), [tok, "z:%d" % a])


def scaled_directed(rng):
    """The construction that found the root_lower_bound defect, randomised: B' = c0 - M z - M z^2 with |c0| a power of
    two and M just below a power of two (pinned k = 1 + log ratio), scale a = q * 2^s with q^2 slightly above a power of
    two (so that a^2 B' keeps the bit-length pattern), and b chosen so that the FIRST enclosure
    (a*i/2^21 - b, a*(i+1)/2^21 - b) of the value contains 0 and has its upper end just below L."""
    q = rng.choice([3, 17, 23, 91, 181])          # q^2 / 2^floor(log2 q^2) in [1, 8/7)
    l = rng.randint(2, 4)
    m = l + rng.randint(0, 1)
    c0, M = 2 ** (l - 1), 2 ** m - 1
    L = Fraction(1, 2 ** (m - l + 1))
    # positive root v of c0 - M z - M z^2 (float is enough to aim)
    v = (-M + (M * M + 4 * M * c0) ** 0.5) / (2 * M)
    # want a / 2^21 in (v, 2L): width of the first enclosure
    s = 21
    while q * 2 ** s / 2 ** 21 >= 2 * L:
        s -= 1
    a = q * 2 ** s
    den = 2 ** (21 - s)                 # enclosure end points are multiples of 1/den
    # upper end hi = mnum/den in (v, L), lower end hi - q/den < 0
    cands = [k for k in range(1, den) if v < k / den < L and k - q < 0 and -L < (k - q) / den]
    if not cands:
        return None
    mnum = rng.choice(cands)
    # q*(i+1) - den*b = mnum  with i >= 0
    inv = pow(q, -1, den)
    i1 = (mnum * inv) % den
    if i1 == 0:
        i1 = den
    i1 += den * rng.randint(0, 3)
    b = (q * i1 - mnum) // den
    # p(x) = B'(a x - b)
    c1 = c2 = -M
    p = [c0 - c1 * b + c2 * b * b, c1 * a - 2 * c2 * a * b, c2 * a * a]
    g = gcd(gcd(abs(p[0]), abs(p[1])), abs(p[2]))
    if p[0] == 0:
        return None
    p = [c // g for c in p]
    tok = "r:%d,%d,%d:1" % (p[0], p[1], p[2])
    if rng.random() < 0.6:
        return ev(rng, 1, padd(pmul(pconst(a, 1), pvar(0, 1)), pconst(b, 1), -1), [tok])
    return ev(rng, 2, padd(pmul(pvar(0, 2), pvar(1, 2)), pconst(b, 2), -1), [tok, "z:%d" % a])


def _dy_interval(fr, rng, wide=False):
    """an open dyadic interval (lo, hi) around the non-dyadic-or-dyadic rational fr that does not have fr as an end
    point; returned as two d-style strings a/n"""
    k = rng.choice([0, 1, 2, 3, 5] if not wide else [0, 1])
    sc = 2 ** k
    import math
    lo = math.floor(fr * sc)
    hi = lo + 1
    if Fraction(lo, sc) == fr:           # fr is a dyadic grid point: shift the window by half a cell
        lo, hi, sc, k = 2 * lo - 1, 2 * lo + 1, 2 * sc, k + 1
    def dy(a, n):
        while n > 0 and a % 2 == 0:
            a //= 2
            n -= 1
        return "%d/%d" % (a, n)
    return dy(lo, k), dy(hi, k)


def rational_as_algebraic(rng):
    """(i) rational values (non-integer, negative, dyadic and non-dyadic) HELD AS algebraic numbers: a linear or a
    reducible defining polynomial with an explicit isolating interval (not collapsed to a point), alone and mixed with
    irrational values; polynomials that vanish there, products, random ones."""
    fr = rng.choice([Fraction(1, 3), Fraction(-2, 3), Fraction(5, 8), Fraction(-7, 5), Fraction(22, 7), Fraction(3, 2),
                     Fraction(-1, 6), Fraction(7, 12), Fraction(-13, 4), Fraction(rng.randint(-20, 20), rng.choice([3, 5, 6, 7, 9, 10, 12]))])
    if fr.denominator == 1:
        fr = fr + Fraction(1, 3)
    d, nu = fr.denominator, fr.numerator
    kind = rng.random()
    if kind < 0.55:
        coeffs = [-nu, d]                                         # d*x - nu
    elif kind < 0.8:
        # (d x - nu)(x^2 - c): the other roots are irrational
        c = rng.choice([2, 3, 5, 7])
        coeffs = [nu * c, -d * c, -nu, d]
    else:
        # (d x - nu)(e x - m): another rational root well away from fr
        e, mm = rng.choice([(2, 2 * fr.numerator // fr.denominator * 2 + 7), (3, 3 * (fr.numerator // fr.denominator) - 10)])
        coeffs = [nu * mm, -(d * mm + nu * e), d * e]
    lo, hi = _dy_interval(fr, rng)
    if kind >= 0.55:
        # make sure no other root is inside: tighten the window
        lo, hi = _dy_interval(fr, rng) if False else (lo, hi)
        sc = 64
        import math
        l = math.floor(fr * sc)
        if Fraction(l, sc) == fr:
            l, sc = 2 * l - 1, 2 * sc
            h = l + 2
        else:
            h = l + 1
        def dy(a, n):
            while n > 0 and a % 2 == 0:
                a //= 2
                n -= 1
            return "%d/%d" % (a, n)
        n = sc.bit_length() - 1
        lo, hi = dy(l, n), dy(h, n)
    g = 0
    for c_ in coeffs:
        g = gcd(g, abs(c_))
    coeffs = [c_ // g for c_ in coeffs]
    if coeffs[-1] < 0:
        coeffs = [-c_ for c_ in coeffs]
    tok = "a:%s:%s:%s" % (",".join(map(str, coeffs)), lo, hi)
    if rng.random() < 0.15 and kind < 0.55:
        tok = "r:%s:0" % ",".join(map(str, coeffs))               # what root isolation makes of a linear polynomial
    n = rng.choice([1, 2, 2, 3])
    toks = [tok]
    for i in range(1, n):
        k2 = rng.random()
        if k2 < 0.5:
            toks.append(alg_value(rng, cubic_ok=False))
        elif k2 < 0.75:
            toks.append(rat_value(rng))
        else:
            fr2 = rng.choice([Fraction(1, 3), Fraction(-2, 3), Fraction(5, 8), Fraction(-7, 5)])
            l2, h2 = _dy_interval(fr2, rng)
            toks.append("a:%d,%d:%s:%s" % (-fr2.numerator, fr2.denominator, l2, h2))
    lin = padd(pmul(pconst(d, n), pvar(0, n)), pconst(nu, n), -1)      # d*x0 - nu  (zero at the value)
    k3 = rng.random()
    if k3 < 0.25:
        p = lin
    elif k3 < 0.45:
        p = pmul(lin, rand_poly(rng, n, 2, 1, 3) or pconst(1, n))
    elif k3 < 0.6:
        p = pmul(pvar(0, n), pvar(n - 1, n)) if n > 1 else pvar(0, n, rng.choice([1, 2, 3]))
    elif k3 < 0.7:
        p = padd(pmul(lin, pconst(2 ** rng.choice([5, 21, 23]), n)), pconst(rng.choice([1, -1]), n))
    else:
        p = rand_poly(rng, n, rng.randint(1, 4), 2)
    # put the rational-as-algebraic variable at a random position
    if n > 1 and rng.random() < 0.5:
        j = rng.randrange(1, n)
        toks[0], toks[j] = toks[j], toks[0]
        def sw(e):
            e = list(e)
            e[0], e[j] = e[j], e[0]
            return tuple(e)
        p = {sw(e): c_ for e, c_ in p.items()}
    return ev(rng, n, p, toks)


REDUCIBLE = [   # (coefficients, factors as (poly dict builder), sorted real roots as (sign, radicand) or rationals)
    # x^4 - 5x^2 + 6 = (x^2-2)(x^2-3)
    ("6,0,-5,0,1", [(-1, 3), (-1, 2), (1, 2), (1, 3)]),
    # x^4 - 7x^2 + 10 = (x^2-2)(x^2-5)
    ("10,0,-7,0,1", [(-1, 5), (-1, 2), (1, 2), (1, 5)]),
    # x^4 - 8x^2 + 15 = (x^2-3)(x^2-5)
    ("15,0,-8,0,1", [(-1, 5), (-1, 3), (1, 3), (1, 5)]),
    # (x^2-2)(3x-1) = 3x^3 - x^2 - 6x + 2
    ("2,-6,-1,3", [(-1, 2), Fraction(1, 3), (1, 2)]),
    # (x^2-3)(2x+3) = 2x^3 + 3x^2 - 6x - 9
    ("-9,-6,3,2", [(-1, 3), Fraction(-3, 2), (1, 3)]),
]


def reducible_defining(rng):
    """(ii) the value is a root of a REDUCIBLE defining polynomial (kept as given by root isolation / a: tokens);
    p shares the OTHER factor and is tiny but non-zero at the value: p = other(x) * (D x - N) with N/D a dyadic or
    continued-fraction approximation of the value; also true zeros (own factor) - sign AND value are checked."""
    import math
    cs, roots = rng.choice(REDUCIBLE)
    k = rng.randrange(len(roots))
    r = roots[k]
    n = 1
    x = pvar(0, n)
    def quad(c):
        return padd(pmul(x, x), pconst(c, n), -1)
    def linf(fr):
        return padd(pmul(pconst(fr.denominator, n), x), pconst(fr.numerator, n), -1)
    own = linf(r) if isinstance(r, Fraction) else quad(r[1])
    others = []
    seen = set()
    for rr in roots:
        key = rr if isinstance(rr, Fraction) else rr[1]
        if key in seen or (rr == r) or (not isinstance(rr, Fraction) and not isinstance(r, Fraction) and rr[1] == r[1]):
            continue
        seen.add(key)
        others.append(linf(rr) if isinstance(rr, Fraction) else quad(rr[1]))
    other = rng.choice(others)
    # rational approximation N/D of the value
    bits = rng.choice([8, 16, 20, 21, 22, 23, 30, 40])
    if isinstance(r, Fraction):
        approx = r + Fraction(rng.choice([1, -1]), 2 ** bits)
    else:
        approx = Fraction(r[0] * math.isqrt(r[1] * 4 ** bits), 2 ** bits) + Fraction(rng.choice([0, 0, 1, -1, 3]), 2 ** bits)
    near = linf(approx)
    tok = "r:%s:%d" % (cs, k)
    if rng.random() < 0.25 and not isinstance(r, Fraction):
        # the same number with an explicit (unaligned) isolating interval around it
        v = r[0] * math.isqrt(r[1] * 4 ** 6)
        def dyn(a, nn):
            while nn > 0 and a % 2 == 0:
                a //= 2
                nn -= 1
            return "%d/%d" % (a, nn)
        tok = "a:%s:%s:%s" % (cs, dyn(v - 1, 6), dyn(v + 2, 6))
    kind = rng.random()
    if kind < 0.5:
        p = pmul(other, near)                                   # shares the OTHER factor, tiny non-zero
    elif kind < 0.65:
        p = pmul(pmul(other, near), rng.choice([pconst(1, n), pconst(-3, n), x]))
    elif kind < 0.8:
        p = pmul(own, rng.choice([pconst(1, n), near, other]))  # true zero
    elif kind < 0.9:
        p = near                                                # tiny, no common factor
    else:
        p = other
    if rng.random() < 0.2:
        # the same in two variables: the scale as a rational value of x1
        n2 = 2
        p = {e + (0,): c for e, c in p.items()}
        p = pmul(p, {(0, 1): 1})
        return ev(rng, n2, p, [tok, rat_value(rng)])
    return ev(rng, n, p, [tok])


def ppow(p, k, n):
    r = pconst(1, n)
    for _ in range(k):
        r = pmul(r, p)
    return r


def high_degree(rng):
    """exact zeros and near-zeros of HIGH degree: x^n - c^(n/2) at sqrt c (n = 12..40), (x^2-2)^k * q(x), products of
    large powers in two / three variables; sign, the six conditions and the value are checked"""
    kind = rng.random()
    if kind < 0.4:
        c = rng.choice([2, 2, 3, 5])
        nn = rng.randint(12, 40)
        n = 1
        x = pvar(0, n)
        s0 = rng.randrange(2)
        if nn % 2 == 0:
            zero = padd(pvar(0, n, nn), pconst(c ** (nn // 2), n), -1)
        else:
            zero = padd(pvar(0, n, nn), pmul(pconst(c ** ((nn - 1) // 2), n), x), -1)
        toks = ["r:%d,0,1:%d" % (-c, s0)]
    elif kind < 0.6:
        n = 1
        x = pvar(0, n)
        k = rng.randint(2, 7)
        zero = pmul(ppow(padd(pmul(x, x), pconst(2, n), -1), k, n), rand_poly(rng, n, 2, 2, 3) or pconst(1, n))
        toks = ["r:-2,0,1:%d" % rng.randrange(2)]
    elif kind < 0.85:
        # x^a y^b - 2^(a/2) 3^(b/2) at (+-sqrt2, +-sqrt3), a, b even
        n = 2
        a, b = 2 * rng.randint(3, 10), 2 * rng.randint(2, 8)
        zero = padd(pmul(pvar(0, n, a), pvar(1, n, b)), pconst(2 ** (a // 2) * 3 ** (b // 2), n), -1)
        toks = ["r:-2,0,1:%d" % rng.randrange(2), "r:-3,0,1:%d" % rng.randrange(2)]
    else:
        # (x y)^k - z^k at sqrt2, sqrt3, sqrt6 (k even keeps all sign choices zero)
        n = 3
        k = 2 * rng.randint(3, 7)
        zero = padd(pmul(pvar(0, n, k), pvar(1, n, k)), pvar(2, n, k), -1)
        toks = ["r:-2,0,1:%d" % rng.randrange(2), "r:-3,0,1:%d" % rng.randrange(2), "r:-6,0,1:%d" % rng.randrange(2)]
    m = rng.random()
    if m < 0.5:
        p = zero
    elif m < 0.75:
        p = padd(zero, pconst(rng.choice([1, -1]), n))                      # off by one unit in a huge magnitude
    elif m < 0.9:
        p = padd(pmul(zero, pconst(2 ** rng.choice([10, 21, 30]), n)), pconst(rng.choice([1, -1]), n))
    else:
        p = pmul(zero, pvar(0, n))
    return ev(rng, n, p, toks)


SCALED_BASE = [("-2,0,1", "1/0", "2/0"), ("-2,0,1", "-2/0", "-1/0"), ("-3,0,1", "1/0", "2/0"), ("-2,0,0,1", "1/0", "2/0"),
               ("-1,-1,1", "1/0", "2/0"), ("-5,0,1", "2/0", "3/0"), ("-2,0,1", "5/2", "3/1"), ("1,-3,0,1", "1/0", "2/0")]


def scaled_defining(rng):
    """values whose defining polynomial has a NEGATIVE leading coefficient and/or is not primitive (k*f, k = -1, -2,
    2, -3; token n:k:..., built by the harness), as top and as lower variable; polynomials of degree >= deg f in that
    variable (so that a reduction modulo f would need the sign of lc(f)^k), zeros, random ones"""
    cs, lo, hi = rng.choice(SCALED_BASE)
    k = rng.choice([-1, -1, -1, -2, 2, -3])
    tok = "n:%d:%s:%s:%s" % (k, cs, lo, hi)
    n = rng.choice([1, 2, 2, 3])
    toks = [tok]
    for _ in range(1, n):
        r = rng.random()
        toks.append(alg_value(rng, cubic_ok=False) if r < 0.5 else (rat_value(rng) if r < 0.85 else
                    "n:%d:-3,0,1:1/0:2/0" % rng.choice([-1, -2])))
    x = pvar(0, n)
    d = cs.count(",")
    kind = rng.random()
    if kind < 0.3:
        p = padd(pvar(0, n, rng.randint(d, d + 3)), pconst(rng.randint(1, 6), n), -1)          # x^e - c
    elif kind < 0.55 and n > 1:
        p = padd(pmul(pvar(1, n), pvar(0, n, rng.randint(d, d + 2))), pconst(rng.randint(1, 7), n), -1)   # y x^e - c
    elif kind < 0.7:
        base = {"-2,0,1": padd(pmul(x, x), pconst(2, n), -1), "-3,0,1": padd(pmul(x, x), pconst(3, n), -1),
                "-5,0,1": padd(pmul(x, x), pconst(5, n), -1)}.get(cs)
        p = pmul(base, rand_poly(rng, n, 2, 1, 3) or pconst(1, n)) if base else rand_poly(rng, n, 3, 3)
    else:
        p = padd(rand_poly(rng, n, rng.randint(1, 3), 2), pmul(pconst(rng.choice([1, -1, 2]), n), pvar(0, n, rng.randint(d, d + 2))))
    if n > 1 and rng.random() < 0.5:
        j = rng.randrange(1, n)
        toks[0], toks[j] = toks[j], toks[0]
        def sw(e):
            e = list(e)
            e[0], e[j] = e[j], e[0]
            return tuple(e)
        p = {sw(e): c_ for e, c_ in p.items()}
    return ev(rng, n, p, toks)


def mixed(rng):
    n = rng.choice([1, 2, 2, 3, 3])
    nalg = rng.choice([0, 1, 1, 2, 2, 3]) if n == 3 else rng.randint(0, n)
    toks = []
    ncub = 0
    for i in range(n):
        if i < nalg:
            t = alg_value(rng, cubic_ok=(ncub < (2 if nalg <= 2 else 1)))
            if alg_degree(t) >= 3:
                ncub += 1
            toks.append(t)
        else:
            toks.append(rat_value(rng))
    rng.shuffle(toks)
    degprod = 1
    for t in toks:
        if is_alg(t):
            degprod *= alg_degree(t)
    nterms = rng.randint(1, 5 if degprod <= 6 else 3)
    maxdeg = 3 if n == 1 else (2 if degprod <= 9 else 1)
    p = rand_poly(rng, n, nterms, maxdeg)
    return ev(rng, n, p, toks)


def lc_killer(rng):
    """the value of one variable makes the leading coefficient (in another variable) vanish"""
    n = rng.choice([2, 3])
    k = rng.random()
    if k < 0.5:
        c = rng.choice([Fraction(1), Fraction(-2), Fraction(1, 2), Fraction(2, 3), Fraction(-3, 4)])
        tok = ("z:%d" % c.numerator) if c.denominator == 1 else (dy_tok(c.numerator, 1) if c.denominator == 2 and rng.random() < 0.5 else q_tok(c))
        lc = padd(pmul(pconst(c.denominator, n), pvar(1, n)), pconst(c.numerator, n), -1)     # den*y - num
    else:
        tok = "r:%s:%d" % (SQRT2, rng.randrange(2))
        lc = padd(pmul(pvar(1, n), pvar(1, n)), pconst(2, n), -1)                               # y^2 - 2
    toks = [alg_value(rng, cubic_ok=False) if rng.random() < 0.5 else rat_value(rng), tok]
    if n == 3:
        toks.append(rat_value(rng) if rng.random() < 0.6 else alg_value(rng, cubic_ok=False))
    rest = rand_poly(rng, n, rng.randint(1, 2), 1, 3)
    p = padd(pmul(lc, pvar(0, n, rng.choice([1, 2, 2]))), rest)
    if rng.random() < 0.3:
        p = pmul(lc, rand_poly(rng, n, 2, 1, 3) or pconst(1, n))     # everything vanishes
    return ev(rng, n, p, toks)


def cube_roots(rng):
    """x0 = cbrt 2, x1 = cbrt 4 (dependent): x0*x1 = 2, x0^2 = x1, x1^2 = 2 x0"""
    n = 2
    toks = ["r:-2,0,0,1:0", "r:-4,0,0,1:0"]
    x, y = pvar(0, n), pvar(1, n)
    zero = rng.choice([padd(pmul(x, y), pconst(2, n), -1), padd(pmul(x, x), y, -1), padd(pmul(y, y), x, -2),
                       padd(pmul(pmul(x, x), x), pconst(2, n), -1)])
    k = rng.random()
    if k < 0.4:
        p = zero
    elif k < 0.7:
        p = padd(pmul(zero, pconst(2 ** rng.choice([3, 19, 21, 25]), n)), pconst(rng.choice([1, -1]), n))
    else:
        p = rand_poly(rng, n, rng.randint(1, 2), 1, 3)
    return ev(rng, n, p, toks)


def secretly_rational(rng):
    c, nr = rng.choice(SECRET)
    k = rng.randrange(nr)
    n = rng.choice([1, 2])
    toks = ["r:%s:%d" % (c, k)]
    if n == 2:
        toks.append(rat_value(rng) if rng.random() < 0.5 else alg_value(rng, cubic_ok=False))
    zero_at = {"2,-6,-1,3": [None, (3, 1), None], "-2,1,6": [(3, -2), (2, 1)], "-3,2": [(2, 3)], "6,-5,1": [(1, 2), (1, 3)],
               "-4,0,1": [(1, -2), (1, 2)], "2,-3,-2,3": [(1, -1), (3, 2), (1, 1)], "-1,0,4": [(2, -1), (2, 1)]}[c][k]
    if zero_at and rng.random() < 0.7:
        d, nu = zero_at
        lin = padd(pmul(pconst(d, n), pvar(0, n)), pconst(nu, n), -1)
        p = lin if rng.random() < 0.5 else pmul(lin, rand_poly(rng, n, 2, 1, 3) or pconst(1, n))
        if rng.random() < 0.3:
            p = padd(pmul(p, pconst(2 ** 22, n)), pconst(1, n))
    else:
        p = rand_poly(rng, n, rng.randint(1, 3), 2)
    return ev(rng, n, p, toks)


ZERO_TOKENS = ["z:0", "z:0", "q:0/1", "d:0/0",                      # integer / rational / dyadic zero
               "r:0,1:0", "r:0,3:0", "r:0,0,1:0",                    # x, 3x, x^2: root isolation gives the algebraic point 0
               "r:0,-2,0,1:1", "r:0,1,1:1", "r:0,-1,1:0", "r:0,-3,0,2:1"]   # x(x^2-2), x(x+1), x(x-1), x(2x^2-3): 0 among other roots
# non-zero values of both signs and every representation (rationals held as algebraic numbers included)
NONZERO_NEG = ["z:-1", "z:-3", "q:-2/3", "q:-7/5", "d:-1/1", "d:-5/2", "r:-2,0,1:0", "r:-3,0,1:0", "r:-1,-1,1:0", "r:-2,0,0,1:0" ,
               "a:2,3:-1/0:0/0", "a:7,5:-2/0:-1/0", "r:2,3:0", "a:-2,0,1:-2/0:-1/0", "r:2,-6,-1,3:0", "n:-1:-2,0,1:-2/0:-1/0"]
NONZERO_POS = ["z:1", "z:2", "q:2/3", "q:5/7", "d:1/1", "d:3/2", "r:-2,0,1:1", "r:-3,0,1:1", "r:-1,-1,1:1", "r:-4,0,0,1:0",
               "a:-1,3:0/0:1/0", "a:-5,8:1/1:3/2", "r:-3,2:0", "a:-2,0,1:1/0:2/0", "r:2,-6,-1,3:1", "n:-2:-3,0,1:1/0:2/0"]


def monomial_zero(rng):
    """SINGLE-TERM polynomials c * x0^d0 * .. (1-3 variables, some possibly absent) with one variable assigned ZERO in
    every representation (integer, rational, dyadic, algebraic point 0 from root isolation) under an EVEN or an ODD
    exponent, the other variables non-zero of both signs (rational, algebraic, rational held as algebraic); also the
    same terms without any zero (sign = product of the signs under odd exponents) and with the zero at an ABSENT
    variable (must not make the sign 0).  All variable orders.  (seeded C10-10: 'even powers are positive'.)"""
    n = rng.choice([1, 2, 2, 3, 3])
    kind = rng.random()
    j = rng.randrange(n)                                  # the variable that gets the special value
    exps = [rng.choice([1, 1, 2, 2, 3, 4]) for _ in range(n)]
    if n > 1 and rng.random() < 0.25:                    # one of the OTHER variables does not occur
        i = rng.choice([i for i in range(n) if i != j])
        exps[i] = 0
    toks = [rng.choice(NONZERO_NEG if rng.random() < 0.55 else NONZERO_POS) for _ in range(n)]
    if kind < 0.5:
        exps[j] = rng.choice([2, 2, 2, 4, 6, 8])          # zero under an even exponent
        toks[j] = rng.choice(ZERO_TOKENS)
    elif kind < 0.7:
        exps[j] = rng.choice([1, 1, 3, 5])                # zero under an odd exponent
        toks[j] = rng.choice(ZERO_TOKENS)
    elif kind < 0.8:
        if n == 1:
            exps[j] = rng.choice([2, 4])
            toks[j] = rng.choice(ZERO_TOKENS)
        else:
            exps[j] = 0                                   # zero at a variable that does not occur in the term
            toks[j] = rng.choice(ZERO_TOKENS)
            if all(e == 0 for e in exps):
                exps[(j + 1) % n] = rng.choice([1, 2])
    elif kind < 0.9:
        exps[j] = rng.choice([2, 4, 6])                   # no zero: negative value under an even exponent
        toks[j] = rng.choice(NONZERO_NEG)
    # else: no zero, random exponents
    if kind < 0.7 and n > 1 and rng.random() < 0.15:      # a second zero
        i = rng.choice([i for i in range(n) if i != j])
        toks[i] = rng.choice(ZERO_TOKENS)
    # keep the reference evaluation cheap: at most two irrational values, moderate exponents on them
    nirr = 0
    for i in range(n):
        if is_alg(toks[i]) and alg_degree(toks[i]) >= 2 and not toks[i].startswith("r:0,"):
            nirr += 1
            if nirr > 2:
                toks[i] = rng.choice(["z:-2", "q:-3/4", "d:7/1", "a:2,3:-1/0:0/0"])
            elif exps[i] > 4:
                exps[i] -= 2
    c = rng.choice([1, -1, 2, -3, 3, 7, -12])
    return ev(rng, n, {tuple(exps): c}, toks)


def er_case(rng):
    n = rng.choice([1, 2, 3, 3])
    toks = []
    for i in range(n):
        if rng.random() < 0.3:
            c, nr = rng.choice(QUADS + CUBICS)
            toks.append("r:%s:%d" % (c, rng.randrange(nr)))
        else:
            toks.append(rat_value(rng))
    if rng.random() < 0.3:
        # leading coefficient killer in the substituted variable
        fr = Fraction(rng.randint(-5, 5), rng.choice([1, 2, 3, 4, 6]))
        toks[n - 1] = q_tok(fr) if fr.denominator != 1 else "z:%d" % fr.numerator
        lc = padd(pmul(pconst(fr.denominator, n), pvar(n - 1, n)), pconst(fr.numerator, n), -1)
        p = padd(pmul(lc, pvar(0, n, 2) if n > 1 else pconst(1, n)), rand_poly(rng, n, 2, 2))
    else:
        p = rand_poly(rng, n, rng.randint(1, 5), 3)
    return "er %s %s %s" % (perm_of(rng, n), poly_text(p), " ".join(toks))


def va_case(rng):
    """coefficient_value_approx on the polynomials / assignments of the ev classes"""
    c = None
    while not c:
        c = rng.choice([mixed, lc_killer, sqrt_family, secretly_rational, cube_roots])(rng)
    t = c.split()
    return "va %s %s %s" % (t[2], t[3], " ".join(t[4:]))


def rlb_case(rng):
    k = rng.random()
    deg = rng.randint(1, 6)
    if k < 0.4:
        # |c0| a power of two (the boundary of the repaired lemma), max just below a power of two
        l = rng.randint(1, 12)
        m = l + rng.randint(0, 12)
        cs = [rng.choice([1, -1]) * 2 ** (l - 1)] + [rng.choice([0, 1, -1]) * rng.randint(1, 2 ** m - 1) for _ in range(deg - 1)] + [rng.choice([1, -1]) * (2 ** m - 1)]
    elif k < 0.7:
        cs = [rng.randint(-40, 40) for _ in range(deg + 1)]
    else:
        cs = [rng.choice([1, -1]) * rng.randint(1, 10 ** rng.randint(1, 30)) for _ in range(deg + 1)]
    cs = [0] * rng.choice([0, 0, 1, 2]) + cs
    if cs[-1] == 0:
        cs[-1] = 1
    if all(c == 0 for c in cs[:-1]) and len(cs) < 2:
        cs = [1] + cs
    # at least one non-zero coefficient below the leading one is not required; the polynomial must be non-constant
    return "rlb " + ",".join(map(str, cs))


def sc_cases():
    return ["sc %d %d" % (c, s) for c in range(6) for s in (-2147483648, -7, -1, 0, 1, 5, 2147483647)]


CLASSES = [("sqrt", sqrt_family, 14), ("tiny", tiny_linear, 6), ("scaled", scaled_eliminant, 9), ("scaledd", scaled_directed, 4), ("mixed", mixed, 30),
           ("lckill", lc_killer, 10), ("cbrt", cube_roots, 4), ("secret", secretly_rational, 8), ("er", er_case, 12),
           ("rlb", rlb_case, 4), ("va", va_case, 10), ("ratalg", rational_as_algebraic, 10), ("reducible", reducible_defining, 10), ("highdeg", high_degree, 8), ("negpoly", scaled_defining, 8)]


def generate(rng, tier):
    total = 4000 if tier == "quick" else 25000
    cases = list(sc_cases())
    weights = [w for _, _, w in CLASSES]
    for _ in range(total):
        name, f, _ = rng.choices(CLASSES, weights=weights)[0]
        c = f(rng)
        if c:
            cases.append(c)
    # a fixed block AFTER the weighted classes (their random stream is not shifted by it)
    for _ in range(200 if tier == "quick" else 1200):
        cases.append(monomial_zero(rng))
    return cases


def tag(case):
    t = case.split()
    if t[0] != "ev":
        return t[0]
    vals = t[4:]
    nalg = sum(1 for v in vals if is_alg(v))
    return "ev:n%d:alg%d" % (len(vals), nalg)


def nontrivial(case):
    t = case.split()
    if t[0] == "ev":
        return t[3] != "0" and "x" in t[3]
    if t[0] == "er":
        return "x" in t[2]
    return True


def explain(case, c_out, m_out):
    return ("C output: <sgn> <assignment_sgn> <constraint bits LT LE EQ NE GT GE> <sgn again> <value> | <assignment after> | <poly after>; "
            "model verdict: %s" % m_out)


def finding_id(case, c_out, m_out):
    return None


RULE = ("seeded structured generator gen/C10.py (corpus first): dependent square roots (true zeros / scaled perturbations / tiny "
        "values), continued-fraction near-zeros, scaled eliminants aimed at the (-L, L) decision, mixed value kinds, "
        "leading-coefficient killers, dependent cube roots, secretly rational algebraic values, single-term polynomials with a "
        "zero value of every representation under even / odd exponents, all variable orders; "
        "internal calls: evaluate_rationals, root_lower_bound, sign_condition_consistent (exhaustive 6 x 7)")
ASSUMPTIONS = ["polynomials over Z (ctx->K == lp_Z) in at most 3 variables; every variable of the polynomial is assigned a finite value",
               "algebraic values are given by valio.h tokens (k-th real root of an integer polynomial, or polynomial + isolating dyadic interval)"]
TRUSTED = ["reference real algebraic arithmetic RefAlg.v (Sturm sequences, resultants) - unproved reference, used as the oracle for the algebraic core",
           "gen/sc_translate.py (C switch -> Gallina match for the sign-condition table)"]


def extra_coverage(cases, couts, mouts):
    """distribution of the reported signs and of the representation of the evaluation result over the ev cases"""
    signs = {"-1": 0, "0": 0, "1": 0}
    kinds = {}
    for c, o in zip(cases, couts):
        if not c.startswith("ev ") or not o:
            continue
        t = o.split()
        if len(t) < 5 or t[0] not in signs:
            continue
        signs[t[0]] += 1
        k = {"z": "integer", "q": "rational", "d": "dyadic", "p": "algebraic-point", "a": "algebraic-interval"}.get(t[4][0], "other")
        kinds[k] = kinds.get(k, 0) + 1
    return {"ev_sign_histogram": signs, "ev_value_kinds": kinds}
