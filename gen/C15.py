HARNESS = "c15"
LEVEL = "proof"
"""C15 case generator: interval arithmetic never loses a point.

Case lines (see harness/c15.c):
  radd|rsub|rmul|dadd|dsub|dmul|vadd|vmul  <I1> <I2> U <U> W x1 y1 x2 y2 ...
  rneg|dneg <I> U <U> W x...      rpow|dpow|vpow n <I> U <U> W x...
  rsgn|dsgn|vsgn <I>              sc <cond 0..5> <I> W x...
  poly nv <coef> A <I_0> .. <I_nv-1> W <point> <point> ...
  rcons|dcons a a_open b b_open
U is the previous content of the output operand; the pairs after W are witness points of the operands
(closed end points, zero, mid points, points near the ends): the C side computes x o y with GMP and asks the
library's `contains` on the library's result, the model side checks that each witness is in its operand.
Every random choice comes from the one `rng` passed in.  thorough = exhaustive over the end-point grid.
"""
from fractions import Fraction as F

GRID = [F(-2), F(-1), F(-1, 2), F(0), F(1, 2), F(1), F(2)]
MINF, PINF = "-inf", "+inf"
EXHAUSTIVE = {"done": False, "cases": 0}


def is_dyadic(q):
    d = q.denominator
    return d & (d - 1) == 0


def s_rat(q):
    return "%d/%d" % (q.numerator, q.denominator)


def s_dy(q):
    assert is_dyadic(q)
    return "%d@%d" % (q.numerator, q.denominator.bit_length() - 1)


def s_val(q, rng):
    """a value of a random admissible kind with the given denotation"""
    if q in (MINF, PINF):
        return q
    kinds = ["q"]
    if q.denominator == 1:
        kinds += ["i", "i", "d"]
    elif is_dyadic(q):
        kinds += ["d", "d"]
    k = rng.choice(kinds)
    if k == "i":
        return "i:%d" % q.numerator
    if k == "d":
        return "d:" + s_dy(q)
    return "q:" + s_rat(q)


# an interval is (a, a_open, b, b_open) with a < b, or (a,) for the point [a]
def s_itv(I, ss):
    if len(I) == 1:
        return "P " + ss(I[0])
    return "I %d %s %d %s" % (I[1], ss(I[0]), I[3], ss(I[2]))


def intervals(ends, lo_extra=(), hi_extra=()):
    """all intervals over the end-point list: points and the 4 strictness patterns of every a < b;
    infinite ends are open"""
    res = [(a,) for a in ends]
    for i, a in enumerate(ends):
        for b in ends[i + 1:]:
            for ao in (0, 1):
                for bo in (0, 1):
                    res.append((a, ao, b, bo))
    for b in ends:
        for bo in (0, 1):
            for lo in lo_extra:
                res.append((lo, 1, b, bo))
    for a in ends:
        for ao in (0, 1):
            for hi in hi_extra:
                res.append((a, ao, hi, 1))
    for lo in lo_extra:
        for hi in hi_extra:
            res.append((lo, 1, hi, 1))
    return res


def member(x, I):
    if len(I) == 1:
        return x == I[0]
    a, ao, b, bo = I
    if a != MINF and (x < a or (x == a and ao)):
        return False
    if b != PINF and (x > b or (x == b and bo)):
        return False
    return True


def witnesses(I, rng=None, dyadic_only=False):
    """points of I: closed ends, zero, mid point, points near the ends (all dyadic if the ends are)"""
    if len(I) == 1:
        return [I[0]]
    a, ao, b, bo = I
    c = []
    if a == MINF and b == PINF:
        c = [F(-3), F(0), F(5, 2), F(-1, 4)]
    elif a == MINF:
        c = [b, b - F(1, 8), b - 1, b - 100, F(0)]
    elif b == PINF:
        c = [a, a + F(1, 8), a + 1, a + 100, F(0)]
    else:
        w = b - a
        c = [a, b, (a + b) / 2, a + w / 8, b - w / 8, F(0)]
        if rng is not None and not dyadic_only:
            c.append(a + w * F(rng.randint(1, 99), 100))
    res = []
    for x in c:
        if member(x, I) and x not in res:
            res.append(x)
    return res


def pairs(I1, I2, rng, limit=16):
    w1, w2 = witnesses(I1, rng), witnesses(I2, rng)
    ps = [(x, y) for x in w1 for y in w2]
    if len(ps) > limit:
        # always keep the pairs of end points / zero (first entries), sample the rest
        head = [(x, y) for x in w1[:2] for y in w2[:2]]
        rest = [p for p in ps if p not in head]
        rng.shuffle(rest)
        ps = head + rest[:limit - len(head)]
    return ps


def bin_case(op, I1, I2, U, rng):
    fam = op[0]
    if fam == "v":
        si = lambda I: s_itv(I, lambda q: s_val(q, rng))
        sw = s_rat
    elif fam == "d":
        si = lambda I: s_itv(I, s_dy)
        sw = s_dy
    else:
        si = lambda I: s_itv(I, s_rat)
        sw = s_rat
    ps = pairs(I1, I2, rng if fam != "d" else None) if fam != "d" else \
        [(x, y) for x in witnesses(I1, None, True) for y in witnesses(I2, None, True)][:20]
    return "%s %s %s U %s W %s" % (op, si(I1), si(I2), si(U), " ".join(sw(x) + " " + sw(y) for x, y in ps))


def un_case(op, I, U, rng, n=None):
    fam = op[0]
    if fam == "v":
        si = lambda J: s_itv(J, lambda q: s_val(q, rng))
        sw = s_rat
    elif fam == "d":
        si = lambda J: s_itv(J, s_dy)
        sw = s_dy
    else:
        si = lambda J: s_itv(J, s_rat)
        sw = s_rat
    ws = witnesses(I, rng if fam != "d" else None, fam == "d")
    head = op if n is None else "%s %d" % (op, n)
    return "%s %s U %s W %s" % (head, si(I), si(U), " ".join(sw(x) for x in ws))


def rnd_scalar(rng, dyadic):
    k = rng.random()
    if k < 0.45:
        return rng.choice(GRID)
    if dyadic:
        return F(rng.randint(-40, 40) * 2 + 1, 2 ** rng.randint(1, 6))
    if k < 0.6:
        return F(rng.randint(-10**12, 10**12), rng.randint(1, 10**9))
    return F(rng.randint(-30, 30), rng.randint(1, 12))


def rnd_itv(rng, dyadic=False, inf=False):
    k = rng.random()
    if k < 0.15:
        return (rnd_scalar(rng, dyadic),)
    a, b = rnd_scalar(rng, dyadic), rnd_scalar(rng, dyadic)
    if inf and rng.random() < 0.25:
        r = rng.random()
        if r < 0.4:
            return (MINF, rng.choice([1, 1, 1, 0]), b, rng.randint(0, 1))
        if r < 0.8:
            return (a, rng.randint(0, 1), PINF, rng.choice([1, 1, 1, 0]))
        return (MINF, 1, PINF, 1)
    if a == b:
        return (a,)
    if a > b:
        a, b = b, a
    if rng.random() < 0.3:      # symmetric or touching zero: the tie cases of mul / even pow
        m = abs(b) if b != 0 else abs(a)
        a, b = rng.choice([(-m, m), (F(0), m), (-m, F(0))])
    return (a, rng.randint(0, 1), b, rng.randint(0, 1))


# ------------------------------------------------------------------ polynomials
def rnd_coef(rng, top, depth=0):
    """canonical recursive polynomial in variables x0 < .. < x_top: ('N', z) or ('R', x, [c0..ck]), k >= 1, ck != 0"""
    if top < 0 or rng.random() < 0.25 + 0.2 * depth:
        return ("N", rng.choice([0, 1, -1, 2, -3, 5, rng.randint(-9, 9)]))
    x = rng.randint(0, top)
    deg = rng.randint(1, 4)
    cs = [rnd_coef(rng, x - 1, depth + 1) for _ in range(deg + 1)]
    if cs[-1] == ("N", 0):
        cs[-1] = ("N", rng.choice([1, -1, 2]))
    return ("R", x, cs)


def s_coef(c):
    if c[0] == "N":
        return "N %d" % c[1]
    return "R %d %d %s" % (c[1], len(c[2]), " ".join(s_coef(k) for k in c[2]))


def poly_case(rng):
    nv = rng.randint(1, 3)
    c = rnd_coef(rng, nv - 1)
    if c[0] == "N":
        c = ("R", 0, [c, ("N", 1)])
    Is = [rnd_itv(rng, False, True) for _ in range(nv)]
    pts = []
    for _ in range(6):
        pts.append([rng.choice(witnesses(I, rng)) for I in Is])
    return "poly %d %s A %s W %s" % (nv, s_coef(c), " ".join(s_itv(I, lambda q: s_val(q, rng)) for I in Is),
                                     " ".join(" ".join(s_rat(x) for x in p) for p in pts))



# ------------------------------------------------------------------ end points of every value kind (a-operations)
# A Surd is s * r^(1/k) (s in {-1,0,1}, r a positive rational, k in {1,2,3,6}); the generator knows its decimal value
# and how to write it - and x o y where that is again expressible - as a valio token.  NOTHING here is trusted:
# the model verifies with the exact reference arithmetic that every witness lies in its operand and that every
# claimed result token denotes x o y.
import math
APPROX = {}          # token -> float (only used for the branch tags)


def _iroot(n, k):
    if n < 0:
        return None
    r = round(n ** (1.0 / k))
    for c in (r - 1, r, r + 1):
        if c >= 0 and c ** k == n:
            return c
    return None


class Surd(object):
    def __init__(self, s, r=F(1), k=1):
        r = F(r)
        if s == 0 or r == 0:
            s, r, k = 0, F(1), 1
        # reduce the root index while the radicand is a perfect d-th power
        changed = True
        while changed and k > 1:
            changed = False
            for d in (2, 3):
                if k % d == 0:
                    a, b = _iroot(r.numerator, d), _iroot(r.denominator, d)
                    if a is not None and b is not None:
                        r, k, changed = F(a, b), k // d, True
        self.s, self.r, self.k = s, r, k

    def rational(self):
        return self.s * self.r if self.k == 1 else None

    def approx(self):
        return self.s * float(self.r) ** (1.0 / self.k)

    def token(self, rng=None):
        q = self.rational()
        if q is not None:
            kinds = ["q"]
            if q.denominator == 1:
                kinds += ["z", "z", "d"]
            elif is_dyadic(q):
                kinds += ["d", "d"]
            kd = rng.choice(kinds) if rng is not None else kinds[-1]
            t = "z:%d" % q.numerator if kd == "z" else ("d:%d/%d" % (q.numerator, q.denominator.bit_length() - 1) if kd == "d"
                                                       else "q:%d/%d" % (q.numerator, q.denominator))
        else:
            num, den, k = self.r.numerator, self.r.denominator, self.k
            if k % 2 == 0:
                t = "r:%d,%s%d:%d" % (-num, "0," * (k - 1), den, 1 if self.s > 0 else 0)
            else:
                t = "r:%d,%s%d:0" % (-num if self.s > 0 else num, "0," * (k - 1), den)
        APPROX[t] = self.approx()
        return t

    def mul(self, o):
        if self.s == 0 or o.s == 0:
            return Surd(0)
        k = self.k * o.k // math.gcd(self.k, o.k)
        return Surd(self.s * o.s, self.r ** (k // self.k) * o.r ** (k // o.k), k)

    def pow(self, n):
        if n == 0:
            return Surd(1)
        return Surd(self.s ** n, self.r ** n, self.k)


def surd_q(q):
    q = F(q)
    return Surd((q > 0) - (q < 0), abs(q), 1)


def _poly_token(coeffs, idx, approx):
    """token of the idx-th real root of the integer polynomial (low degree first) after clearing denominators"""
    L = 1
    for c in coeffs:
        L = L * F(c).denominator // math.gcd(L, F(c).denominator)
    t = "r:%s:%d" % (",".join(str(int(F(c) * L)) for c in coeffs), idx)
    APPROX[t] = approx
    return t


def surd_add_token(a, b, rng):
    """token of a + b when the generator can write it down, else None"""
    qa, qb = a.rational(), b.rational()
    if qa is not None and qb is not None:
        return surd_q(qa + qb).token(rng)
    if qa is not None or qb is not None:
        q, x = (qa, b) if qa is not None else (qb, a)
        if q == 0:
            return x.token(rng)
        if x.k != 2:
            return None
        # q + s*sqrt(r): root of x^2 - 2q x + q^2 - r
        return _poly_token([q * q - x.r, -2 * q, 1], 1 if x.s > 0 else 0, float(q) + x.approx())
    if a.k == 2 and b.k == 2:
        # a = s1 sqrt(r1), b = s2 sqrt(r2)
        ratio = Surd(1, a.r / b.r, 2).rational()
        if ratio is not None:          # same square class: a = s1*ratio*sqrt(r2)
            c = a.s * ratio + b.s
            return Surd((c > 0) - (c < 0), c * c * b.r, 2).token(rng)
        r1, r2 = a.r, b.r
        vals = sorted([s1 * math.sqrt(r1) + s2 * math.sqrt(r2) for s1 in (-1, 1) for s2 in (-1, 1)])
        v = a.approx() + b.approx()
        idx = min(range(4), key=lambda i: abs(vals[i] - v))
        return _poly_token([(r1 - r2) ** 2, 0, -2 * (r1 + r2), 0, 1], idx, v)
    return None


SQ2, SQ3, SQ6, CB2 = Surd(1, 2, 2), Surd(1, 3, 2), Surd(1, 6, 2), Surd(1, 2, 3)
ALG_ENDS = [SQ2, Surd(-1, 2, 2), SQ3, Surd(-1, 3, 2), SQ6, Surd(-1, 6, 2), CB2, Surd(-1, 2, 3),
            Surd(1, F(1, 2), 2), Surd(-1, F(3, 4), 2)]
AINF_LO, AINF_HI = "AMINF", "APINF"


def a_end(rng):
    k = rng.random()
    if k < 0.55:
        return rng.choice(ALG_ENDS)
    if k < 0.8:
        return surd_q(rng.choice(GRID))
    return surd_q(F(rng.randint(-12, 12), rng.choice([1, 2, 3, 4, 5, 8])))


def a_itv(rng, shape=None):
    """(lo, lo_open, hi, hi_open) with Surd or +-inf ends, or (x,) for a point; shape in neg/pos/mix/any"""
    shape = shape or rng.choice(["neg", "pos", "mix", "any", "any"])
    for _ in range(100):
        if rng.random() < 0.12:
            x = a_end(rng)
            if shape == "neg" and x.approx() >= 0 or shape == "pos" and x.approx() <= 0:
                continue
            return (x,)
        a, b = a_end(rng), a_end(rng)
        if abs(a.approx() - b.approx()) < 1e-9:
            continue
        if a.approx() > b.approx():
            a, b = b, a
        lo, hi = a, b
        r = rng.random()
        if r < 0.08:
            lo = AINF_LO
        elif r < 0.16:
            hi = AINF_HI
        la = -1e18 if lo == AINF_LO else lo.approx()
        ha = 1e18 if hi == AINF_HI else hi.approx()
        if shape == "neg" and ha > 0 or shape == "pos" and la < 0 or shape == "mix" and not (la < 0 < ha):
            continue
        return (lo, 1 if lo == AINF_LO else rng.randint(0, 1), hi, 1 if hi == AINF_HI else rng.randint(0, 1))
    return (surd_q(-1), 0, SQ2, 1)


def a_tok(e, rng):
    return "-inf" if e == AINF_LO else ("+inf" if e == AINF_HI else e.token(rng))


def a_str(I, rng):
    if len(I) == 1:
        return "P " + a_tok(I[0], rng)
    return "I %d %s %d %s" % (I[1], a_tok(I[0], rng), I[3], a_tok(I[2], rng))


def a_witnesses(I, rng):
    """Surd members of I: closed end points, 0, rational points strictly inside"""
    if len(I) == 1:
        return [I[0]]
    lo, lo_o, hi, hi_o = I
    la = None if lo == AINF_LO else lo.approx()
    ha = None if hi == AINF_HI else hi.approx()
    res = []
    if la is not None and not lo_o:
        res.append(lo)
    if ha is not None and not hi_o:
        res.append(hi)
    l = la if la is not None else (ha - 7.0)
    h = ha if ha is not None else (la + 7.0)
    if l < -1e-6 and h > 1e-6:
        res.append(Surd(0))
    for t in (rng.uniform(0.05, 0.45), rng.uniform(0.55, 0.95), 0.5):
        v = l + (h - l) * t
        for den in (4, 64, 4096):
            q = F(round(v * den), den)
            if l + 1e-7 < float(q) < h - 1e-7:
                if all(abs(float(q) - w.approx()) > 1e-12 for w in res):
                    res.append(surd_q(q))
                break
    return res


def a_bin_case(op, rng):
    I1, I2 = a_itv(rng), a_itv(rng)
    if rng.random() < 0.1:
        I2 = I1
    U = a_itv(rng)
    w1, w2 = a_witnesses(I1, rng), a_witnesses(I2, rng)
    prs = [(x, y) for x in w1 for y in w2]
    rng.shuffle(prs)
    prs = sorted(prs[:10], key=lambda p: 0)  # keep a random subset of at most 10 pairs
    ws = []
    for x, y in prs:
        z = x.mul(y).token(rng) if op == "amul" else surd_add_token(x, y, rng)
        if z is not None:
            ws += [x.token(rng), y.token(rng), z]
    return "%s %s %s U %s W %s" % (op, a_str(I1, rng), a_str(I2, rng), a_str(U, rng), " ".join(ws))


def a_pow_case(rng, n=None, shape=None):
    n = rng.choice([0, 1, 2, 2, 3, 4, 4, 5]) if n is None else n
    I = a_itv(rng, shape)
    U = a_itv(rng)
    ws = []
    for x in a_witnesses(I, rng):
        ws += [x.token(rng), x.pow(n).token(rng)]
    return "apow %d %s U %s W %s" % (n, a_str(I, rng), a_str(U, rng), " ".join(ws))


class Qm(object):
    """A + B*sqrt(m) for a fixed square-free integer m"""
    def __init__(self, a, b, m):
        self.a, self.b, self.m = F(a), F(b), m

    def __add__(self, o):
        return Qm(self.a + o.a, self.b + o.b, self.m)

    def __mul__(self, o):
        return Qm(self.a * o.a + self.b * o.b * self.m, self.a * o.b + self.b * o.a, self.m)

    def token(self, rng):
        if self.b == 0:
            return surd_q(self.a).token(rng)
        sb = 1 if self.b > 0 else -1
        if self.a == 0:
            return Surd(sb, self.b * self.b * self.m, 2).token(rng)
        return _poly_token([self.a * self.a - self.b * self.b * self.m, -2 * self.a, 1], 1 if sb > 0 else 0,
                           float(self.a) + float(self.b) * math.sqrt(self.m))


def eval_coef_qm(c, pt, m):
    if c[0] == "N":
        return Qm(c[1], 0, m)
    acc = Qm(0, 0, m)
    xp = Qm(1, 0, m)
    for ci in c[2]:
        acc = acc + eval_coef_qm(ci, pt, m) * xp
        xp = xp * pt[c[1]]
    return acc


def a_poly_case(rng):
    """small polynomials (exact evaluation at algebraic points is expensive for the reference): one variable of
    degree <= 4 or two variables of degree <= 2 each; even powers emphasised; at most one algebraic coordinate
    per witness point"""
    nv = 1 if rng.random() < 0.7 else 2
    maxdeg = 4 if nv == 1 else 2

    def small(x):
        deg = rng.choice([2, maxdeg])
        cs = []
        for i in range(deg + 1):
            if x > 0 and i % 2 == 0 and rng.random() < 0.5:
                cs.append(small(x - 1))
            elif i % 2 == 0 or rng.random() < 0.3:
                cs.append(("N", rng.choice([1, -1, 2, 3, -3])))
            else:
                cs.append(("N", 0))
        if cs[-1] == ("N", 0):
            cs[-1] = ("N", 1)
        return ("R", x, cs)
    c = small(nv - 1)
    m = rng.choice([2, 3, 6])
    Is = [a_itv(rng, rng.choice(["neg", "neg", "pos", "mix", "any"])) for _ in range(nv)]
    ws = []
    for _ in range(5):
        pt, toks, ok, nalg = [], [], True, 0
        for I in Is:
            cands = a_witnesses(I, rng)
            usable = [w for w in cands if w.rational() is not None or
                      (nalg == 0 and w.k == 2 and Surd(1, w.r / m, 2).rational() is not None)]
            if not usable:
                ok = False
                break
            algs = [w for w in usable if w.rational() is None]
            w = rng.choice(algs) if algs and rng.random() < 0.6 else rng.choice(usable)
            if w.rational() is not None:
                pt.append(Qm(w.rational(), 0, m))
            else:
                nalg += 1
                pt.append(Qm(0, w.s * Surd(1, w.r / m, 2).rational(), m))
            toks.append(w.token(rng))
        if ok:
            ws += toks + [eval_coef_qm(c, pt, m).token(rng)]
    return "apoly %d %s A %s W %s" % (nv, s_coef(c), " ".join(a_str(I, rng) for I in Is), " ".join(ws))


def alg_cases(rng, n):
    cases = []
    for _ in range(n):
        k = rng.random()
        if k < 0.3:
            cases.append(a_bin_case("amul", rng))
        elif k < 0.5:
            cases.append(a_bin_case("aadd", rng))
        elif k < 0.85:
            cases.append(a_pow_case(rng))
        else:
            cases.append(a_poly_case(rng))
    return cases



# ------------------------------------------------------------------ the rest of the interval API (exact model predictions)
def s_valtok(q, rng, kinds=None):
    """value token of my format (i: / d:a@n / q:n/d) for a rational q"""
    return s_val(q, rng)


def near(I, rng, dyadic=True):
    """a scalar at / next to the ends of I, inside, or far away (boundary cases of cmp / contains / set_a / set_b)"""
    pts = [I[0]] if len(I) == 1 else [I[0], I[2], (I[0] + I[2]) / 2]
    x = rng.choice(pts) + rng.choice([0, 0, 0, F(1, 4), F(-1, 4), 3, -3])
    if not dyadic and rng.random() < 0.3:
        x += F(1, 3)
    return x


def related_pair(rng):
    """two dyadic intervals that are nested / touching / overlapping / equal / disjoint, ends often equal with
    different strictness"""
    I1 = rnd_itv(rng, True, False)
    k = rng.random()
    if k < 0.25:
        I2 = rnd_itv(rng, True, False)
    elif len(I1) == 1:
        a = I1[0]
        I2 = rng.choice([(a,), (a, rng.randint(0, 1), a + 1, rng.randint(0, 1)), (a - 1, rng.randint(0, 1), a, rng.randint(0, 1)),
                         (a - 1, 0, a + 1, 1)])
    else:
        a, ao, b, bo = I1
        w = b - a
        I2 = rng.choice([
            (a, rng.randint(0, 1), b, rng.randint(0, 1)),                    # same ends, maybe other strictness
            (b, rng.randint(0, 1), b + w, rng.randint(0, 1)),                # touching on the right
            (a - w, rng.randint(0, 1), a, rng.randint(0, 1)),                # touching on the left
            (a + w / 4, rng.randint(0, 1), b - w / 4, rng.randint(0, 1)),    # nested
            (a, rng.randint(0, 1), b - w / 2, rng.randint(0, 1)),            # shared lower end
            (a + w / 2, rng.randint(0, 1), b, rng.randint(0, 1)),            # shared upper end
            (a - w / 2, rng.randint(0, 1), a + w / 2, rng.randint(0, 1)),    # overlapping
            (b,), (a,), ((a + b) / 2,),
        ])
    return (I1, I2) if rng.random() < 0.5 else (I2, I1)


def disjoint(I1, I2):
    def lo(I): return (I[0], 0) if len(I) == 1 else (I[0], I[1])
    def hi(I): return (I[0], 0) if len(I) == 1 else (I[2], I[3])
    for A, B in ((I1, I2), (I2, I1)):
        (hb, ho), (la, lo_) = hi(A), lo(B)
        if hb < la or (hb == la and (ho or lo_)):
            return True
    return False


def api_cases(rng, n):
    cases = []
    sd = lambda I: s_itv(I, s_dy)
    sr = lambda I: s_itv(I, s_rat)
    sv = lambda I: s_itv(I, lambda q: s_val(q, rng))
    for _ in range(n):
        op = rng.choice(["dsplit", "dinter", "dinter", "ddisj", "ddisj", "dequals", "dcmp", "dcmp", "dcollapse", "dseta", "dsetb",
                         "dscale", "dsize", "dfromz", "rfromz", "dassign", "rassign", "rfromdy", "rfromdi", "rcval", "rcval", "rcalg",
                         "vcollapse", "vseta", "vsetb", "vinfo", "vswap"])
        if op == "dsplit":
            I = rnd_itv(rng, True)
            if len(I) == 1:
                continue
            cases.append("dsplit %s %d %d" % (sd(I), rng.randint(0, 1), rng.randint(0, 1)))
        elif op in ("dinter", "ddisj", "dequals"):
            I1, I2 = related_pair(rng)
            if op == "dinter" and disjoint(I1, I2):
                continue                      # precondition of construct_intersection (asserted)
            cases.append("%s %s %s" % (op, sd(I1), sd(I2)))
        elif op == "dcmp":
            I = rnd_itv(rng, True)
            k = rng.choice("idq")
            x = near(I, rng, k != "q")
            if k == "i":
                x = F(math.floor(x)) if rng.random() < 0.5 else F(math.ceil(x))
                cases.append("dcmp %s i:%d" % (sd(I), x.numerator))
            elif k == "d":
                cases.append("dcmp %s d:%s" % (sd(I), s_dy(x)))
            else:
                cases.append("dcmp %s q:%s" % (sd(I), s_rat(x)))
        elif op == "dcollapse":
            I = rnd_itv(rng, True)
            cases.append("dcollapse %s %s" % (sd(I), s_dy(near(I, rng))))
        elif op in ("dseta", "dsetb", "vseta", "vsetb"):
            fam = op[0]
            I = rnd_itv(rng, fam == "d", fam == "v")
            fin = [e for e in (I if len(I) == 1 else (I[0], I[2])) if e not in (MINF, PINF)]
            if not fin:
                continue
            base = rng.choice(fin)
            x = base + rng.choice([0, 0, F(1, 2), F(-1, 2), 2, -2])
            o = rng.randint(0, 1)
            # respect the asserted preconditions: new a <= upper end (closed-closed if equal), new b >= lower end
            lo_ = I[0]
            hi_ = I[0] if len(I) == 1 else I[2]
            if op[1:] == "seta":
                if hi_ != PINF and (x > hi_ or (x == hi_ and (o or (len(I) > 1 and I[3])))):
                    continue
            else:
                if lo_ != MINF and (x < lo_ or (x == lo_ and (o or (len(I) > 1 and I[1])))):
                    continue
            if fam == "d":
                cases.append("%s %s %s %d" % (op, sd(I), s_dy(x), o))
            else:
                cases.append("%s %s %s %d" % (op, sv(I), s_val(x, rng), o))
        elif op == "dscale":
            I = rnd_itv(rng, True)
            if len(I) == 1:
                continue
            cases.append("dscale %s %d" % (sd(I), rng.choice([0, 1, -1, 2, -3, 5, -7, 64])))
        elif op == "dsize":
            I = rnd_itv(rng, True)
            if len(I) > 1 and rng.random() < 0.3:
                I = (I[0], I[1], I[0] + F(rng.choice([1, 3, 5, 255, 256, 257]), 2 ** rng.randint(0, 9)), I[3])
            cases.append("dsize %s" % sd(I))
        elif op in ("dfromz", "rfromz"):
            a = rng.choice([0, 1, -1, 7, -2**63, 2**64 + 1, rng.randint(-10**20, 10**20)])
            b = a + rng.choice([0, 0, 1, 2, 10**19])
            o = (0, 0) if a == b else (rng.randint(0, 1), rng.randint(0, 1))
            cases.append("%s %d %d %d %d" % (op, a, o[0], b, o[1]))
        elif op == "dassign":
            cases.append("dassign %s %s" % (sd(rnd_itv(rng, True)), sd(rnd_itv(rng, True))))
        elif op == "rassign":
            cases.append("rassign %s %s" % (sr(rnd_itv(rng)), sr(rnd_itv(rng))))
        elif op == "rfromdy":
            I = rnd_itv(rng, True)
            if len(I) == 1:
                cases.append("rfromdy %s 0 %s 0" % (s_dy(I[0]), s_dy(I[0])))
            else:
                cases.append("rfromdy %s %d %s %d" % (s_dy(I[0]), I[1], s_dy(I[2]), I[3]))
        elif op == "rfromdi":
            cases.append("rfromdi %s" % sd(rnd_itv(rng, True)))
        elif op == "rcval":
            I = rnd_itv(rng)
            x = near(I, rng, False)
            if rng.random() < 0.3:
                x = F(math.floor(x))
            v = rng.choice([MINF, PINF]) if rng.random() < 0.05 else x
            cases.append("rcval %s %s" % (sr(I), s_val(v, rng)))
        elif op == "rcalg":
            I = rnd_itv(rng)
            if rng.random() < 0.5:
                # an interval with an end next to the algebraic number
                v = rng.choice(ALG_ENDS)
                ap = F(v.approx()).limit_denominator(64)
                I = rng.choice([(ap - 1, rng.randint(0, 1), ap + F(1, 64), rng.randint(0, 1)), (ap - F(1, 64), 0, ap + 2, 1),
                                (ap + F(1, 32), 0, ap + 1, 0), (ap - 2, 1, ap - F(1, 32), 0)])
            else:
                v = rng.choice(ALG_ENDS + [surd_q(near(I, rng, False))])
            cases.append("rcalg %s %s" % (sr(I), v.token(rng)))
        elif op == "vcollapse":
            I = rnd_itv(rng, False, True)
            cases.append("vcollapse %s %s" % (sv(I), s_val(rnd_scalar(rng, False), rng)))
        elif op == "vinfo":
            I = rnd_itv(rng, False, True)
            if rng.random() < 0.1:
                I = (MINF, 1, PINF, 1)
            cases.append("vinfo %s" % sv(I))
        elif op == "vswap":
            cases.append("vswap %s %s" % (sv(rnd_itv(rng, False, True)), sv(rnd_itv(rng, False, True))))
    return cases


# ------------------------------------------------------------------ generate
def exhaustive_cases(rng):
    cases = []
    fin = intervals(GRID)
    vin = intervals(GRID, [MINF], [PINF])
    useds = [(F(0),), (F(-7), 1, F(3, 4), 0), (F(5),)]
    for fam, ivs in (("r", fin), ("d", fin), ("v", vin)):
        for I1 in ivs:
            for I2 in ivs:
                U = useds[(len(cases)) % 3]
                for op in ("add", "mul") + (("sub",) if fam != "v" else ()):
                    cases.append(bin_case(fam + op, I1, I2, U, rng))
        for I in ivs:
            for n in range(0, 6):
                cases.append(un_case(fam + "pow", I, useds[n % 3], rng, n))
            if fam != "v":
                cases.append(un_case(fam + "neg", I, useds[0], rng))
            cases.append("%ssgn %s" % (fam, s_itv(I, (lambda q: s_val(q, rng)) if fam == "v" else (s_dy if fam == "d" else s_rat))))
    for I in vin:
        for c in range(6):
            cases.append("sc %d %s W %s" % (c, s_itv(I, lambda q: s_val(q, rng)), " ".join(s_rat(x) for x in witnesses(I, rng))))
    return cases


def generate(rng, tier, corpus_only=False):
    cases = []
    if tier == "thorough":
        ex = exhaustive_cases(rng)
        EXHAUSTIVE["done"] = True
        EXHAUSTIVE["cases"] = len(ex)
        cases += ex
        n_rand = 30000
    else:
        # a seeded sample of the exhaustive grid space + random end points
        fin = intervals(GRID)
        vin = intervals(GRID, [MINF], [PINF])
        for _ in range(9000):
            fam = rng.choice("rdv")
            ivs = vin if fam == "v" else fin
            I1, I2, U = rng.choice(ivs), rng.choice(ivs), rng.choice(fin)
            if rng.random() < 0.6:
                op = rng.choice(["add", "mul", "mul", "mul"] + ([] if fam == "v" else ["sub"]))
                cases.append(bin_case(fam + op, I1, I2, U, rng))
            else:
                cases.append(un_case(fam + "pow", I1, U, rng, rng.randint(0, 5)))
        n_rand = 8000
    cases += alg_cases(rng, 1500 if tier == "quick" else 12000)
    cases += api_cases(rng, 4000 if tier == "quick" else 40000)
    if tier == "thorough":
        # every open/closed pattern x n in 0..5 on entirely negative / positive / straddling algebraic intervals
        for shape in ("neg", "pos", "mix"):
            for n in range(6):
                for _ in range(40):
                    cases.append(a_pow_case(rng, n, shape))
    for _ in range(n_rand):
        k = rng.random()
        fam = rng.choice("rdv")
        dy = fam == "d"
        inf = fam == "v"
        U = rnd_itv(rng, dy, False)
        if k < 0.5:
            op = rng.choice(["add", "mul", "mul", "mul"] + ([] if fam == "v" else ["sub"]))
            I1, I2 = rnd_itv(rng, dy, inf), rnd_itv(rng, dy, inf)
            if rng.random() < 0.15:
                I2 = I1
            cases.append(bin_case(fam + op, I1, I2, U, rng))
        elif k < 0.72:
            cases.append(un_case(fam + "pow", rnd_itv(rng, dy, inf), U, rng, rng.choice([0, 1, 2, 2, 3, 4, 4, 5, 6, 7])))
        elif k < 0.78 and fam != "v":
            cases.append(un_case(fam + "neg", rnd_itv(rng, dy, inf), U, rng))
        elif k < 0.84:
            I = rnd_itv(rng, dy, inf)
            cases.append("%ssgn %s" % (fam, s_itv(I, (lambda q: s_val(q, rng)) if fam == "v" else (s_dy if dy else s_rat))))
        elif k < 0.92:
            I = rnd_itv(rng, False, True)
            cases.append("sc %d %s W %s" % (rng.randint(0, 5), s_itv(I, lambda q: s_val(q, rng)),
                                            " ".join(s_rat(x) for x in witnesses(I, rng))))
        elif k < 0.99:
            cases.append(poly_case(rng))
        else:
            a = rng.randint(-5, 5)
            b = a + rng.randint(0, 3)
            o = (0, 0) if a == b else (rng.randint(0, 1), rng.randint(0, 1))
            cases.append("%scons %d %d %d %d" % (rng.choice("rd"), a, o[0], b, o[1]))
    return cases


# ------------------------------------------------------------------ classification
def _parse_itv(t, i):
    if t[i] == "P":
        return ("P", t[i + 1]), i + 2
    return ("I", t[i + 1], t[i + 2], t[i + 3], t[i + 4]), i + 5


def _num(s):
    """denotation of a scalar token"""
    if s in (MINF, PINF):
        return s
    if s[1:2] == ":":
        s = s[2:]
    if "@" in s:
        a, n = s.split("@")
        return F(int(a), 2 ** int(n))
    if "/" in s:
        a, b = s.split("/")
        return F(int(a), int(b))
    return F(int(s))


def _zero_class(I):
    if I[0] == "P":
        v = _num(I[1])
        return "pt0" if v == 0 else ("pt+" if v > 0 else "pt-")
    a, b = _num(I[2]), _num(I[4])
    inf = "inf" if (a == MINF or b == PINF) else ""
    if a != MINF and a == 0:
        return inf + ("z(" if I[1] == "1" else "z[")
    if b != PINF and b == 0:
        return inf + ("z)" if I[3] == "1" else "z]")
    if (a == MINF or a < 0) and (b == PINF or b > 0):
        if a != MINF and b != PINF and -a == b:
            return "sym" + I[1] + I[3]
        return inf + "mix"
    return inf + ("pos" if (a != MINF and a > 0) else "neg")


def _a_cls(I):
    def ap(tok):
        if tok == "-inf":
            return -1e18
        if tok == "+inf":
            return 1e18
        return APPROX.get(tok)
    alg = "alg" if any(x.startswith("r:") for x in I[1:]) else "rat"
    if I[0] == "P":
        v = ap(I[1])
        return alg + ("pt?" if v is None else ("pt0" if v == 0 else ("pt+" if v > 0 else "pt-")))
    a, b = ap(I[2]), ap(I[4])
    if a is None or b is None:
        return alg + "?"
    return alg + ("neg" if b <= 0 else ("pos" if a >= 0 else "mix")) + I[1] + I[3]


def _a_tag(t):
    try:
        if t[0] in ("aadd", "amul"):
            I1, i = _parse_itv(t, 1)
            I2, i = _parse_itv(t, i)
            return "%s:%s*%s" % (t[0], _a_cls(I1), _a_cls(I2))
        if t[0] == "apow":
            n = int(t[1])
            I, i = _parse_itv(t, 2)
            return "apow:%s:%s" % ("n0" if n == 0 else ("odd" if n % 2 else "even"), _a_cls(I))
    except Exception:
        pass
    return t[0]


def tag(case):
    """branch tag: operation + the case split of the model the operands reach"""
    t = case.split()
    op = t[0]
    if op in ("aadd", "amul", "apow", "apoly"):
        return _a_tag(t)
    try:
        if op[1:] in ("add", "sub", "mul"):
            I1, i = _parse_itv(t, 1)
            I2, i = _parse_itv(t, i)
            return "%s:%s*%s" % (op, _zero_class(I1), _zero_class(I2)) if op[1:] == "mul" else \
                   "%s:%s%s" % (op, I1[0], I2[0])
        if op[1:] == "pow":
            n = int(t[1])
            I, i = _parse_itv(t, 2)
            return "%s:%s:%s" % (op, "n0" if n == 0 else ("odd" if n % 2 else "even"), _zero_class(I))
        if op[1:] in ("neg", "sgn"):
            I, i = _parse_itv(t, 1)
            return "%s:%s" % (op, _zero_class(I))
        if op == "sc":
            I, i = _parse_itv(t, 2)
            return "sc%s:%s" % (t[1], _zero_class(I))
    except Exception:
        pass
    return op


def nontrivial(case):
    """non-trivial: at least one operand is a proper (non-point) interval, or a polynomial"""
    t = case.split()
    if t[0] == "poly":
        return True
    w = t.index("U") if "U" in t else (t.index("W") if "W" in t else len(t))
    return "I" in t[1:w]


def explain(case, c_out, m_out):
    if c_out is None:
        return "the C driver crashed on this case (sanitizer report / signal in stderr_tail)"
    if case.split()[0] in ("aadd", "amul", "apow", "apoly"):
        return "end points of every value kind: the exact reference arithmetic (RefAlg) decided on the library's output: " + (m_out or "")
    msg = []
    if "lost=" in c_out and not c_out.rstrip().endswith("lost=0"):
        msg.append("SEMANTIC: the library's own `contains` rejects %s witness value(s) x o y (x, y taken from the "
                   "operands after W) on the library's result: a point was lost" % c_out.rsplit("lost=", 1)[1])
    if "bad=" in c_out and not c_out.rstrip().endswith("bad=0"):
        msg.append("the interval sign-condition test answered true although a witness point of the interval violates the condition")
    cs, ms = [x.strip() for x in c_out.split(";")], [x.strip() for x in (m_out or "").split(";")]
    names = ["fresh output", "pre-used output", "output aliased with operand 1", "output aliased with operand 2"]
    for k, (a, b) in enumerate(zip(cs, ms)):
        if a != b and k < len(names) and "=" not in a:
            msg.append("%s: library %s, proved model %s" % (names[k], a, b))
    return "; ".join(msg) or "outputs differ"


def extra_coverage(cases, couts, mouts):
    return {"exhaustive": bool(EXHAUSTIVE["done"]),
            "exhaustive_space": "every pair of intervals (points and all 4 open/closed patterns) with end points in "
                                "{-2,-1,-1/2,0,1/2,1,2} (+-inf, open, for the value level) x {add, sub, mul}, every such interval x "
                                "n in 0..5 for pow, x 6 sign conditions; three scalar families" if EXHAUSTIVE["done"] else "",
            "exhaustive_cases": EXHAUSTIVE["cases"],
            "witness_points_checked": sum(max(0, (len(c.split(" W ", 1)[1].split()) if " W " in c else 0)) for c in cases)}


RULE = ("corpus of defect witnesses first; quick: seeded sample of the exhaustive end-point grid plus random rational/dyadic/"
        "infinite end points; thorough: the whole grid (exhaustive=true) plus 30000 random cases; distinct = distinct case "
        "line; non-trivial = some operand is a proper interval")
ASSUMPTIONS = ["theorems and the faithful model: interval end points are integers, rationals, dyadic rationals or +-infinity; ALGEBRAIC end points "
               "(aadd/amul/apow/apoly) are covered by the semantic monitor and the exact reference arithmetic RefAlg.v only (no theorem)",
               "inputs satisfy the constructors' assertions (a < b, or a point with closed ends)"]
TRUSTED = ["witness points are chosen by gen/C15.py (validated by the model's proved `contains`) and combined with GMP in harness/c15.c"]
