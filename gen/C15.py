HARNESS = "c15"
LEVEL = "proof"
"""C15 case generator: interval arithmetic never loses a point.

Case lines (see harness/c15.c):
  radd|rsub|rmul|dadd|dsub|dmul|vadd|vmul  <I1> <I2> U <U> W x1 y1 x2 y2 ...
  rneg|dneg <I> U <U> W x...      rpow|dpow|vpow n <I> U <U> W x...
  rsgn|dsgn|vsgn <I>              sc <cond 0..5> <I> W x...
  poly nv <coef> A <I_0> .. <I_nv-1> W <point> <point> ...
  rcons|dcons a a_open b b_open
U is the previous content of the output operand; the pairs after W are witness points of the operands
(closed end points, zero, mid points, points near the ends): the C side computes x o y with GMP and asks the
library's `contains` on the library's result, the model side checks that each witness is in its operand.
Every random choice comes from the one `rng` passed in.  thorough = exhaustive over the end-point grid.
"""
from fractions import Fraction as F

GRID = [F(-2), F(-1), F(-1, 2), F(0), F(1, 2), F(1), F(2)]
MINF, PINF = "-inf", "+inf"
EXHAUSTIVE = {"done": False, "cases": 0}


def is_dyadic(q):
    d = q.denominator
    return d & (d - 1) == 0


def s_rat(q):
    return "%d/%d" % (q.numerator, q.denominator)


def s_dy(q):
    assert is_dyadic(q)
    return "%d@%d" % (q.numerator, q.denominator.bit_length() - 1)


def s_val(q, rng):
    """a value of a random admissible kind with the given denotation"""
    if q in (MINF, PINF):
        return q
    kinds = ["q"]
    if q.denominator == 1:
        kinds += ["i", "i", "d"]
    elif is_dyadic(q):
        kinds += ["d", "d"]
    k = rng.choice(kinds)
    if k == "i":
        return "i:%d" % q.numerator
    if k == "d":
        return "d:" + s_dy(q)
    return "q:" + s_rat(q)


# an interval is (a, a_open, b, b_open) with a < b, or (a,) for the point [a]
def s_itv(I, ss):
    if len(I) == 1:
        return "P " + ss(I[0])
    return "I %d %s %d %s" % (I[1], ss(I[0]), I[3], ss(I[2]))


def intervals(ends, lo_extra=(), hi_extra=()):
    """all intervals over the end-point list: points and the 4 strictness patterns of every a < b;
    infinite ends are open"""
    res = [(a,) for a in ends]
    for i, a in enumerate(ends):
        for b in ends[i + 1:]:
            for ao in (0, 1):
                for bo in (0, 1):
                    res.append((a, ao, b, bo))
    for b in ends:
        for bo in (0, 1):
            for lo in lo_extra:
                res.append((lo, 1, b, bo))
    for a in ends:
        for ao in (0, 1):
            for hi in hi_extra:
                res.append((a, ao, hi, 1))
    for lo in lo_extra:
        for hi in hi_extra:
            res.append((lo, 1, hi, 1))
    return res


def member(x, I):
    if len(I) == 1:
        return x == I[0]
    a, ao, b, bo = I
    if a != MINF and (x < a or (x == a and ao)):
        return False
    if b != PINF and (x > b or (x == b and bo)):
        return False
    return True


def witnesses(I, rng=None, dyadic_only=False):
    """points of I: closed ends, zero, mid point, points near the ends (all dyadic if the ends are)"""
    if len(I) == 1:
        return [I[0]]
    a, ao, b, bo = I
    c = []
    if a == MINF and b == PINF:
        c = [F(-3), F(0), F(5, 2), F(-1, 4)]
    elif a == MINF:
        c = [b, b - F(1, 8), b - 1, b - 100, F(0)]
    elif b == PINF:
        c = [a, a + F(1, 8), a + 1, a + 100, F(0)]
    else:
        w = b - a
        c = [a, b, (a + b) / 2, a + w / 8, b - w / 8, F(0)]
        if rng is not None and not dyadic_only:
            c.append(a + w * F(rng.randint(1, 99), 100))
    res = []
    for x in c:
        if member(x, I) and x not in res:
            res.append(x)
    return res


def pairs(I1, I2, rng, limit=16):
    w1, w2 = witnesses(I1, rng), witnesses(I2, rng)
    ps = [(x, y) for x in w1 for y in w2]
    if len(ps) > limit:
        # always keep the pairs of end points / zero (first entries), sample the rest
        head = [(x, y) for x in w1[:2] for y in w2[:2]]
        rest = [p for p in ps if p not in head]
        rng.shuffle(rest)
        ps = head + rest[:limit - len(head)]
    return ps


def bin_case(op, I1, I2, U, rng):
    fam = op[0]
    if fam == "v":
        si = lambda I: s_itv(I, lambda q: s_val(q, rng))
        sw = s_rat
    elif fam == "d":
        si = lambda I: s_itv(I, s_dy)
        sw = s_dy
    else:
        si = lambda I: s_itv(I, s_rat)
        sw = s_rat
    ps = pairs(I1, I2, rng if fam != "d" else None) if fam != "d" else \
        [(x, y) for x in witnesses(I1, None, True) for y in witnesses(I2, None, True)][:20]
    return "%s %s %s U %s W %s" % (op, si(I1), si(I2), si(U), " ".join(sw(x) + " " + sw(y) for x, y in ps))


def un_case(op, I, U, rng, n=None):
    fam = op[0]
    if fam == "v":
        si = lambda J: s_itv(J, lambda q: s_val(q, rng))
        sw = s_rat
    elif fam == "d":
        si = lambda J: s_itv(J, s_dy)
        sw = s_dy
    else:
        si = lambda J: s_itv(J, s_rat)
        sw = s_rat
    ws = witnesses(I, rng if fam != "d" else None, fam == "d")
    head = op if n is None else "%s %d" % (op, n)
    return "%s %s U %s W %s" % (head, si(I), si(U), " ".join(sw(x) for x in ws))


def rnd_scalar(rng, dyadic):
    k = rng.random()
    if k < 0.45:
        return rng.choice(GRID)
    if dyadic:
        return F(rng.randint(-40, 40) * 2 + 1, 2 ** rng.randint(1, 6))
    if k < 0.6:
        return F(rng.randint(-10**12, 10**12), rng.randint(1, 10**9))
    return F(rng.randint(-30, 30), rng.randint(1, 12))


def rnd_itv(rng, dyadic=False, inf=False):
    k = rng.random()
    if k < 0.15:
        return (rnd_scalar(rng, dyadic),)
    a, b = rnd_scalar(rng, dyadic), rnd_scalar(rng, dyadic)
    if inf and rng.random() < 0.25:
        r = rng.random()
        if r < 0.4:
            return (MINF, rng.choice([1, 1, 1, 0]), b, rng.randint(0, 1))
        if r < 0.8:
            return (a, rng.randint(0, 1), PINF, rng.choice([1, 1, 1, 0]))
        return (MINF, 1, PINF, 1)
    if a == b:
        return (a,)
    if a > b:
        a, b = b, a
    if rng.random() < 0.3:      # symmetric or touching zero: the tie cases of mul / even pow
        m = abs(b) if b != 0 else abs(a)
        a, b = rng.choice([(-m, m), (F(0), m), (-m, F(0))])
    return (a, rng.randint(0, 1), b, rng.randint(0, 1))


# ------------------------------------------------------------------ polynomials
def rnd_coef(rng, top, depth=0):
    """canonical recursive polynomial in variables x0 < .. < x_top: ('N', z) or ('R', x, [c0..ck]), k >= 1, ck != 0"""
    if top < 0 or rng.random() < 0.25 + 0.2 * depth:
        return ("N", rng.choice([0, 1, -1, 2, -3, 5, rng.randint(-9, 9)]))
    x = rng.randint(0, top)
    deg = rng.randint(1, 4)
    cs = [rnd_coef(rng, x - 1, depth + 1) for _ in range(deg + 1)]
    if cs[-1] == ("N", 0):
        cs[-1] = ("N", rng.choice([1, -1, 2]))
    return ("R", x, cs)


def s_coef(c):
    if c[0] == "N":
        return "N %d" % c[1]
    return "R %d %d %s" % (c[1], len(c[2]), " ".join(s_coef(k) for k in c[2]))


def poly_case(rng):
    nv = rng.randint(1, 3)
    c = rnd_coef(rng, nv - 1)
    if c[0] == "N":
        c = ("R", 0, [c, ("N", 1)])
    Is = [rnd_itv(rng, False, True) for _ in range(nv)]
    pts = []
    for _ in range(6):
        pts.append([rng.choice(witnesses(I, rng)) for I in Is])
    return "poly %d %s A %s W %s" % (nv, s_coef(c), " ".join(s_itv(I, lambda q: s_val(q, rng)) for I in Is),
                                     " ".join(" ".join(s_rat(x) for x in p) for p in pts))


# ------------------------------------------------------------------ generate
def exhaustive_cases(rng):
    cases = []
    fin = intervals(GRID)
    vin = intervals(GRID, [MINF], [PINF])
    useds = [(F(0),), (F(-7), 1, F(3, 4), 0), (F(5),)]
    for fam, ivs in (("r", fin), ("d", fin), ("v", vin)):
        for I1 in ivs:
            for I2 in ivs:
                U = useds[(len(cases)) % 3]
                for op in ("add", "mul") + (("sub",) if fam != "v" else ()):
                    cases.append(bin_case(fam + op, I1, I2, U, rng))
        for I in ivs:
            for n in range(0, 6):
                cases.append(un_case(fam + "pow", I, useds[n % 3], rng, n))
            if fam != "v":
                cases.append(un_case(fam + "neg", I, useds[0], rng))
            cases.append("%ssgn %s" % (fam, s_itv(I, (lambda q: s_val(q, rng)) if fam == "v" else (s_dy if fam == "d" else s_rat))))
    for I in vin:
        for c in range(6):
            cases.append("sc %d %s W %s" % (c, s_itv(I, lambda q: s_val(q, rng)), " ".join(s_rat(x) for x in witnesses(I, rng))))
    return cases


def generate(rng, tier, corpus_only=False):
    cases = []
    if tier == "thorough":
        ex = exhaustive_cases(rng)
        EXHAUSTIVE["done"] = True
        EXHAUSTIVE["cases"] = len(ex)
        cases += ex
        n_rand = 30000
    else:
        # a seeded sample of the exhaustive grid space + random end points
        fin = intervals(GRID)
        vin = intervals(GRID, [MINF], [PINF])
        for _ in range(9000):
            fam = rng.choice("rdv")
            ivs = vin if fam == "v" else fin
            I1, I2, U = rng.choice(ivs), rng.choice(ivs), rng.choice(fin)
            if rng.random() < 0.6:
                op = rng.choice(["add", "mul", "mul", "mul"] + ([] if fam == "v" else ["sub"]))
                cases.append(bin_case(fam + op, I1, I2, U, rng))
            else:
                cases.append(un_case(fam + "pow", I1, U, rng, rng.randint(0, 5)))
        n_rand = 8000
    for _ in range(n_rand):
        k = rng.random()
        fam = rng.choice("rdv")
        dy = fam == "d"
        inf = fam == "v"
        U = rnd_itv(rng, dy, False)
        if k < 0.5:
            op = rng.choice(["add", "mul", "mul", "mul"] + ([] if fam == "v" else ["sub"]))
            I1, I2 = rnd_itv(rng, dy, inf), rnd_itv(rng, dy, inf)
            if rng.random() < 0.15:
                I2 = I1
            cases.append(bin_case(fam + op, I1, I2, U, rng))
        elif k < 0.72:
            cases.append(un_case(fam + "pow", rnd_itv(rng, dy, inf), U, rng, rng.choice([0, 1, 2, 2, 3, 4, 4, 5, 6, 7])))
        elif k < 0.78 and fam != "v":
            cases.append(un_case(fam + "neg", rnd_itv(rng, dy, inf), U, rng))
        elif k < 0.84:
            I = rnd_itv(rng, dy, inf)
            cases.append("%ssgn %s" % (fam, s_itv(I, (lambda q: s_val(q, rng)) if fam == "v" else (s_dy if dy else s_rat))))
        elif k < 0.92:
            I = rnd_itv(rng, False, True)
            cases.append("sc %d %s W %s" % (rng.randint(0, 5), s_itv(I, lambda q: s_val(q, rng)),
                                            " ".join(s_rat(x) for x in witnesses(I, rng))))
        elif k < 0.99:
            cases.append(poly_case(rng))
        else:
            a = rng.randint(-5, 5)
            b = a + rng.randint(0, 3)
            o = (0, 0) if a == b else (rng.randint(0, 1), rng.randint(0, 1))
            cases.append("%scons %d %d %d %d" % (rng.choice("rd"), a, o[0], b, o[1]))
    return cases


# ------------------------------------------------------------------ classification
def _parse_itv(t, i):
    if t[i] == "P":
        return ("P", t[i + 1]), i + 2
    return ("I", t[i + 1], t[i + 2], t[i + 3], t[i + 4]), i + 5


def _num(s):
    """denotation of a scalar token"""
    if s in (MINF, PINF):
        return s
    if s[1:2] == ":":
        s = s[2:]
    if "@" in s:
        a, n = s.split("@")
        return F(int(a), 2 ** int(n))
    if "/" in s:
        a, b = s.split("/")
        return F(int(a), int(b))
    return F(int(s))


def _zero_class(I):
    if I[0] == "P":
        v = _num(I[1])
        return "pt0" if v == 0 else ("pt+" if v > 0 else "pt-")
    a, b = _num(I[2]), _num(I[4])
    inf = "inf" if (a == MINF or b == PINF) else ""
    if a != MINF and a == 0:
        return inf + ("z(" if I[1] == "1" else "z[")
    if b != PINF and b == 0:
        return inf + ("z)" if I[3] == "1" else "z]")
    if (a == MINF or a < 0) and (b == PINF or b > 0):
        if a != MINF and b != PINF and -a == b:
            return "sym" + I[1] + I[3]
        return inf + "mix"
    return inf + ("pos" if (a != MINF and a > 0) else "neg")


def tag(case):
    """branch tag: operation + the case split of the model the operands reach"""
    t = case.split()
    op = t[0]
    try:
        if op[1:] in ("add", "sub", "mul"):
            I1, i = _parse_itv(t, 1)
            I2, i = _parse_itv(t, i)
            return "%s:%s*%s" % (op, _zero_class(I1), _zero_class(I2)) if op[1:] == "mul" else \
                   "%s:%s%s" % (op, I1[0], I2[0])
        if op[1:] == "pow":
            n = int(t[1])
            I, i = _parse_itv(t, 2)
            return "%s:%s:%s" % (op, "n0" if n == 0 else ("odd" if n % 2 else "even"), _zero_class(I))
        if op[1:] in ("neg", "sgn"):
            I, i = _parse_itv(t, 1)
            return "%s:%s" % (op, _zero_class(I))
        if op == "sc":
            I, i = _parse_itv(t, 2)
            return "sc%s:%s" % (t[1], _zero_class(I))
    except Exception:
        pass
    return op


def nontrivial(case):
    """non-trivial: at least one operand is a proper (non-point) interval, or a polynomial"""
    t = case.split()
    if t[0] == "poly":
        return True
    w = t.index("U") if "U" in t else (t.index("W") if "W" in t else len(t))
    return "I" in t[1:w]


def explain(case, c_out, m_out):
    if c_out is None:
        return "the C driver crashed on this case (sanitizer report / signal in stderr_tail)"
    msg = []
    if "lost=" in c_out and not c_out.rstrip().endswith("lost=0"):
        msg.append("SEMANTIC: the library's own `contains` rejects %s witness value(s) x o y (x, y taken from the "
                   "operands after W) on the library's result: a point was lost" % c_out.rsplit("lost=", 1)[1])
    if "bad=" in c_out and not c_out.rstrip().endswith("bad=0"):
        msg.append("the interval sign-condition test answered true although a witness point of the interval violates the condition")
    cs, ms = [x.strip() for x in c_out.split(";")], [x.strip() for x in (m_out or "").split(";")]
    names = ["fresh output", "pre-used output", "output aliased with operand 1", "output aliased with operand 2"]
    for k, (a, b) in enumerate(zip(cs, ms)):
        if a != b and k < len(names) and "=" not in a:
            msg.append("%s: library %s, proved model %s" % (names[k], a, b))
    return "; ".join(msg) or "outputs differ"


def extra_coverage(cases, couts, mouts):
    return {"exhaustive": bool(EXHAUSTIVE["done"]),
            "exhaustive_space": "every pair of intervals (points and all 4 open/closed patterns) with end points in "
                                "{-2,-1,-1/2,0,1/2,1,2} (+-inf, open, for the value level) x {add, sub, mul}, every such interval x "
                                "n in 0..5 for pow, x 6 sign conditions; three scalar families" if EXHAUSTIVE["done"] else "",
            "exhaustive_cases": EXHAUSTIVE["cases"],
            "witness_points_checked": sum(max(0, (len(c.split(" W ", 1)[1].split()) if " W " in c else 0)) for c in cases)}


RULE = ("corpus of defect witnesses first; quick: seeded sample of the exhaustive end-point grid plus random rational/dyadic/"
        "infinite end points; thorough: the whole grid (exhaustive=true) plus 30000 random cases; distinct = distinct case "
        "line; non-trivial = some operand is a proper interval")
ASSUMPTIONS = ["interval end points are integers, rationals, dyadic rationals or +-infinity (algebraic end points are not modelled)",
               "inputs satisfy the constructors' assertions (a < b, or a point with closed ends)"]
TRUSTED = ["witness points are chosen by gen/C15.py (validated by the model's proved `contains`) and combined with GMP in harness/c15.c"]
