HARNESS = "c06"
LEVEL = "proof"
"""C06 case generator: real root counting and isolation.  Every random choice comes from the one `rng`.

case:  c06 <poly c0,..,cn> <k> { lo_num lo_den lo_open hi_num hi_den hi_open }*k [nosturm]
f = content * x^m * prod (linear factors with planted rational / dyadic / integer roots)^mult
            * prod (quadratics with irrational or no real roots) * (clustered pairs (x-a)(x-a-2^-k))
intervals: all four open/closed combinations; ends = roots, bisection points of the isolation, or neither."""
from fractions import Fraction
from math import gcd

TIMEOUT = 2400
RULE = ("seeded structured generator gen/C06.py (corpus first): products of planted linear factors (integer, dyadic, "
        "rational roots, 2^+-20 magnitudes, clusters 2^-k apart), quadratics with irrational / no real roots, "
        "multiplicities, root 0; per polynomial up to 8 rational intervals in all open/closed combinations whose ends "
        "are roots / dyadic bisection points / neither; distinct = distinct case line; non-trivial = degree >= 2 and at "
        "least one interval")
ASSUMPTIONS = ["polynomials over Z only (lp_Z); degree <= 10 and degree^2 * coefficient bits <= 4000 in the generated cases",
               "the final qsort of lp_upolynomial_roots_isolate (lp_algebraic_number_cmp) is validated through the checker, not modelled",
               "square-free factorisation inside libpoly is modelled over the reference gcd (C03/C05 own it)"]
TRUSTED = ["OCaml driver ocaml/p_c06.ml parses the C output into items and calls the extracted checkers"]


def pmul(p, q):
    r = [0] * (len(p) + len(q) - 1)
    for i, a in enumerate(p):
        for j, b in enumerate(q):
            r[i + j] += a * b
    return r


def lin(fr):
    """primitive linear polynomial with root fr: den*x - num"""
    return [-fr.numerator, fr.denominator]


def rand_root(rng):
    k = rng.random()
    if k < 0.30:
        return Fraction(rng.randint(-6, 6))
    if k < 0.50:
        return Fraction(rng.randint(-40, 40) | 1, 2 ** rng.randint(1, 6))
    if k < 0.65:
        d = rng.choice([3, 5, 6, 7, 9, 10, 12, 100])
        n = rng.randint(-50, 50)
        return Fraction(n, d)
    if k < 0.75:
        return Fraction(rng.choice([1, -1]) * (2 ** 20 + rng.randint(-3, 3)))
    if k < 0.85:
        return Fraction(rng.choice([1, -1]) * rng.choice([1, 3, 5]), 2 ** 20)
    if k < 0.93:
        return Fraction(rng.choice([-1, 1]) * rng.randint(1, 3), 1)
    return Fraction(0)


def rand_quadratic(rng):
    """(poly, approximate real roots as Fractions for aiming intervals)"""
    k = rng.random()
    if k < 0.35:
        c = rng.choice([2, 3, 5, 7, 10, 2 ** 21 + 1])   # x^2 - c, irrational roots
        return [-c, 0, 1]
    if k < 0.5:
        return rng.choice([[1, 0, 1], [1, 1, 1], [2, -2, 1], [5, 4, 1], [1, 0, 4]])   # no real roots
    if k < 0.75:
        b = rng.randint(-6, 6)
        c = rng.randint(-9, 9)
        return [c, b, rng.choice([1, 1, 2, 3])]
    if k < 0.9:
        return [-1, -1, 1]     # golden ratio
    # roots extremely close: x^2 - 2 shifted, (x - a)^2 - 2^-2k * 2
    return [-2, 0, 2 ** rng.choice([2, 10, 20])]


def isqrt_frac_roots(q):
    """rational approximations (to 2^-12) of the real roots of the quadratic q, for interval ends"""
    c, b, a = q
    disc = b * b - 4 * a * c
    if disc < 0:
        return []
    import math
    s = math.isqrt(disc * 4 ** 12)
    r1 = Fraction(-b * 2 ** 12 - s, 2 * a * 2 ** 12)
    r2 = Fraction(-b * 2 ** 12 + s, 2 * a * 2 ** 12)
    return [r1, r2]


def rand_poly(rng, maxdeg):
    """returns (coefficient list, list of interesting rationals)"""
    pts = []
    p = [1]
    kind = rng.random()
    target = rng.randint(1, maxdeg)
    # root at zero
    if rng.random() < 0.2:
        m = rng.choice([1, 1, 2, 3])
        p = pmul(p, [0] * m + [1])
        pts.append(Fraction(0))
    tries = 0
    while len(p) - 1 < target and tries < 20:
        tries += 1
        k = rng.random()
        if k < 0.5:
            r = rand_root(rng)
            mult = rng.choice([1, 1, 1, 2, 2, 3])
            for _ in range(mult):
                if len(p) - 1 < maxdeg:
                    p = pmul(p, lin(r))
            pts.append(r)
        elif k < 0.8:
            q = rand_quadratic(rng)
            mult = rng.choice([1, 1, 1, 2])
            for _ in range(mult):
                if len(p) - 1 + 2 <= maxdeg:
                    p = pmul(p, q)
            pts += isqrt_frac_roots(q)
        else:
            a = rand_root(rng)
            e = rng.choice([1, 2, 5, 10, 20, 30])
            b = a + Fraction(1, 2 ** e)
            if len(p) - 1 + 2 <= maxdeg:
                p = pmul(pmul(p, lin(a)), lin(b))
            pts += [a, b]
            if rng.random() < 0.3 and len(p) - 1 < maxdeg:
                c = a + Fraction(1, 2 ** (e + 1))      # a third root in the middle of the cluster
                p = pmul(p, lin(c))
                pts.append(c)
    if len(p) == 1:
        p = pmul(p, lin(rand_root(rng)))
    if kind < 0.15:
        # a random dense polynomial (no planted structure)
        d = rng.randint(1, min(maxdeg, 8))
        p = [rng.randint(-9, 9) for _ in range(d)] + [rng.choice([-3, -2, -1, 1, 2, 3])]
        pts = [Fraction(rng.randint(-20, 20), rng.choice([1, 2, 4])) for _ in range(3)]
    content = rng.choice([1, 1, 1, -1, 2, -3, 6])
    p = [content * c for c in p]
    return p, pts


def rand_end(rng, pts):
    k = rng.random()
    if pts and k < 0.45:
        return rng.choice(pts)
    if pts and k < 0.65:
        # near a root, or a dyadic bisection point
        r = rng.choice(pts)
        return r + Fraction(rng.choice([-1, 1]), 2 ** rng.choice([0, 1, 2, 5, 12, 25]))
    if k < 0.8:
        return Fraction(rng.choice([-1, 1]) * 2 ** rng.randint(0, 22))      # ends of the growing interval
    if k < 0.9:
        return Fraction(rng.randint(-8, 8), 2 ** rng.randint(0, 3))
    return Fraction(rng.randint(-100, 100), rng.randint(1, 12))


def fmt_itv(lo, lo_open, hi, hi_open):
    return "%d %d %d %d %d %d" % (lo.numerator, lo.denominator, lo_open, hi.numerator, hi.denominator, hi_open)


def cost(p):
    """rough cost of the model side: degree^2 * bits of the largest coefficient"""
    d = len(p) - 1
    return d * d * max(abs(c) for c in p).bit_length()


def make_case(rng, maxdeg, nitv, budget=2500):
    p, pts = rand_poly(rng, maxdeg)
    tries = 0
    while cost(p) > budget and tries < 30:
        tries += 1
        p, pts = rand_poly(rng, maxdeg if tries < 15 else min(maxdeg, 5))
    if cost(p) > budget:
        p, pts = [-2, 0, 1], [Fraction(0), Fraction(2)]
    itvs = []
    while len(itvs) < nitv:
        a, b = rand_end(rng, pts), rand_end(rng, pts)
        if a == b:
            if rng.random() < 0.6:
                itvs.append(fmt_itv(a, 0, a, 0))       # the point interval [a,a]
            continue
        if a > b:
            a, b = b, a
        if rng.random() < 0.55:
            # all four open/closed combinations of the same ends
            for ao in (0, 1):
                for bo in (0, 1):
                    if len(itvs) < nitv:
                        itvs.append(fmt_itv(a, ao, b, bo))
        else:
            itvs.append(fmt_itv(a, rng.randint(0, 1), b, rng.randint(0, 1)))
    return "c06 %s %d %s" % (",".join(str(c) for c in p), len(itvs), " ".join(itvs))


def nested_case(rng):
    """Roots of DIFFERENT square-free factors (different multiplicities) inside one dyadic cell: the per-factor bisections
    return nested / overlapping isolating intervals (often with a common end point) in factor order, so the final sort by
    lp_algebraic_number_cmp has to refine across factors; every assignment of multiplicities to the ordered roots occurs
    (seeded change C06-4 needs the factor with the larger root first)."""
    e = rng.choice([0, 1, 1, 2, 2, 3])
    j = rng.randint(-3 * 2 ** e, 3 * 2 ** e)
    lo, w = Fraction(j, 2 ** e), Fraction(1, 2 ** e)
    roots = set()
    if rng.random() < 0.45:
        # a DYADIC root finer than the cell: the bisection of its factor ends in a point that lies strictly inside the
        # isolating interval of a neighbouring root of another factor (seeded change C06-15)
        t = rng.choice([2, 3, 3, 4, 5])
        roots.add(lo + w * Fraction(2 * rng.randint(0, 2 ** (t - 1) - 1) + 1, 2 ** t))
    nroots = rng.choice([2, 2, 3, 4])
    while len(roots) < nroots:
        d = rng.choice([3, 5, 7, 9, 11, 13, 6, 10, 12])
        r = lo + w * Fraction(rng.randint(1, d - 1), d)
        if lo < r < lo + w and r.denominator & (r.denominator - 1):      # not dyadic: bisection never hits it
            roots.add(r)
    roots = sorted(roots)
    mults = rng.sample([1, 2, 3, 4], len(roots)) if rng.random() < 0.8 else [rng.choice([1, 2]) for _ in roots]
    while sum(mults) > 7:
        mults[mults.index(max(mults))] -= 1
    p = [1]
    for r, m in zip(roots, mults):
        for _ in range(m):
            p = pmul(p, lin(r))
    if rng.random() < 0.3:
        p = pmul(p, rng.choice([[0, 1], [-2, 0, 1], [1, 0, 1], lin(Fraction(rng.randint(-9, 9), 1))]))
    c = rng.choice([1, 1, -1, 2])
    p = [c * v for v in p]
    pts = list(roots) + [lo, lo + w]
    itvs = []
    while len(itvs) < 4:
        a, b = rand_end(rng, pts), rand_end(rng, pts)
        if a == b:
            continue
        if a > b:
            a, b = b, a
        itvs.append(fmt_itv(a, rng.randint(0, 1), b, rng.randint(0, 1)))
    return "c06 %s %d %s" % (",".join(str(v) for v in p), len(itvs), " ".join(itvs))


def generate(rng, tier, corpus_only=False):
    n = 1400 if tier == "quick" else 5000
    budget = 2500 if tier == "quick" else 4000
    cases = []
    for i in range(n):
        k = rng.random()
        maxdeg = 4 if k < 0.3 else (7 if k < 0.8 else 10)
        cases.append(make_case(rng, maxdeg, rng.choice([4, 6, 8]), budget))
    # structured block, generated after the weighted cases so that their random stream never shifts
    for i in range(250 if tier == "quick" else 2500):
        cases.append(nested_case(rng))
    return cases


def degree(case):
    return case.split()[1].count(",")


def tag(case):
    """branch tag: degree class + whether the polynomial has a root at 0 / a non-trivial content"""
    t = case.split()
    cs = [int(c) for c in t[1].split(",")]
    d = len(cs) - 1
    g = 0
    for c in cs:
        g = gcd(g, abs(c))
    return "deg%s%s%s" % ("1" if d <= 1 else "2-4" if d <= 4 else "5-8" if d <= 8 else "9+",
                          ":x" if cs[0] == 0 else "", ":content" if g > 1 or cs[-1] < 0 else "")


def nontrivial(case):
    t = case.split()
    return degree(case) >= 2 and int(t[2]) >= 1


def explain(case, c_out, m_out):
    return ("model side = proved checkers (check_isolation, check_sturm, certified_count, count_in_itv) and the faithful "
            "model of root_finding.c applied to the implementation's output: " + str(m_out))


def extra_coverage(cases, couts, mouts):
    iso = alg = pts = 0
    counts = 0
    closed_root_lo = 0
    for c, o in zip(cases, couts):
        if not o:
            continue
        t = o.split()
        if "I" in t:
            i = t.index("I")
            iso += int(t[i + 1])
            alg += t[i:].count("A")
            pts += t[i:].count("P")
        counts += int(c.split()[2])
    return {"isolated_roots_checked": iso, "interval_items": alg, "point_items": pts, "interval_counts_checked": counts}
