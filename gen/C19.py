"""C19: output-operand independence, reference-counting histories, and the sanitizer sweep over every harness."""
import os, random, importlib, glob

HARNESS = "c19"
STALE_RERUN = True   # operands also re-run as stale external polynomials (see check)
LEVEL = "other"
LEAKS_ARE_VIOLATIONS = True
RULE = ("sdst: every binary operation of the scalar layer (dyadic, rational, integer in Z and Z_M) x operands of different / equal "
        "exponents, denominators, signs x output fresh / used / == first input / == second input / == both; "
        "pdst/vdst/idst: operation x operands x prior content of the output (constant, polynomial in other variables, "
        "other value kinds, point/proper interval) x aliasing pattern; rc: random histories of new/attach/detach/delete inside the "
        "contract, fully released at the end, followed by a LeakSanitizer check; plus a sanitizer sweep that runs the C drivers "
        "of all other properties on their generated cases")
EXPLANATION = ("Proved: reference-counting state machine (all histories) and output-operand independence of the scalar layer. "
               "NOT proved (observed under ASan+UBSan+LSan): absence of out-of-bounds accesses, use-after-free, UB and leaks.")

POLYS = ["0", "1", "-3", "1*x0^1", "1*x0^1+1", "2*x0^2+-1*x0^1+3", "1*x1^1+1*x0^1", "1*x0^1*x1^1+-2", "1*x1^2+-1*x0^2",
         "3*x2^1+1*x0^1*x1^1+5", "1*x2^2+2*x2^1*x1^1+1*x1^2", "-1*x0^3+7", "123456789012345678901234567890*x0^1+1",
         "1*x1^1+-1", "2*x1^1+-2", "1*x0^2+-2*x0^1+1", "1*x0^1+-1", "1*x3^1"]
VALS = ["z:0", "z:1", "z:-7", "z:123456789012345678901", "d:1/1", "d:-5/3", "q:1/3", "q:-22/7", "r:-2,0,1:1", "r:-2,0,1:0",
        "r:-3,0,1:1", "r:1,-3,0,1:1", "a:-1,2:0/0:1/0", "r:-2,0,0,1:0"]
IVALS = ["z:-2", "d:-3/1", "z:-1", "z:0", "q:1/2", "z:1", "z:3"]   # increasing


def rc_history(rng):
    ops = []
    kinds = []          # kind per object
    holds = []          # user holds per object
    ctx_children = {}
    polys = []          # (ctx index or None)
    n_steps = rng.randint(4, 40)
    def leaves(kind):
        return [i for i, k in enumerate(kinds) if k == kind and alive(i)]
    cnt = []
    def alive(i):
        return cnt[i] > 0
    def attach(i):
        for k in ctx_children.get(i, []):
            cnt[k] += 1
        cnt[i] += 1
    def detach(i):
        for k in ctx_children.get(i, []):
            cnt[k] -= 1
        cnt[i] -= 1
    for _ in range(n_steps):
        c = rng.random()
        if c < 0.12 or not kinds:
            m = rng.choice([2, 3, 7, 12, 2**64 + 13])
            ops += ["nr", str(m)]; kinds.append(0); holds.append(1); cnt.append(1)
        elif c < 0.22:
            ops += ["nd"]; kinds.append(1); holds.append(1); cnt.append(1)
        elif c < 0.32:
            ops += ["no"]; kinds.append(2); holds.append(1); cnt.append(1)
        elif c < 0.47 and leaves(1) and leaves(2):
            k = rng.choice(leaves(0) + [-1])
            d = rng.choice(leaves(1)); o = rng.choice(leaves(2))
            i = len(kinds)
            ops += ["nc", str(k), str(d), str(o)]
            kinds.append(3); holds.append(1); cnt.append(0)
            ctx_children[i] = ([k] if k >= 0 else []) + [d, o]
            attach(i)
        elif c < 0.58:
            live = [i for i in range(len(kinds)) if alive(i)]
            if live:
                i = rng.choice(live); ops += ["a", str(i)]; holds[i] += 1; attach(i)
        elif c < 0.66:
            lp = [j for j, cidx in enumerate(polys) if cidx is not None]
            if lp:
                ops += ["up", str(rng.choice(lp))]
        elif c < 0.80:
            held = [i for i in range(len(kinds)) if holds[i] > 0]
            if held:
                i = rng.choice(held); ops += ["d", str(i)]; holds[i] -= 1; detach(i)
        elif c < 0.92:
            ctxs = [i for i in range(len(kinds)) if kinds[i] == 3 and alive(i)]
            if ctxs:
                i = rng.choice(ctxs); ops += ["np", str(i)]; polys.append(i); attach(i)
                if holds[i] > 0 and rng.random() < 0.5:
                    # the creator lets go: the polynomial may now be the last holder of its context
                    n_rel = holds[i] if rng.random() < 0.7 else 1
                    for _ in range(n_rel):
                        ops += ["d", str(i)]; holds[i] -= 1; detach(i)
                    if rng.random() < 0.8:
                        ops += ["up", str(len(polys) - 1)]
        else:
            lp = [j for j, cidx in enumerate(polys) if cidx is not None]
            if lp:
                j = rng.choice(lp); ops += ["dp", str(j)]; detach(polys[j]); polys[j] = None
    # release everything: polynomials first, then user holds in random order
    for j, cidx in enumerate(polys):
        if cidx is not None:
            ops += ["dp", str(j)]; detach(cidx); polys[j] = None
    order = [i for i in range(len(kinds)) for _ in range(holds[i])]
    rng.shuffle(order)
    for i in order:
        ops += ["d", str(i)]; detach(i)
    return "rc " + " ".join(ops)


def _mag(rng):
    """positive integer: small, around a limb boundary, or many limbs"""
    k = rng.random()
    if k < 0.45:
        return rng.randint(1, 40)
    if k < 0.75:
        return 2 ** rng.choice([31, 32, 63, 64, 65, 127, 128]) + rng.randint(-3, 3)
    return rng.randint(10**20, 10**45)


def scalar_alias_cases(rng, tier):
    """Structured class: every binary operation of the scalar layer (dyadic, rational, integer; value level through vdst)
    x operands of different / equal exponents, denominators, signs, sizes.  The harness runs each case with the output being
    a fresh object, a previously used object, the first input, the SECOND input, and both inputs at once."""
    from math import gcd
    cases = []
    rep = 1 if tier == "quick" else 12
    sgns = [(1, 1), (1, -1), (-1, 1), (-1, -1)]
    # --- dyadic rationals a/2^n: (exponent of a, exponent of b); None = a fresh random exponent
    EXP = [(0, 1), (1, 0), (1, 4), (4, 1), (0, 64), (65, 1), (2, 70), (3, 3), (0, 0), (1, 2), (None, None), (63, 64), (7, 5)]
    def dyv(sg, e):
        a = sg * _mag(rng)
        if e > 0:
            a |= 1            # normalised: odd numerator over a positive exponent
        return a
    i = 0
    for op in ("add", "sub", "mul"):
        for _ in range(52 * rep):
            ea, eb = EXP[i % len(EXP)]
            sa, sb = sgns[(i // len(EXP)) % 4]
            i += 1
            if ea is None:
                ea, eb = rng.randint(0, 130), rng.randint(0, 130)
            a, b = dyv(sa, ea), dyv(sb, eb)
            k = rng.random()
            if k < 0.08:
                a, ea = 0, 0
            elif k < 0.16:
                b, eb = 0, 0
            elif k < 0.6 and ea == eb and ea > 0 and op != "mul":
                # equal exponents: cancellation that leaves many trailing zero bits (the result is re-normalised)
                c = (rng.randint(-9, 9) * 2 + 1) * 2 ** rng.choice([1, 2, max(1, ea - 1), ea, ea + 3, 64])
                b = c - a if op == "add" else a - c
            ue = rng.choice([0, 1, 5, 64, 100])
            u = dyv(rng.choice([1, -1]), ue)
            cases.append("sdst d %s %d %d %d %d %d %d" % (op, a, ea, b, eb, u, ue))
    # --- rationals (canonical): denominators equal / one divides the other / coprime / 1 / powers of two
    def canon(n, d):
        g = gcd(n, d)
        return (n // g, d // g)
    DEN = ["same", "int_a", "int_b", "divides", "coprime", "pow2", "big", "neg_same"]
    i = 0
    for op in ("add", "sub", "mul", "div"):
        for _ in range(32 * rep):
            kind = DEN[i % len(DEN)]
            sa, sb = sgns[(i // len(DEN)) % 4]
            i += 1
            d1 = rng.choice([2, 3, 6, 7, 12, 2**rng.randint(1, 70), _mag(rng)])
            if kind == "same" or kind == "neg_same":
                d2 = d1
            elif kind == "int_a":
                d1, d2 = 1, rng.choice([2, 3, 8, 2**64 + 13])
            elif kind == "int_b":
                d2 = 1
            elif kind == "divides":
                d2 = d1 * rng.choice([2, 3, 5, 2**40])
            elif kind == "pow2":
                d1, d2 = 2**rng.randint(1, 5), 2**rng.randint(6, 70)
                if rng.random() < 0.5:
                    d1, d2 = d2, d1
            elif kind == "big":
                d1, d2 = _mag(rng) * 2 + 1, _mag(rng) * 2 + 1
            else:
                d2 = rng.choice([5, 11, 13, 2**61 - 1])
            x = canon(sa * _mag(rng), d1)
            y = canon(sb * _mag(rng), d2)
            if kind == "neg_same":
                y = (-x[0], x[1]) if rng.random() < 0.5 else x
            if rng.random() < 0.07:
                x = (0, 1)
            if rng.random() < 0.07 and op != "div":
                y = (0, 1)
            u = canon(rng.choice([1, -1]) * _mag(rng), rng.choice([1, 3, 13, 2**65]))
            cases.append("sdst q %s %d %d %d %d %d %d" % (op, x[0], x[1], y[0], y[1], u[0], u[1]))
    # --- integers in Z and in Z_M (operands in the symmetric range, biased to its ends)
    RINGS = [0, 0, 0, 2, 3, 7, 12, 101, 2**32, 2**64 + 13, 2**89 - 1]
    def rep_in(m):
        if m == 0:
            return rng.choice([1, -1]) * _mag(rng) if rng.random() < 0.9 else 0
        lb, ub = -((m - 1) // 2), m // 2
        if rng.random() < 0.4:
            return rng.choice([lb, ub, min(lb + 1, ub), max(ub - 1, lb), 0, 1, -1 if lb <= -1 else 0])
        return rng.randint(lb, ub)
    i = 0
    for op in ("add", "sub", "mul", "addmul", "submul", "divexact", "divZ", "remZ", "gcd", "lcm"):
        for _ in range(22 * rep):
            m = 0 if op in ("divZ", "remZ", "gcd", "lcm") else RINGS[i % len(RINGS)]
            i += 1
            a, b, u = rep_in(m), rep_in(m), rep_in(m)
            if op == "divexact":
                if m == 0:
                    b = b or 3
                    a = b * rep_in(0)
                else:
                    # units only: the quotient is then unique (also for a / a)
                    units = [x for x in (rep_in(m) for _ in range(40)) if gcd(x, m) == 1]
                    if len(units) < 2:
                        continue
                    b, q = units[0], units[1]
                    a = (q * b) % m
                    if a > m // 2:
                        a -= m
            elif op in ("divZ", "remZ"):
                b = b or -5
                if rng.random() < 0.3:
                    a = b * rng.randint(-9, 9)
            elif op in ("gcd", "lcm") and rng.random() < 0.5:
                g = _mag(rng)
                a, b = g * rng.randint(-30, 30), g * rng.randint(-30, 30)
            cases.append("sdst z %s %d %d %d %d" % (op, m, a, b, u))
    # --- value level: every ordered pair of scalar values of different kinds / exponents / signs
    SV = ["z:0", "z:-7", "z:3", "d:1/1", "d:-5/3", "d:7/2", "d:-1/70", "q:1/3", "q:-22/7", "q:5/6",
          "z:-123456789012345678901", "d:36893488147419103233/65"]
    pairs = [(a, b) for a in SV for b in SV]
    for op in ("add", "sub", "mul", "div"):
        for a, b in (pairs if tier != "quick" else rng.sample(pairs, 40)):
            if op == "div" and b == "z:0":
                continue
            cases.append("vdst %s %s %s %s" % (op, a, b, rng.choice(VALS + ["-inf", "+inf"])))
    return cases


def generate(rng, tier):
    n = 1500 if tier == "quick" else 20000
    cases = []
    pbin = ["add", "sub", "mul", "gcd", "lcm", "rem", "prem", "sprem", "resultant", "addmul", "submul", "div"]
    pun = ["neg", "derivative", "cont", "pp", "reductum", "assign"]
    # the value argument is a sub-object of the output interval (its own end)
    for _ in range(40 if tier == "quick" else 600):
        lo, hi = sorted(rng.sample(range(len(IVALS)), 2))
        cases.append("isub %s %d %s %d" % (IVALS[lo], rng.randint(0, 1), IVALS[hi], rng.randint(0, 1)))
    # variable lists / orders over a large variable database: ids far above the number of pushed variables
    for _ in range(12 if tier == "quick" else 200):
        nv = rng.choice([8, 40, 130, 260, 300, 700])
        k = rng.randint(1, 6)
        ids = [rng.choice([nv - 1, nv - 2, nv // 2, 0, 1, rng.randrange(nv)]) for _ in range(k)]
        cases.append("vlist %d %s" % (nv, " ".join(map(str, ids))))
    for _ in range(n):
        c = rng.random()
        if c < 0.45:
            prior = rng.choice(POLYS)
            if rng.random() < 0.6:
                op = rng.choice(pbin)
                a, b = rng.choice(POLYS), rng.choice(POLYS)
                if op in ("rem", "prem", "sprem", "div", "gcd", "lcm", "resultant"):
                    # documented domain: non-zero operands sharing the main variable x0 (div: exact multiples)
                    uni = [p for p in POLYS if "x0" in p and "x1" not in p and "x2" not in p and "x3" not in p]
                    a, b = rng.choice(uni), rng.choice(uni)
                    if op in ("div", "rem"):
                        continue      # exact division / remainder over Z need a divisible leading coefficient (C02's domain)
                cases.append("pdst %s %s %s %s" % (op, a, b, prior))
            else:
                op = rng.choice(pun + ["shl", "pow", "mulint", "coeff"])
                a = rng.choice(POLYS)
                if op == "shl":
                    if a in ("0", "1", "-3"):
                        continue
                    arg = str(rng.randint(0, 3))
                elif op == "pow":
                    arg = str(rng.randint(0, 3))
                elif op == "coeff":
                    if a in ("0", "1", "-3"):
                        continue
                    arg = str(rng.randint(0, 2))
                elif op == "mulint":
                    arg = str(rng.choice([0, 1, -1, 7, -2**70]))
                else:
                    arg = "_"
                if op in ("cont", "pp") and a == "0":
                    continue
                if op == "reductum" and a in ("0", "1", "-3"):
                    continue      # reductum is defined on non-constant polynomials (asserted)
                cases.append("pdst %s %s %s %s" % (op, a, arg, prior))
        elif c < 0.52:
            # two output operands; operands univariate in x0 (B monic so that exact divrem is defined), or constants
            uni = ["1*x0^1", "1*x0^1+1", "1*x0^2+-2*x0^1+1", "1*x0^1+-1", "1*x0^3+7"]
            op = rng.choice(["divrem", "pdivrem", "spdivrem", "ppcont"])
            if rng.random() < 0.35:
                a, b = str(rng.choice([6, -7, 12, 1])), str(rng.choice([2, 3, -1, 5]))
            else:
                a, b = rng.choice(uni + ["2*x0^2+-1*x0^1+3", "-1*x0^3+7"]), rng.choice(uni)
            cases.append("pdst2 %s %s %s %s %s" % (op, a, b, rng.choice(POLYS), rng.choice(POLYS)))
        elif c < 0.70:
            op = rng.choice(["add", "sub", "mul", "div", "neg", "inv", "assign", "pow"])
            a, b, prior = rng.choice(VALS), rng.choice(VALS), rng.choice(VALS + ["-inf", "+inf"])
            if op == "pow":
                b = str(rng.randint(0, 3))
            if op == "div" and b == "z:0":
                continue
            if op == "inv" and a == "z:0":
                continue
            cases.append("vdst %s %s %s %s" % (op, a, b, prior))
        elif c < 0.82:
            op = rng.choice(["add", "mul", "pow", "assign"])
            def iv():
                lo, hi = sorted(rng.sample(range(len(IVALS)), 2))
                if rng.random() < 0.2:
                    hi = lo
                return "%s %d %s %d" % (IVALS[lo], rng.randint(0, 1), IVALS[hi], rng.randint(0, 1))
            cases.append("idst %s %s %s %s %d" % (op, iv(), iv(), rng.choice(["point", "full", "proper"]), rng.randint(0, 4)))
        else:
            cases.append(rc_history(rng))
    # structured scalar-layer aliasing class LAST: the random stream of the classes above does not shift
    cases += scalar_alias_cases(rng, tier)
    return cases


def tag(case):
    t = case.split()
    if t[0] == "sdst":
        return "sdst:%s:%s" % (t[1], t[2])
    return t[0] + (":" + t[1] if t[0] not in ("rc", "vlist", "isub") else "")


def nontrivial(case):
    t = case.split()
    if t[0] == "rc":
        return "nc" in t
    return not all(x in ("0", "1", "z:0", "z:1") for x in t[2:4])


def post_run(vlib, clib, seed, tier, log):
    """Sanitizer sweep: run the C drivers of all other properties on (a prefix of) their own generated cases and
    collect ASan/UBSan crashes and LeakSanitizer reports.  Returns (violations, coverage)."""
    here = os.path.dirname(os.path.abspath(__file__))
    viol, cov = [], {}
    limit = 600 if tier == "quick" else 8000
    for f in sorted(glob.glob(os.path.join(here, "C*.py"))):
        pid = os.path.basename(f)[:-3]
        if pid == "C19":
            continue
        # A driver that cannot be built or run must not silently drop out of the sweep (its scratch library may have been
        # evicted from the build cache by parallel checks): rebuild the library and try once more, then REPORT it.
        err = None
        for attempt in (0, 1):
            try:
                if attempt:
                    clib = vlib.build_clib()
                vlib.build_cdriver(getattr(importlib.import_module(pid), "HARNESS", pid.lower()), clib)
                err = None
                break
            except Exception as e:
                err = e
        if err is not None:
            cov[pid] = "not run: %r" % (err,)
            log("sanitizer sweep: the %s driver could not be built: %r" % (pid, err))
            viol.append({"property": "C19", "kind": "sweep-not-run", "tag": "sweep-not-run:" + pid, "harness_of": pid,
                         "case": "(the %s driver could not be built for the sanitizer sweep)" % pid, "stderr_tail": repr(err)[-2500:]})
            continue
        try:
            G = importlib.import_module(pid)
            rng = random.Random(seed * 7919 + int(pid[1:]))
            cases = G.generate(rng, "quick")
            if len(cases) > limit:
                cases = rng.sample(cases, limit)      # a sample across all operation kinds, not a prefix
            corpus = os.path.join(os.path.dirname(here), "corpus", pid + ".txt")
            if os.path.exists(corpus):
                cases = [l.rstrip("\n") for l in open(corpus) if l.strip() and not l.startswith("#")] + cases
            exe = vlib.build_cdriver(getattr(G, "HARNESS", pid.lower()), clib)
            outs, crashes, leaks = vlib.run_driver(exe, getattr(G, "C_ARGS", []), cases, timeout=900)
            # the other drivers run every operation with fresh / pre-used / aliased outputs: compare with their models too
            mexe = vlib.build_mdriver(pid)
            minputs = [c + (" => " + o if o is not None else "") for c, o in zip(cases, outs)]
            mouts, _, _ = vlib.run_driver(mexe, [pid], minputs, timeout=900)
            bad, _, _ = vlib.compare_outputs(G, cases, outs, mouts, crashes)
        except Exception as e:  # a harness that does not run is that property's problem, but say so - loudly
            cov[pid] = "not run: %r" % (e,)
            log("sanitizer sweep: the %s driver was not run: %r" % (pid, e))
            viol.append({"property": "C19", "kind": "sweep-not-run", "tag": "sweep-not-run:" + pid, "harness_of": pid,
                         "case": "(the %s driver was not run in the sanitizer sweep)" % pid, "stderr_tail": repr(e)[-2500:]})
            continue
        cov[pid] = {"cases": len(cases), "crashes": len(crashes), "leak_reports": len(leaks), "disagreements": len(bad)}
        fid_of = getattr(G, "finding_id", None)
        for (i, kind, detail) in bad:
            if kind == "crash" and not ("Sanitizer" in (detail or "") or "runtime error" in (detail or "") or "Assertion" in (detail or "") or True):
                continue
            viol.append({"property": "C19", "kind": kind, "tag": "sweep:%s:%s" % (pid, G.tag(cases[i])), "harness_of": pid,
                         "case": cases[i], "c_out": outs[i], "model_out": mouts[i], "stderr_tail": (detail or "")[-2500:],
                         "finding_id": fid_of(cases[i], outs[i], mouts[i]) if fid_of else None,
                         "note": "found while sweeping the %s driver (fresh / pre-used / aliased output operands, sanitizers on)" % pid})
        for l in leaks:
            viol.append({"property": "C19", "kind": "leak", "tag": "leak:" + pid, "harness_of": pid,
                         "case": "(leak reported at exit of the %s driver over %d cases)" % (pid, len(cases)),
                         "cases": cases, "stderr_tail": l[-2500:]})
    return viol, {"sanitizer_sweep": cov}
