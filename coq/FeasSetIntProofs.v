(* Proofs about the finite-field feasibility-set model (FeasSetInt.v), part 1: the set algebra.
   Property statements live in Properties_C14.v. *)
From Coq Require Import ZArith List Bool Lia Znumtheory Permutation.
From LP Require Import Scalar ScalarProofs FeasSetInt.
Import ListNotations.
Local Open Scope Z_scope.

Ltac Zify.zify_post_hook ::= Z.div_mod_to_equations.
Set Warnings "-variable-collision".

(* ------------------------------------------------------------------ strictly sorted lists *)

Fixpoint ssorted (l : list Z) : Prop :=
  match l with [] => True | x :: t => Forall (Z.lt x) t /\ ssorted t end.
Fixpoint wsorted (l : list Z) : Prop :=
  match l with [] => True | x :: t => Forall (Z.le x) t /\ wsorted t end.

Lemma ssorted_nodup l : ssorted l -> NoDup l.
Proof.
  induction l as [|x t IH]; intros H; [constructor|].
  destruct H as [H1 H2]. constructor; [|auto].
  intros Hin. rewrite Forall_forall in H1. specialize (H1 x Hin). lia.
Qed.

Lemma ssorted_ext a : forall b, ssorted a -> ssorted b -> (forall x, In x a <-> In x b) -> a = b.
Proof.
  induction a as [|x ta IH]; intros [|y tb] Ha Hb E.
  - reflexivity.
  - exfalso. apply (proj2 (E y)). left; reflexivity.
  - exfalso. apply (proj1 (E x)). left; reflexivity.
  - destruct Ha as [Ha1 Ha2], Hb as [Hb1 Hb2].
    rewrite Forall_forall in Ha1, Hb1.
    assert (x = y).
    { destruct (proj1 (E x) (or_introl eq_refl)) as [->|Hx]; [reflexivity|].
      destruct (proj2 (E y) (or_introl eq_refl)) as [->|Hy]; [reflexivity|].
      specialize (Ha1 y Hy). specialize (Hb1 x Hx). lia. }
    subst y. f_equal. apply IH; try assumption.
    intros z. split; intros Hz.
    + destruct (proj1 (E z) (or_intror Hz)) as [->|]; [|assumption].
      specialize (Ha1 _ Hz). lia.
    + destruct (proj2 (E z) (or_intror Hz)) as [->|]; [|assumption].
      specialize (Hb1 _ Hz). lia.
Qed.

Lemma ssorted_app a b : ssorted a -> ssorted b -> (forall x y, In x a -> In y b -> x < y) -> ssorted (a ++ b).
Proof.
  induction a as [|x t IH]; intros Ha Hb H; [exact Hb|].
  destruct Ha as [Ha1 Ha2]. cbn. split.
  - apply Forall_app. split; [assumption|]. apply Forall_forall. intros y Hy. apply H; [left; reflexivity|assumption].
  - apply IH; try assumption. intros; apply H; [right|]; assumption.
Qed.

(* ------------------------------------------------------------------ qsort + unique *)

Lemma sort_insert_In x l y : In y (sort_insert x l) <-> y = x \/ In y l.
Proof.
  induction l as [|z t IH]; cbn.
  - intuition.
  - destruct (x <=? z); cbn; [intuition|]. rewrite IH. intuition.
Qed.

Lemma sort_insert_sorted x l : wsorted l -> wsorted (sort_insert x l).
Proof.
  induction l as [|z t IH]; intros H; cbn.
  - split; [constructor|exact I].
  - destruct H as [H1 H2]. destruct (x <=? z) eqn:E.
    + apply Z.leb_le in E. cbn. split; [|split; assumption].
      constructor; [assumption|]. rewrite Forall_forall in *. intros y Hy. specialize (H1 y Hy). lia.
    + apply Z.leb_gt in E. cbn. split; [|auto].
      apply Forall_forall. intros y Hy. apply sort_insert_In in Hy. destruct Hy as [->|Hy]; [lia|].
      rewrite Forall_forall in H1. auto.
Qed.

Lemma sort_Z_In l y : In y (sort_Z l) <-> In y l.
Proof.
  induction l as [|x t IH]; cbn; [tauto|]. rewrite sort_insert_In, IH. intuition.
Qed.
Lemma sort_Z_sorted l : wsorted (sort_Z l).
Proof. induction l as [|x t IH]; cbn; [exact I|]. apply sort_insert_sorted. exact IH. Qed.

Lemma uniq_loop_spec l : forall last, wsorted l -> Forall (Z.le last) l ->
  Forall (Z.lt last) (uniq_loop last l) /\ ssorted (uniq_loop last l) /\
  (forall y, In y (uniq_loop last l) <-> In y l /\ y <> last).
Proof.
  induction l as [|x t IH]; intros last Hs Hl; cbn.
  - split; [constructor|]. split; [exact I|]. intros y; tauto.
  - destruct Hs as [Hs1 Hs2]. inversion Hl as [|? ? Hlx Hlt]; subst.
    destruct (last =? x) eqn:E.
    + apply Z.eqb_eq in E. subst x. destruct (IH last Hs2 Hlt) as (A & B & C).
      split; [assumption|]. split; [assumption|].
      intros y. rewrite C. cbn [In]. split.
      * intros [Hy Hne]. split; [right|]; assumption.
      * intros [[Hy|Hy] Hne]; [exfalso; apply Hne; symmetry; exact Hy|split; assumption].
    + apply Z.eqb_neq in E. destruct (IH x Hs2 Hs1) as (A & B & C).
      split.
      { constructor; [lia|]. rewrite Forall_forall in *. intros y Hy. specialize (A y Hy). lia. }
      split; [split; assumption|].
      intros y. cbn. rewrite C. split.
      * intros [->|[Hy Hne]]; [split; [left; reflexivity|lia]|].
        split; [right; assumption|]. rewrite Forall_forall in Hs1. specialize (Hs1 y Hy). lia.
      * intros [[->|Hy] Hne]; [left; reflexivity|].
        destruct (Z.eq_dec y x) as [->|Hn]; [left; reflexivity|right; split; assumption].
Qed.

Lemma unique_sorted_spec l : wsorted l ->
  ssorted (unique_sorted l) /\ (forall y, In y (unique_sorted l) <-> In y l).
Proof.
  destruct l as [|x t]; intros H; cbn; [split; [exact I|tauto]|].
  destruct H as [H1 H2]. destruct (uniq_loop_spec t x H2 H1) as (A & B & C).
  split; [split; assumption|].
  intros y. rewrite C. split.
  - intros [->|[Hy _]]; [left; reflexivity|right; assumption].
  - intros [->|Hy]; [left; reflexivity|].
    destruct (Z.eq_dec y x) as [->|Hn]; [left; reflexivity|right; split; assumption].
Qed.

(* ------------------------------------------------------------------ ordered-list helpers *)

Lemma oset_union_spec l1 : forall l2, ssorted l1 -> ssorted l2 ->
  let '(r, (j1, j2)) := oset_union l1 l2 in
  ssorted r /\ (forall x, In x r <-> In x l1 \/ In x l2) /\
  (j1 = true <-> incl l2 l1) /\ (j2 = true <-> incl l1 l2).
Proof.
  induction l1 as [|x t1 IH1]; intros l2 H1 H2.
  - destruct l2 as [|y t2]; cbn.
    + split; [exact I|]. split; [intros; tauto|].
      split; (split; [intros _; apply incl_nil_l|reflexivity]).
    + split; [exact H2|]. split; [intros; tauto|]. split.
      * split; [discriminate|]. intros Hi. destruct (Hi y (or_introl eq_refl)).
      * split; [intros _ ? []|reflexivity].
  - induction l2 as [|y t2 IH2].
    + cbn. split; [exact H1|]. split; [intros; tauto|]. split.
      * split; [intros _ ? []|reflexivity].
      * split; [discriminate|]. intros Hi. destruct (Hi x (or_introl eq_refl)).
    + destruct H1 as [H1a H1b]. destruct H2 as [H2a H2b].
      assert (Hx := H1a). assert (Hy := H2a). rewrite Forall_forall in Hx, Hy.
      cbn [oset_union]. destruct (x <? y) eqn:E1.
      * apply Z.ltb_lt in E1.
        specialize (IH1 (y :: t2) H1b (conj H2a H2b)).
        destruct (oset_union t1 (y :: t2)) as [r [j1 j2]]. destruct IH1 as (A & B & C & D).
        split.
        { split; [|assumption]. apply Forall_forall. intros z Hz. apply B in Hz.
          destruct Hz as [Hz|[->|Hz]]; [auto|lia|]. specialize (Hy z Hz). lia. }
        split. { intros z. cbn [In]. rewrite B. cbn [In]. tauto. }
        split.
        { rewrite C. split; intros Hi z Hz.
          - right. apply Hi. assumption.
          - destruct (Hi z Hz) as [->|]; [|assumption].
            exfalso. destruct Hz as [->|Hz]; [lia|]. specialize (Hy _ Hz). lia. }
        { split; [discriminate|]. intros Hi. destruct (Hi x (or_introl eq_refl)) as [->|Hz]; [lia|].
          specialize (Hy _ Hz). lia. }
      * destruct (y <? x) eqn:E2.
        -- apply Z.ltb_lt in E2. clear IH1.
           specialize (IH2 H2b).
           change ((fix aux (l2 : list Z) : list Z * (bool * bool) :=
                      match l2 with
                      | [] => (x :: t1, (true, false))
                      | y0 :: t3 =>
                        if x <? y0 then let '(r, (j1, _)) := oset_union t1 l2 in (x :: r, (j1, false))
                        else if y0 <? x then let '(r, (_, j2)) := aux t3 in (y0 :: r, (false, j2))
                        else let '(r, (j1, j2)) := oset_union t1 t3 in (x :: r, (j1, j2))
                      end) t2) with (oset_union (x :: t1) t2).
           destruct (oset_union (x :: t1) t2) as [r [j1 j2]]. destruct IH2 as (A & B & C & D).
           split.
           { split; [|assumption]. apply Forall_forall. intros z Hz. apply B in Hz.
             destruct Hz as [[->|Hz]|Hz]; [lia| |auto]. specialize (Hx z Hz). lia. }
           split. { intros z. cbn [In]. rewrite B. cbn [In]. tauto. }
           split.
           { split; [discriminate|]. intros Hi. destruct (Hi y (or_introl eq_refl)) as [->|Hz]; [lia|].
             specialize (Hx _ Hz). lia. }
           { rewrite D. split; intros Hi z Hz.
             - right. apply Hi. assumption.
             - destruct (Hi z Hz) as [->|]; [|assumption].
               exfalso. destruct Hz as [->|Hz]; [lia|]. specialize (Hx _ Hz). lia. }
        -- apply Z.ltb_ge in E1. apply Z.ltb_ge in E2. assert (x = y) by lia. subst y. clear IH2.
           specialize (IH1 t2 H1b H2b).
           destruct (oset_union t1 t2) as [r [j1 j2]]. destruct IH1 as (A & B & C & D).
           split.
           { split; [|assumption]. apply Forall_forall. intros z Hz. apply B in Hz. destruct Hz; auto. }
           split. { intros z. cbn [In]. rewrite B. tauto. }
           split.
           { rewrite C. split; intros Hi z Hz.
             - destruct Hz as [->|Hz]; [left; reflexivity|right; auto].
             - destruct (Hi z (or_intror Hz)) as [->|]; [|assumption]. specialize (Hy _ Hz). lia. }
           { rewrite D. split; intros Hi z Hz.
             - destruct Hz as [->|Hz]; [left; reflexivity|right; auto].
             - destruct (Hi z (or_intror Hz)) as [->|]; [|assumption]. specialize (Hx _ Hz). lia. }
Qed.

Lemma oset_intersect_cons x t1 y t2 :
  oset_intersect (x :: t1) (y :: t2) =
  if y <? x then let '(r, (a1, _)) := oset_intersect (x :: t1) t2 in (r, (a1, false))
  else if x <? y then let '(r, (_, a2)) := oset_intersect t1 (y :: t2) in (r, (false, a2))
  else let '(r, (a1, a2)) := oset_intersect t1 t2 in (x :: r, (a1, a2)).
Proof. reflexivity. Qed.

Lemma oset_intersect_spec l1 : forall l2, ssorted l1 -> ssorted l2 ->
  let '(r, (a1, a2)) := oset_intersect l1 l2 in
  ssorted r /\ (forall x, In x r <-> In x l1 /\ In x l2) /\
  (a1 = true <-> incl l1 l2) /\ (a2 = true <-> incl l2 l1).
Proof.
  induction l1 as [|x t1 IH1]; intros l2 H1 H2.
  - destruct l2 as [|y t2]; cbn.
    + split; [exact I|]. split; [intros; tauto|].
      split; (split; [intros _; apply incl_nil_l|reflexivity]).
    + split; [exact I|]. split; [intros; tauto|]. split.
      * split; [intros _; apply incl_nil_l|reflexivity].
      * split; [discriminate|]. intros Hi. destruct (Hi y (or_introl eq_refl)).
  - induction l2 as [|y t2 IH2].
    + cbn. split; [exact I|]. split; [intros; tauto|]. split.
      * split; [discriminate|]. intros Hi. destruct (Hi x (or_introl eq_refl)).
      * split; [intros _; apply incl_nil_l|reflexivity].
    + destruct H1 as [H1a H1b]. destruct H2 as [H2a H2b].
      assert (Hx := H1a). assert (Hy := H2a). rewrite Forall_forall in Hx, Hy.
      rewrite oset_intersect_cons. destruct (y <? x) eqn:E1.
      * apply Z.ltb_lt in E1. clear IH1. specialize (IH2 H2b).
        destruct (oset_intersect (x :: t1) t2) as [r [a1 a2]]. destruct IH2 as (A & B & C & D).
        split; [assumption|].
        split.
        { intros z. rewrite B. cbn [In]. split; [tauto|].
          intros [Hz [->|Hz2]]; [|tauto]. exfalso. destruct Hz as [->|Hz]; [lia|]. specialize (Hx _ Hz). lia. }
        split.
        { rewrite C. split; intros Hi z Hz.
          - right. apply Hi. assumption.
          - destruct (Hi z Hz) as [->|]; [|assumption].
            exfalso. destruct Hz as [->|Hz]; [lia|]. specialize (Hx _ Hz). lia. }
        { split; [discriminate|]. intros Hi. destruct (Hi y (or_introl eq_refl)) as [->|Hz]; [lia|].
          specialize (Hx _ Hz). lia. }
      * destruct (x <? y) eqn:E2.
        -- apply Z.ltb_lt in E2. clear IH2.
           specialize (IH1 (y :: t2) H1b (conj H2a H2b)).
           destruct (oset_intersect t1 (y :: t2)) as [r [a1 a2]]. destruct IH1 as (A & B & C & D).
           split; [assumption|].
           split.
           { intros z. rewrite B. cbn [In]. split; [tauto|].
             intros [[->|Hz] Hz2]; [|tauto]. exfalso. destruct Hz2 as [->|Hz2]; [lia|]. specialize (Hy _ Hz2). lia. }
           split.
           { split; [discriminate|]. intros Hi. destruct (Hi x (or_introl eq_refl)) as [->|Hz]; [lia|].
             specialize (Hy _ Hz). lia. }
           { rewrite D. split; intros Hi z Hz.
             - right. apply Hi. assumption.
             - destruct (Hi z Hz) as [->|]; [|assumption].
               exfalso. destruct Hz as [->|Hz]; [lia|]. specialize (Hy _ Hz). lia. }
        -- apply Z.ltb_ge in E1. apply Z.ltb_ge in E2. assert (x = y) by lia. subst y. clear IH2.
           specialize (IH1 t2 H1b H2b).
           destruct (oset_intersect t1 t2) as [r [a1 a2]]. destruct IH1 as (A & B & C & D).
           split.
           { split; [|assumption]. apply Forall_forall. intros z Hz. apply B in Hz. destruct Hz; auto. }
           split.
           { intros z. cbn [In]. rewrite B. split; [tauto|].
             intros [[->|Hz1] [Hz2|Hz2]]; tauto. }
           split.
           { rewrite C. split; intros Hi z Hz.
             - destruct Hz as [->|Hz]; [left; reflexivity|right; auto].
             - destruct (Hi z (or_intror Hz)) as [->|]; [|assumption]. specialize (Hx _ Hz). lia. }
           { rewrite D. split; intros Hi z Hz.
             - destruct Hz as [->|Hz]; [left; reflexivity|right; auto].
             - destruct (Hi z (or_intror Hz)) as [->|]; [|assumption]. specialize (Hy _ Hz). lia. }
Qed.

(* minus *)
Lemma drop_lt_spec x l2 : ssorted l2 ->
  ssorted (drop_lt x l2) /\ Forall (Z.le x) (drop_lt x l2) /\
  (forall z, In z (drop_lt x l2) <-> In z l2 /\ x <= z).
Proof.
  induction l2 as [|y t IH]; intros H; cbn.
  - split; [exact I|]. split; [constructor|]. intros; tauto.
  - destruct H as [Ha Hb]. destruct (y <? x) eqn:E.
    + apply Z.ltb_lt in E. destruct (IH Hb) as (A & B & C). split; [assumption|]. split; [assumption|].
      intros z. rewrite C. cbn [In]. split; [tauto|]. intros [[->|Hz] Hle]; [lia|tauto].
    + apply Z.ltb_ge in E. split; [split; assumption|].
      rewrite Forall_forall in Ha.
      split. { constructor; [assumption|]. apply Forall_forall. intros z Hz. specialize (Ha _ Hz). lia. }
      intros z. cbn [In]. split; [|tauto]. intros [->|Hz]; [split; [left; reflexivity|lia]|].
      split; [right; assumption|]. specialize (Ha _ Hz). lia.
Qed.

Lemma oset_minus_list_spec l1 : forall l2, ssorted l1 -> ssorted l2 ->
  ssorted (oset_minus_list l1 l2) /\
  (forall z, In z (oset_minus_list l1 l2) <-> In z l1 /\ ~ In z l2) /\
  (length (oset_minus_list l1 l2) <= length l1)%nat /\
  (length (oset_minus_list l1 l2) = length l1 <-> (forall z, In z l1 -> ~ In z l2)).
Proof.
  induction l1 as [|x t1 IH]; intros l2 H1 H2.
  - cbn. split; [exact I|]. split; [intros; tauto|]. split; [lia|]. split; [intros _ ? []|reflexivity].
  - destruct H1 as [H1a H1b]. assert (Hx := H1a). rewrite Forall_forall in Hx.
    destruct (drop_lt_spec x l2 H2) as (D1 & D2 & D3).
    cbn [oset_minus_list].
    specialize (IH (drop_lt x l2) H1b D1). destruct IH as (A & B & L & C).
    assert (Hkeep: forall z, In z t1 -> (In z (drop_lt x l2) <-> In z l2)).
    { intros z Hz. rewrite D3. specialize (Hx _ Hz). split; [tauto|]. intros; split; [assumption|lia]. }
    assert (Hcase: (In x l2 /\ exists t, drop_lt x l2 = x :: t) \/
                   (~ In x l2 /\ match drop_lt x l2 with y :: _ => x <> y | [] => True end)).
    { destruct (drop_lt x l2) as [|y t] eqn:E.
      - right. split; [|exact I]. intros Hin. assert (In x []) by (apply D3; split; [assumption|lia]). assumption.
      - destruct (Z.eq_dec x y) as [->|Hn].
        + left. split; [|eexists; reflexivity]. apply (D3 y). left; reflexivity.
        + right. split; [|assumption]. intros Hin.
          assert (Hin2: In x (y :: t)) by (apply D3; split; [assumption|lia]).
          destruct Hin2 as [->|Hin2]; [congruence|].
          destruct D1 as [D1 _]. rewrite Forall_forall in D1. specialize (D1 _ Hin2).
          inversion D2; subst. lia. }
    destruct Hcase as [[Hin [t Et]]|[Hnin Hm]].
    + rewrite Et. rewrite Z.eqb_refl. rewrite <- Et.
      split; [assumption|].
      split.
      { intros z. rewrite B. cbn [In]. split.
        - intros [Hz Hn]. split; [right; assumption|]. rewrite <- (Hkeep z Hz). assumption.
        - intros [[->|Hz] Hn]; [tauto|]. split; [assumption|]. rewrite (Hkeep z Hz). assumption. }
      split; [cbn [length]; lia|].
      cbn [length]. split; [lia|]. intros Hall. exfalso. apply (Hall x (or_introl eq_refl)). assumption.
    + assert (Hres: match drop_lt x l2 with
                    | y :: _ => if x =? y then oset_minus_list t1 (drop_lt x l2) else x :: oset_minus_list t1 (drop_lt x l2)
                    | [] => x :: oset_minus_list t1 (drop_lt x l2)
                    end = x :: oset_minus_list t1 (drop_lt x l2)).
      { destruct (drop_lt x l2) as [|y t]; [reflexivity|]. destruct (x =? y) eqn:E; [|reflexivity].
        apply Z.eqb_eq in E. contradiction. }
      rewrite Hres. clear Hres.
      split.
      { split; [|assumption]. apply Forall_forall. intros z Hz. apply B in Hz. apply Hx. tauto. }
      split.
      { intros z. cbn [In]. rewrite B. split.
        - intros [->|[Hz Hn]]; [tauto|]. split; [right; assumption|]. rewrite <- (Hkeep z Hz). assumption.
        - intros [[->|Hz] Hn]; [left; reflexivity|]. right. split; [assumption|]. rewrite (Hkeep z Hz). assumption. }
      split; [cbn [length]; lia|].
      cbn [length]. split.
      * intros Hl. assert (Hl': length (oset_minus_list t1 (drop_lt x l2)) = length t1) by lia.
        pose proof (proj1 C Hl') as Hall'. intros z [->|Hz]; [assumption|]. rewrite <- (Hkeep z Hz). auto.
      * intros Hall. f_equal. apply (proj2 C). intros z Hz. rewrite (Hkeep z Hz). apply Hall. right; assumption.
Qed.

(* ------------------------------------------------------------------ complement walk *)

Lemma invert_loop_spec n : forall val old, ssorted old -> Forall (Z.le val) old ->
  ssorted (invert_loop n val old) /\ Forall (Z.le val) (invert_loop n val old) /\
  (forall x, In x (invert_loop n val old) <-> (val <= x < val + Z.of_nat n /\ ~ In x old)).
Proof.
  induction n as [|n IH]; intros val old Hs Hl.
  - cbn. split; [exact I|]. split; [constructor|]. intros x. split; [intros []|lia].
  - cbn [invert_loop]. destruct old as [|y t].
    + destruct (IH (val + 1) [] I (Forall_nil _)) as (A & B & C).
      split. { split; [|assumption]. rewrite Forall_forall in *. intros z Hz. specialize (B z Hz). lia. }
      split. { constructor; [lia|]. rewrite Forall_forall in *. intros z Hz. specialize (B z Hz). lia. }
      intros x. cbn [In]. rewrite C. cbn [In]. lia.
    + destruct Hs as [Hs1 Hs2]. inversion Hl as [|? ? Hy Ht]; subst.
      assert (Hs1' := Hs1). rewrite Forall_forall in Hs1'.
      destruct (y =? val) eqn:E.
      * apply Z.eqb_eq in E. subst y.
        assert (Ht': Forall (Z.le (val + 1)) t).
        { apply Forall_forall. intros z Hz. specialize (Hs1' z Hz). lia. }
        destruct (IH (val + 1) t Hs2 Ht') as (A & B & C).
        split; [assumption|].
        split. { rewrite Forall_forall in *. intros z Hz. specialize (B z Hz). lia. }
        intros x. rewrite C. cbn [In]. split.
        -- intros [Hr Hn]. split; [lia|]. intros [->|Hin]; [lia|contradiction].
        -- intros [Hr Hn]. split; [|tauto]. assert (x <> val) by (intros ->; apply Hn; left; reflexivity). lia.
      * apply Z.eqb_neq in E.
        assert (Ht': Forall (Z.le (val + 1)) (y :: t)).
        { constructor; [lia|]. apply Forall_forall. intros z Hz. specialize (Hs1' z Hz). lia. }
        destruct (IH (val + 1) (y :: t) (conj Hs1 Hs2) Ht') as (A & B & C).
        split. { split; [|assumption]. rewrite Forall_forall in *. intros z Hz. specialize (B z Hz). lia. }
        split. { constructor; [lia|]. rewrite Forall_forall in *. intros z Hz. specialize (B z Hz). lia. }
        intros x. cbn [In]. rewrite C. cbn [In]. split.
        -- intros [->|[Hr Hn]]; [|split; [lia|assumption]].
           split; [lia|]. intros [->|Hin]; [lia|]. specialize (Hs1' _ Hin). lia.
        -- intros [Hr Hn]. destruct (Z.eq_dec val x) as [->|Hne]; [left; reflexivity|right; split; [lia|assumption]].
Qed.

Lemma invert_loop_length n : forall val old, ssorted old ->
  Forall (fun y => val <= y < val + Z.of_nat n) old ->
  (length (invert_loop n val old) + length old = n)%nat.
Proof.
  induction n as [|n IH]; intros val old Hs Hl.
  - destruct old as [|y t]; [reflexivity|]. inversion Hl; subst. lia.
  - cbn [invert_loop]. destruct old as [|y t].
    + cbn [length]. pose proof (IH (val + 1) [] I (Forall_nil _)) as IH'. cbn [length] in IH'. lia.
    + destruct Hs as [Hs1 Hs2]. inversion Hl as [|? ? Hy Ht]; subst.
      assert (Hs1' := Hs1). rewrite Forall_forall in Hs1', Ht.
      destruct (y =? val) eqn:E.
      * apply Z.eqb_eq in E. subst y. cbn [length].
        assert (Ht': Forall (fun y => val + 1 <= y < val + 1 + Z.of_nat n) t).
        { apply Forall_forall. intros z Hz. specialize (Hs1' z Hz). specialize (Ht z Hz). lia. }
        specialize (IH (val + 1) t Hs2 Ht'). lia.
      * apply Z.eqb_neq in E. cbn [length].
        assert (Ht': Forall (fun y => val + 1 <= y < val + 1 + Z.of_nat n) (y :: t)).
        { constructor; [lia|]. apply Forall_forall. intros z Hz. specialize (Hs1' z Hz). specialize (Ht z Hz). lia. }
        specialize (IH (val + 1) (y :: t) (conj Hs1 Hs2) Ht'). cbn [length] in IH. lia.
Qed.

(* ------------------------------------------------------------------ well-formed sets, denotation *)

Definition InK (M x : Z) : Prop := ring_lb M <= x <= ring_ub M.
Definition wf (s : fset) : Prop :=
  0 < fs_M s /\ ssorted (fs_el s) /\ Forall (InK (fs_M s)) (fs_el s).
(* the subset of the field denoted by a set: den (l, inv) = if inv then K \ l else l *)
Definition mem (s : fset) (x : Z) : Prop :=
  InK (fs_M s) x /\ (if fs_inv s then ~ In x (fs_el s) else In x (fs_el s)).
Definition same_set (r s : fset) : Prop := forall x, mem r x <-> mem s x.
Definition fits_mem (s1 s2 : fset) : Prop := zlen (fs_el s1) + zlen (fs_el s2) <= ulong_max.

Lemma InK_range M x : 0 < M -> InK M x <-> ring_lb M <= x < ring_lb M + Z.of_nat (Z.to_nat M).
Proof. intros HM. unfold InK. pose proof (ring_range_size M HM). rewrite Z2Nat.id by lia. lia. Qed.

Lemma complement_spec M e : 0 < M -> ssorted e -> Forall (InK M) e ->
  let c := invert_loop (Z.to_nat M) (ring_lb M) e in
  ssorted c /\ Forall (InK M) c /\ (forall x, In x c <-> InK M x /\ ~ In x e) /\
  zlen c + zlen e = M.
Proof.
  intros HM Hs Hk.
  assert (Hl: Forall (Z.le (ring_lb M)) e).
  { rewrite Forall_forall in *. intros z Hz. destruct (Hk z Hz). assumption. }
  destruct (invert_loop_spec (Z.to_nat M) (ring_lb M) e Hs Hl) as (A & B & C).
  split; [assumption|].
  assert (Hin: forall x, In x (invert_loop (Z.to_nat M) (ring_lb M) e) <-> InK M x /\ ~ In x e).
  { intros x. rewrite C. rewrite (InK_range M x HM). tauto. }
  split. { apply Forall_forall. intros z Hz. apply Hin in Hz. tauto. }
  split; [assumption|].
  assert (Hl2: Forall (fun y => ring_lb M <= y < ring_lb M + Z.of_nat (Z.to_nat M)) e).
  { rewrite Forall_forall in *. intros z Hz. apply InK_range; auto. }
  pose proof (invert_loop_length (Z.to_nat M) (ring_lb M) e Hs Hl2) as HL.
  unfold zlen. lia.
Qed.

Lemma fs_elements_spec s : wf s ->
  ssorted (fs_elements s) /\ Forall (InK (fs_M s)) (fs_elements s) /\
  (forall x, In x (fs_elements s) <-> mem s x) /\ zlen (fs_elements s) = fs_size s.
Proof.
  intros (HM & Hs & Hk). unfold fs_elements, mem, fs_size. destruct (fs_inv s).
  - destruct (complement_spec (fs_M s) (fs_el s) HM Hs Hk) as (A & B & C & D).
    split; [assumption|]. split; [assumption|]. split; [assumption|]. lia.
  - split; [assumption|]. split; [assumption|]. split; [|reflexivity].
    intros x. split; [|tauto]. intros Hx. split; [|assumption]. rewrite Forall_forall in Hk. auto.
Qed.

(* invert materialises the complement: another representation of the SAME set *)
Lemma fs_invert_spec s : wf s -> wf (fs_invert s) /\ fs_M (fs_invert s) = fs_M s /\ same_set (fs_invert s) s.
Proof.
  intros (HM & Hs & Hk).
  destruct (complement_spec (fs_M s) (fs_el s) HM Hs Hk) as (A & B & C & D).
  split; [split; [assumption|split; assumption]|]. split; [reflexivity|].
  intros x. unfold mem, fs_invert. cbn [fs_M fs_inv fs_el].
  destruct (fs_inv s); cbn [negb].
  - rewrite C. tauto.
  - rewrite C. split.
    + intros [Hx Hn]. split; [assumption|]. destruct (In_dec Z.eq_dec x (fs_el s)); tauto.
    + intros [Hx Hi]. split; [assumption|]. tauto.
Qed.

(* ------------------------------------------------------------------ constructors *)

Lemma fs_from_integers_spec M l inv : 0 < M ->
  wf (fs_from_integers M l inv) /\
  (forall x, In x (fs_el (fs_from_integers M l inv)) <-> exists y, In y l /\ x = ring_norm (Some M) y).
Proof.
  intros HM. unfold fs_from_integers. cbn [fs_el fs_M fs_inv].
  destruct (unique_sorted_spec _ (sort_Z_sorted (map (ring_norm (Some M)) l))) as [A B].
  assert (Hin: forall x, In x (unique_sorted (sort_Z (map (ring_norm (Some M)) l))) <->
                         exists y, In y l /\ x = ring_norm (Some M) y).
  { intros x. rewrite B, sort_Z_In, in_map_iff. split; intros [y [H1 H2]]; exists y; split; auto. }
  split; [|assumption].
  split; [assumption|]. split; [assumption|].
  apply Forall_forall. intros x Hx. apply Hin in Hx. destruct Hx as [y [_ ->]].
  apply ring_norm_range. assumption.
Qed.

Lemma wf_new_empty M : 0 < M -> wf (fs_new_empty M) /\ forall x, ~ mem (fs_new_empty M) x.
Proof. intros HM. split; [split; [assumption|split; [exact I|constructor]]|]. intros x [_ []]. Qed.
Lemma wf_new_full M : 0 < M -> wf (fs_new_full M) /\ forall x, mem (fs_new_full M) x <-> InK M x.
Proof.
  intros HM. split; [split; [assumption|split; [exact I|constructor]]|]. intros x. unfold mem; cbn. tauto.
Qed.

(* ------------------------------------------------------------------ binary search, contains *)

Lemma ssorted_nth a : ssorted a -> forall i j, (i < j < length a)%nat -> nth i a 0 < nth j a 0.
Proof.
  induction a as [|x t IH]; intros Hs i j Hij; [cbn in Hij; lia|].
  destruct Hs as [H1 H2]. destruct j as [|j]; [lia|]. cbn [length] in Hij.
  destruct i as [|i]; cbn [nth].
  - rewrite Forall_forall in H1. apply H1. apply nth_In. lia.
  - apply IH; [assumption|lia].
Qed.

Lemma bsearch_spec a v : ssorted a -> forall fuel l r,
  0 <= l -> r < zlen a -> r - l + 1 <= Z.of_nat fuel ->
  (forall i, 0 <= i < l -> nth (Z.to_nat i) a 0 < v) ->
  (forall i, r < i < zlen a -> v < nth (Z.to_nat i) a 0) ->
  (bsearch fuel a l r v = true <-> In v a).
Proof.
  intros Hs. unfold zlen. induction fuel as [|fuel IH]; intros l r Hl Hr Hf Hlo Hhi.
  - cbn. split; [discriminate|]. intros Hin. exfalso.
    destruct (In_nth a v 0 Hin) as [i [Hi Hv]].
    destruct (Z_lt_le_dec (Z.of_nat i) l) as [H|H].
    + specialize (Hlo (Z.of_nat i)). rewrite Nat2Z.id in Hlo. lia.
    + specialize (Hhi (Z.of_nat i)). rewrite Nat2Z.id in Hhi. lia.
  - cbn [bsearch]. destruct (l <=? r) eqn:E; [apply Z.leb_le in E|apply Z.leb_gt in E].
    + set (p := (r + l) / 2). assert (Hp: l <= p <= r) by (unfold p; lia).
      set (e := nth (Z.to_nat p) a 0).
      assert (Hmono: forall i j, 0 <= i < j -> j < Z.of_nat (length a) ->
                                 nth (Z.to_nat i) a 0 < nth (Z.to_nat j) a 0).
      { intros i j Hij Hj. apply ssorted_nth; [assumption|]. lia. }
      destruct (v <? e) eqn:E1; [apply Z.ltb_lt in E1|apply Z.ltb_ge in E1].
      * apply IH; try lia; try assumption.
        intros i Hi. destruct (Z.eq_dec i p) as [->|Hne]; [exact E1|].
        specialize (Hmono p i). fold e in Hmono. lia.
      * destruct (e <? v) eqn:E2; [apply Z.ltb_lt in E2|apply Z.ltb_ge in E2].
        -- apply IH; try lia; try assumption.
           intros i Hi. destruct (Z_lt_le_dec i l) as [H|H]; [apply Hlo; lia|].
           destruct (Z.eq_dec i p) as [->|Hne]; [exact E2|].
           specialize (Hmono i p). fold e in Hmono. lia.
        -- split; [intros _|reflexivity]. assert (v = e) by lia. subst v. apply nth_In. lia.
    + split; [discriminate|]. intros Hin. exfalso.
      destruct (In_nth a v 0 Hin) as [i [Hi Hv]].
      destruct (Z_lt_le_dec (Z.of_nat i) l) as [H|H].
      * specialize (Hlo (Z.of_nat i)). rewrite Nat2Z.id in Hlo. lia.
      * specialize (Hhi (Z.of_nat i)). rewrite Nat2Z.id in Hhi. lia.
Qed.

Lemma fs_find_spec a v : ssorted a -> (fs_find a v = true <-> In v a).
Proof.
  intros Hs. unfold fs_find. destruct (zlen a =? 0) eqn:E.
  - apply Z.eqb_eq in E. destruct a; [|unfold zlen in E; cbn in E; lia]. split; [discriminate|intros []].
  - apply Z.eqb_neq in E. apply bsearch_spec; try assumption; unfold zlen in *; try lia.
Qed.

Lemma fs_contains_spec s v : wf s ->
  (fs_contains s v = true <-> mem s (ring_norm (Some (fs_M s)) v)).
Proof.
  intros (HM & Hs & Hk). unfold fs_contains, mem.
  pose proof (ring_norm_range (fs_M s) v HM) as Hr.
  pose proof (fs_find_spec (fs_el s) (ring_norm (Some (fs_M s)) v) Hs) as Hf.
  destruct (fs_find (fs_el s) (ring_norm (Some (fs_M s)) v)); destruct (fs_inv s); cbn.
  - split; [discriminate|]. intros [_ Hn]. exfalso. apply Hn. apply Hf. reflexivity.
  - split; [intros _|reflexivity]. split; [exact Hr|]. apply Hf. reflexivity.
  - split; [intros _|reflexivity]. split; [exact Hr|]. intros Hin. apply Hf in Hin. discriminate.
  - split; [discriminate|]. intros [_ Hin]. apply Hf in Hin. discriminate.
Qed.

(* membership of an arbitrary integer = membership of its residue class *)
Lemma fs_contains_congruent s v x : wf s -> InK (fs_M s) x -> x mod fs_M s = v mod fs_M s ->
  (fs_contains s v = true <-> mem s x).
Proof.
  intros Hw Hx Hc. rewrite fs_contains_spec by assumption.
  destruct Hw as (HM & _). rewrite (ring_norm_char (fs_M s) v x HM Hx Hc). tauto.
Qed.

(* ------------------------------------------------------------------ cardinality *)

Lemma zlen_nil_iff (l : list Z) : zlen l = 0 <-> l = [].
Proof. unfold zlen. destruct l; cbn; split; intros H; try reflexivity; try lia; discriminate. Qed.

Lemma same_set_elements r s : wf r -> wf s -> fs_M r = fs_M s ->
  (same_set r s <-> fs_elements r = fs_elements s).
Proof.
  intros Hr Hs HM.
  destruct (fs_elements_spec r Hr) as (A1 & _ & C1 & _).
  destruct (fs_elements_spec s Hs) as (A2 & _ & C2 & _).
  split.
  - intros E. apply ssorted_ext; try assumption. intros x. rewrite C1, C2. apply E.
  - intros E x. rewrite <- C1, <- C2, E. tauto.
Qed.

Lemma same_set_size r s : wf r -> wf s -> fs_M r = fs_M s -> same_set r s -> fs_size r = fs_size s.
Proof.
  intros Hr Hs HM E. apply (same_set_elements r s Hr Hs HM) in E.
  destruct (fs_elements_spec r Hr) as (_ & _ & _ & D1).
  destruct (fs_elements_spec s Hs) as (_ & _ & _ & D2). rewrite <- D1, <- D2, E. reflexivity.
Qed.

(* a listed set equals the complement of e2 iff the sizes add up to M and the lists are disjoint *)
Lemma listed_eq_complement M e1 e2 : 0 < M ->
  ssorted e1 -> Forall (InK M) e1 -> ssorted e2 -> Forall (InK M) e2 ->
  (same_set (mkFS M false e1) (mkFS M true e2) <->
   zlen e1 = M - zlen e2 /\ forall x, In x e1 -> ~ In x e2).
Proof.
  intros HM S1 K1 S2 K2.
  destruct (complement_spec M e2 HM S2 K2) as (A & B & C & D).
  set (c := invert_loop (Z.to_nat M) (ring_lb M) e2) in *.
  assert (W1: wf (mkFS M false e1)) by (split; [assumption|split; assumption]).
  assert (W2: wf (mkFS M true e2)) by (split; [assumption|split; assumption]).
  rewrite (same_set_elements _ _ W1 W2 eq_refl). unfold fs_elements. cbn [fs_inv fs_M fs_el]. fold c.
  split.
  - intros ->. split; [lia|]. intros x Hx. apply C in Hx. tauto.
  - intros [HL Hd]. apply ssorted_ext; try assumption. intros x.
    assert (Hi: incl e1 c).
    { intros y Hy. apply C. split; [|auto]. rewrite Forall_forall in K1. auto. }
    split; [apply Hi|].
    apply (NoDup_length_incl (ssorted_nodup e1 S1)); [|assumption]. unfold zlen in *. lia.
Qed.

Lemma fs_is_empty_size s : fs_is_empty s = (fs_size s =? 0).
Proof.
  unfold fs_is_empty, fs_size. destruct (fs_inv s); cbn.
  - destruct (fs_M s =? zlen (fs_el s)) eqn:E.
    + apply Z.eqb_eq in E. symmetry. apply Z.eqb_eq. lia.
    + apply Z.eqb_neq in E. symmetry. apply Z.eqb_neq. lia.
  - destruct (zlen (fs_el s) =? 0); reflexivity.
Qed.
Lemma fs_is_full_size s : fs_is_full s = (fs_size s =? fs_M s).
Proof.
  unfold fs_is_full, fs_size. destruct (fs_inv s); cbn.
  - destruct (zlen (fs_el s) =? 0) eqn:E.
    + apply Z.eqb_eq in E. symmetry. apply Z.eqb_eq. lia.
    + apply Z.eqb_neq in E. symmetry. apply Z.eqb_neq. lia.
  - rewrite Z.eqb_sym. destruct (zlen (fs_el s) =? fs_M s); reflexivity.
Qed.
Lemma fs_is_point_size s : fs_is_point s = (fs_size s =? 1).
Proof.
  unfold fs_is_point, fs_size. destruct (fs_inv s); cbn.
  - destruct (fs_M s =? zlen (fs_el s) + 1) eqn:E.
    + apply Z.eqb_eq in E. symmetry. apply Z.eqb_eq. lia.
    + apply Z.eqb_neq in E. symmetry. apply Z.eqb_neq. lia.
  - destruct (zlen (fs_el s) =? 1); reflexivity.
Qed.

Lemma fs_is_empty_spec s : wf s -> (fs_is_empty s = true <-> forall x, ~ mem s x).
Proof.
  intros Hw. rewrite fs_is_empty_size, Z.eqb_eq.
  destruct (fs_elements_spec s Hw) as (_ & _ & C & D). rewrite <- D, zlen_nil_iff. split.
  - intros E x Hx. apply C in Hx. rewrite E in Hx. destruct Hx.
  - intros H. destruct (fs_elements s) as [|y t]; [reflexivity|]. exfalso. apply (H y). apply C. left; reflexivity.
Qed.

Lemma fs_is_full_spec s : wf s -> (fs_is_full s = true <-> forall x, InK (fs_M s) x -> mem s x).
Proof.
  intros Hw. rewrite fs_is_full_size, Z.eqb_eq.
  destruct (fs_elements_spec s Hw) as (A & B & C & D). rewrite <- D.
  destruct Hw as (HM & _).
  destruct (complement_spec (fs_M s) [] HM I (Forall_nil _)) as (KA & KB & KC & KD).
  set (k := invert_loop (Z.to_nat (fs_M s)) (ring_lb (fs_M s)) []) in *.
  assert (Hk: forall x, In x k <-> InK (fs_M s) x) by (intros x; rewrite KC; cbn; tauto).
  assert (Hincl: incl (fs_elements s) k).
  { intros x Hx. apply Hk. rewrite Forall_forall in B. auto. }
  unfold zlen in *. cbn [length] in KD. split.
  - intros HL x Hx. apply C.
    assert (Hi2: incl k (fs_elements s)) by (apply (NoDup_length_incl (ssorted_nodup _ A)); [lia|assumption]).
    apply Hi2, Hk. assumption.
  - intros H.
    assert (incl k (fs_elements s)) by (intros x Hx; apply C, H, Hk; assumption).
    pose proof (NoDup_incl_length (ssorted_nodup _ KA) H0).
    pose proof (NoDup_incl_length (ssorted_nodup _ A) Hincl). lia.
Qed.

Lemma fs_is_point_spec s : wf s -> (fs_is_point s = true <-> exists a, forall x, mem s x <-> x = a).
Proof.
  intros Hw. rewrite fs_is_point_size, Z.eqb_eq.
  destruct (fs_elements_spec s Hw) as (A & B & C & D). rewrite <- D. unfold zlen. split.
  - intros HL. destruct (fs_elements s) as [|a [|b t]]; cbn in HL; try lia.
    exists a. intros x. rewrite <- C. cbn. intuition.
  - intros [a Ha]. destruct (fs_elements s) as [|y [|z t]].
    + exfalso. apply (proj2 (C a)). apply (proj2 (Ha a)). reflexivity.
    + reflexivity.
    + exfalso. assert (y = a) by (apply (proj1 (Ha y)), (proj1 (C y)); left; reflexivity).
      assert (z = a) by (apply (proj1 (Ha z)), (proj1 (C z)); right; left; reflexivity).
      destruct A as [A _]. inversion A; subst. lia.
Qed.

Lemma fs_size_spec s : wf s -> fs_size s = zlen (fs_elements s) /\ 0 <= fs_size s <= fs_M s.
Proof.
  intros Hw. destruct (fs_elements_spec s Hw) as (A & B & C & D). split; [symmetry; assumption|].
  unfold fs_size. destruct Hw as (HM & Hs & Hk).
  destruct (complement_spec (fs_M s) (fs_el s) HM Hs Hk) as (_ & _ & _ & KD).
  unfold zlen in *. destruct (fs_inv s); lia.
Qed.

(* ------------------------------------------------------------------ eq *)

Lemma list_eq_Z_spec a : forall b, list_eq_Z a b = true <-> a = b.
Proof.
  induction a as [|x ta IH]; intros [|y tb]; cbn; try (split; [discriminate|discriminate]); [tauto|].
  rewrite andb_true_iff, Z.eqb_eq, IH. split; [intros [-> ->]; reflexivity|intros E; inversion E; auto].
Qed.

Lemma fs_eq_spec s1 s2 : wf s1 -> wf s2 -> fs_M s1 = fs_M s2 ->
  zlen (fs_el s1) + zlen (fs_el s2) < ulong_max ->
  (fs_eq s1 s2 = true <-> same_set s1 s2).
Proof.
  intros W1 W2 HM Hfit. unfold fs_eq.
  destruct W1 as (HM1 & S1 & K1). destruct W2 as (HM2 & S2 & K2).
  destruct s1 as [M i1 e1], s2 as [M2 i2 e2]. cbn [fs_M fs_inv fs_el] in *. subst M2.
  assert (Hlen: forall a b : list Z, a = b -> zlen a = zlen b) by (intros ? ? ->; reflexivity).
  destruct i1, i2; cbn [Bool.eqb].
  - (* both complemented *)
    assert (E: same_set (mkFS M true e1) (mkFS M true e2) <-> e1 = e2).
    { split.
      - intros E. apply ssorted_ext; try assumption. intros x. rewrite Forall_forall in K1, K2.
        specialize (E x). unfold mem in E. cbn in E.
        destruct (In_dec Z.eq_dec x e1) as [H1|H1], (In_dec Z.eq_dec x e2) as [H2|H2]; try tauto.
        + specialize (K1 x H1). tauto.
        + specialize (K2 x H2). tauto.
      - intros ->. intros x. tauto. }
    rewrite E. destruct (zlen e1 =? zlen e2) eqn:EL; cbn [negb].
    + apply list_eq_Z_spec.
    + apply Z.eqb_neq in EL. split; [discriminate|]. intros H. apply Hlen in H. contradiction.
  - (* s1 complemented, s2 listed *)
    assert (E: same_set (mkFS M true e1) (mkFS M false e2) <-> same_set (mkFS M false e2) (mkFS M true e1)).
    { unfold same_set. split; intros H x; symmetry; apply H. }
    rewrite E, (listed_eq_complement M e2 e1 HM1 S2 K2 S1 K1).
    unfold fs_size_approx. cbn [fs_inv fs_M fs_el negb].
    pose proof (oset_intersect_spec e1 e2 S1 S2) as HI.
    destruct (oset_intersect e1 e2) as [r [a1 a2]]. destruct HI as (_ & HB & _). cbn [fst].
    assert (Hd: zlen r = 0 <-> forall x, In x e2 -> ~ In x e1).
    { rewrite zlen_nil_iff. split.
      - intros -> x Hx Hx'. apply (proj2 (HB x)). tauto.
      - intros H. destruct r as [|y t]; [reflexivity|]. exfalso. destruct (proj1 (HB y) (or_introl eq_refl)). eapply H; eauto. }
    destruct ((0 <=? M) && (M <=? ulong_max)) eqn:EM.
    + destruct (M - zlen e1 =? zlen e2) eqn:EL; cbn [negb].
      * apply Z.eqb_eq in EL. rewrite Z.eqb_eq, Hd. split; [intros H; split; [lia|assumption]|tauto].
      * apply Z.eqb_neq in EL. split; [discriminate|]. lia.
    + assert (ulong_max < M) by (destruct (0 <=? M) eqn:E0; [apply Z.leb_le in E0|apply Z.leb_gt in E0; lia];
                                 cbn [andb] in EM; apply Z.leb_gt in EM; lia).
      destruct (ulong_max =? zlen e2) eqn:EL; cbn [negb].
      * apply Z.eqb_eq in EL. unfold zlen in *. lia.
      * split; [discriminate|]. unfold zlen in *. lia.
  - (* s1 listed, s2 complemented *)
    rewrite (listed_eq_complement M e1 e2 HM1 S1 K1 S2 K2).
    unfold fs_size_approx. cbn [fs_inv fs_M fs_el negb].
    pose proof (oset_intersect_spec e1 e2 S1 S2) as HI.
    destruct (oset_intersect e1 e2) as [r [a1 a2]]. destruct HI as (_ & HB & _). cbn [fst].
    assert (Hd: zlen r = 0 <-> forall x, In x e1 -> ~ In x e2).
    { rewrite zlen_nil_iff. split.
      - intros -> x Hx Hx'. apply (proj2 (HB x)). tauto.
      - intros H. destruct r as [|y t]; [reflexivity|]. exfalso. destruct (proj1 (HB y) (or_introl eq_refl)). eapply H; eauto. }
    destruct ((0 <=? M) && (M <=? ulong_max)) eqn:EM.
    + destruct (zlen e1 =? M - zlen e2) eqn:EL; cbn [negb].
      * apply Z.eqb_eq in EL. rewrite Z.eqb_eq, Hd. split; [intros H; split; [lia|assumption]|tauto].
      * apply Z.eqb_neq in EL. split; [discriminate|]. lia.
    + assert (ulong_max < M) by (destruct (0 <=? M) eqn:E0; [apply Z.leb_le in E0|apply Z.leb_gt in E0; lia];
                                 cbn [andb] in EM; apply Z.leb_gt in EM; lia).
      destruct (zlen e1 =? ulong_max) eqn:EL; cbn [negb].
      * apply Z.eqb_eq in EL. unfold zlen in *. lia.
      * split; [discriminate|]. unfold zlen in *. lia.
  - (* both listed *)
    assert (E: same_set (mkFS M false e1) (mkFS M false e2) <-> e1 = e2).
    { split.
      - intros E. apply ssorted_ext; try assumption. intros x. rewrite Forall_forall in K1, K2.
        specialize (E x). unfold mem in E. cbn in E. split; intros Hx.
        + specialize (K1 x Hx). tauto.
        + specialize (K2 x Hx). tauto.
      - intros ->. intros x. tauto. }
    rewrite E. destruct (zlen e1 =? zlen e2) eqn:EL; cbn [negb].
    + apply list_eq_Z_spec.
    + apply Z.eqb_neq in EL. split; [discriminate|]. intros H. apply Hlen in H. contradiction.
Qed.

(* ------------------------------------------------------------------ dispatch on the representations *)

Lemma approx_le M e2 e1 : 0 < M -> zlen e1 + zlen e2 < ulong_max ->
  (fs_size_approx (mkFS M true e2) <? zlen e1) = false -> zlen e1 <= M - zlen e2.
Proof.
  intros HM Hf. unfold fs_size_approx. cbn [fs_inv fs_M fs_el negb].
  destruct ((0 <=? M) && (M <=? ulong_max)) eqn:EM; intros H; apply Z.ltb_ge in H; [assumption|].
  assert (ulong_max < M).
  { destruct (0 <=? M) eqn:E0; [|apply Z.leb_gt in E0; lia]. cbn [andb] in EM. apply Z.leb_gt in EM. assumption. }
  unfold zlen in *. lia.
Qed.
Lemma approx_eq M e2 e1 : 0 < M -> zlen e1 + zlen e2 < ulong_max ->
  ((zlen e1 =? fs_size_approx (mkFS M true e2)) = true <-> zlen e1 = M - zlen e2).
Proof.
  intros HM Hf. unfold fs_size_approx. cbn [fs_inv fs_M fs_el negb]. rewrite Z.eqb_eq.
  destruct ((0 <=? M) && (M <=? ulong_max)) eqn:EM; [tauto|].
  assert (ulong_max < M).
  { destruct (0 <=? M) eqn:E0; [|apply Z.leb_gt in E0; lia]. cbn [andb] in EM. apply Z.leb_gt in EM. assumption. }
  unfold zlen in *. lia.
Qed.

Lemma mkwf M inv e : 0 < M -> ssorted e -> Forall (InK M) e -> wf (mkFS M inv e).
Proof. intros; split; [assumption|split; assumption]. Qed.

Lemma same_set_sym r s : same_set r s <-> same_set s r.
Proof. unfold same_set. split; intros H x; symmetry; apply H. Qed.

Lemma isect_LI_spec M e1 e2 : 0 < M ->
  ssorted e1 -> Forall (InK M) e1 -> ssorted e2 -> Forall (InK M) e2 -> zlen e1 + zlen e2 < ulong_max ->
  let '(r, (b1, b2)) := isect_LI M e1 e2 in
  wf r /\ fs_M r = M /\ (forall x, mem r x <-> In x e1 /\ ~ In x e2) /\
  (b1 = true <-> same_set r (mkFS M false e1)) /\ (b2 = true <-> same_set r (mkFS M true e2)).
Proof.
  intros HM S1 K1 S2 K2 Hfit. unfold isect_LI.
  assert (K1' := K1). rewrite Forall_forall in K1'.
  destruct (complement_spec M e2 HM S2 K2) as (CA & CB & CC & CD).
  destruct (fs_size_approx (mkFS M true e2) <? zlen e1) eqn:Ebr.
  - (* the complement is materialised *)
    unfold fs_invert. cbn [fs_M fs_inv fs_el negb].
    set (c := invert_loop (Z.to_nat M) (ring_lb M) e2) in *.
    pose proof (oset_intersect_spec e1 c S1 CA) as HI.
    destruct (oset_intersect e1 c) as [rl [a1 a2]]. destruct HI as (RA & RB & RC & RD).
    assert (RK: Forall (InK M) rl).
    { apply Forall_forall. intros x Hx. apply RB in Hx. apply K1'. tauto. }
    split; [apply mkwf; assumption|]. split; [reflexivity|].
    assert (Hmem: forall x, mem (mkFS M false rl) x <-> In x e1 /\ ~ In x e2).
    { intros x. unfold mem. cbn [fs_M fs_inv fs_el]. rewrite RB, CC. split; [tauto|].
      intros [H1 H2]. specialize (K1' x H1). tauto. }
    split; [exact Hmem|]. split.
    + rewrite RC. split.
      * intros Hi x. rewrite Hmem. unfold mem; cbn [fs_M fs_inv fs_el]. split; [intros [H1 H2]; split; auto|].
        intros [_ H1]. split; [assumption|]. apply Hi in H1. apply CC in H1. tauto.
      * intros E x Hx. apply CC. specialize (E x). rewrite Hmem in E. unfold mem in E; cbn [fs_M fs_inv fs_el] in E.
        specialize (K1' x Hx). tauto.
    + rewrite RD. split.
      * intros Hi x. rewrite Hmem. unfold mem; cbn [fs_M fs_inv fs_el]. split.
        -- intros [H1 H2]. split; auto.
        -- intros [Hk Hn]. split; [|assumption]. apply Hi, CC. tauto.
      * intros E x Hx. apply CC in Hx. specialize (E x). rewrite Hmem in E. unfold mem in E; cbn [fs_M fs_inv fs_el] in E. tauto.
  - (* listed minus the complemented one's elements *)
    pose proof (approx_le M e2 e1 HM Hfit Ebr) as Hle.
    unfold oset_minus.
    destruct (oset_minus_list_spec e1 e2 S1 S2) as (RA & RB & RL & RC).
    set (rl := oset_minus_list e1 e2) in *.
    assert (RK: Forall (InK M) rl).
    { apply Forall_forall. intros x Hx. apply RB in Hx. apply K1'. tauto. }
    assert (Hmem: forall x, mem (mkFS M false rl) x <-> In x e1 /\ ~ In x e2).
    { intros x. unfold mem. cbn [fs_M fs_inv fs_el]. rewrite RB. split; [tauto|].
      intros [H1 H2]. specialize (K1' x H1). tauto. }
    assert (Hs1: (zlen rl =? zlen e1) = true <-> same_set (mkFS M false rl) (mkFS M false e1)).
    { rewrite Z.eqb_eq. unfold zlen. rewrite Nat2Z.inj_iff, RC. split.
      - intros Hd x. rewrite Hmem. unfold mem; cbn [fs_M fs_inv fs_el]. split; [intros [H1 H2]; split; auto|].
        intros [_ H1]. split; [assumption|]. auto.
      - intros E x Hx. specialize (E x). rewrite Hmem in E. unfold mem in E; cbn [fs_M fs_inv fs_el] in E.
        specialize (K1' x Hx). tauto. }
    assert (Hs2: ((zlen rl =? zlen e1) && (zlen e1 =? fs_size_approx (mkFS M true e2))) = true <->
                 same_set (mkFS M false rl) (mkFS M true e2)).
    { rewrite (listed_eq_complement M rl e2 HM RA RK S2 K2), andb_true_iff, (approx_eq M e2 e1 HM Hfit), Z.eqb_eq.
      assert (Hd: forall x, In x rl -> ~ In x e2) by (intros x Hx; apply RB in Hx; tauto).
      unfold zlen in *. split; [intros [H1 H2]; split; [lia|assumption]|]. intros [H1 _]. lia. }
    cbn [fst].
    destruct ((zlen rl =? zlen e1) && (zlen e1 =? fs_size_approx (mkFS M true e2))) eqn:Eb.
    + split; [apply mkwf; assumption|]. split; [reflexivity|]. split; [exact Hmem|].
      apply andb_true_iff in Eb. destruct Eb as [Eb1 Eb2].
      split; [split; [intros _; apply Hs1; assumption|reflexivity]|].
      split; [intros _; apply Hs2; reflexivity|reflexivity].
    + split; [apply mkwf; assumption|]. split; [reflexivity|]. split; [exact Hmem|].
      split; [exact Hs1|]. rewrite <- Hs2. split; discriminate.
Qed.

Lemma union_IL_spec M e1 e2 : 0 < M ->
  ssorted e1 -> Forall (InK M) e1 -> ssorted e2 -> Forall (InK M) e2 -> zlen e1 + zlen e2 < ulong_max ->
  let '(r, (b1, b2)) := union_IL M e1 e2 in
  wf r /\ fs_M r = M /\ (forall x, mem r x <-> InK M x /\ (~ In x e1 \/ In x e2)) /\
  (b1 = true <-> same_set r (mkFS M true e1)) /\ (b2 = true <-> same_set r (mkFS M false e2)).
Proof.
  intros HM S1 K1 S2 K2 Hfit. unfold union_IL.
  assert (K1' := K1). assert (K2' := K2). rewrite Forall_forall in K1', K2'.
  destruct (complement_spec M e1 HM S1 K1) as (CA & CB & CC & CD).
  assert (Hfit': zlen e2 + zlen e1 < ulong_max) by lia.
  destruct (fs_size_approx (mkFS M true e1) <? zlen e2) eqn:Ebr.
  - unfold fs_invert. cbn [fs_M fs_inv fs_el negb].
    set (c := invert_loop (Z.to_nat M) (ring_lb M) e1) in *.
    pose proof (oset_union_spec c e2 CA S2) as HI.
    destruct (oset_union c e2) as [rl [j1 j2]]. destruct HI as (RA & RB & RC & RD).
    assert (CB' := CB). rewrite Forall_forall in CB'.
    assert (RK: Forall (InK M) rl).
    { apply Forall_forall. intros x Hx. apply RB in Hx. destruct Hx; auto. }
    split; [apply mkwf; assumption|]. split; [reflexivity|].
    assert (Hmem: forall x, mem (mkFS M false rl) x <-> InK M x /\ (~ In x e1 \/ In x e2)).
    { intros x. unfold mem. cbn [fs_M fs_inv fs_el]. rewrite RB, CC. tauto. }
    split; [exact Hmem|]. split.
    + rewrite RC. split.
      * intros Hi x. rewrite Hmem. unfold mem; cbn [fs_M fs_inv fs_el]. split; [|tauto].
        intros [Hk [H|H]]; [tauto|]. apply Hi, CC in H. tauto.
      * intros E x Hx. apply CC. specialize (E x). rewrite Hmem in E. unfold mem in E; cbn [fs_M fs_inv fs_el] in E.
        specialize (K2' x Hx). tauto.
    + rewrite RD. split.
      * intros Hi x. rewrite Hmem. unfold mem; cbn [fs_M fs_inv fs_el]. split; [|tauto].
        intros [Hk [H|H]]; [|tauto]. split; [assumption|]. apply Hi, CC. tauto.
      * intros E x Hx. apply CC in Hx. specialize (E x). rewrite Hmem in E. unfold mem in E; cbn [fs_M fs_inv fs_el] in E. tauto.
  - pose proof (approx_le M e1 e2 HM Hfit' Ebr) as Hle.
    unfold oset_minus.
    destruct (oset_minus_list_spec e1 e2 S1 S2) as (RA & RB & RL & RC).
    set (rl := oset_minus_list e1 e2) in *.
    assert (RK: Forall (InK M) rl).
    { apply Forall_forall. intros x Hx. apply RB in Hx. apply K1'. tauto. }
    assert (Hmem: forall x, mem (mkFS M true rl) x <-> InK M x /\ (~ In x e1 \/ In x e2)).
    { intros x. unfold mem. cbn [fs_M fs_inv fs_el]. rewrite RB.
      destruct (In_dec Z.eq_dec x e1), (In_dec Z.eq_dec x e2); tauto. }
    assert (Hs1: (zlen rl =? zlen e1) = true <-> same_set (mkFS M true rl) (mkFS M true e1)).
    { rewrite Z.eqb_eq. unfold zlen. rewrite Nat2Z.inj_iff, RC. split.
      - intros Hd x. rewrite Hmem. unfold mem; cbn [fs_M fs_inv fs_el]. split; [|tauto].
        intros [Hk [H|H]]; [tauto|]. split; [assumption|]. intros H1. exact (Hd x H1 H).
      - intros E x Hx Hx2. specialize (E x). rewrite Hmem in E. unfold mem in E; cbn [fs_M fs_inv fs_el] in E.
        specialize (K1' x Hx). tauto. }
    assert (Hs2: ((zlen rl =? zlen e1) && (zlen e2 =? fs_size_approx (mkFS M true e1))) = true <->
                 same_set (mkFS M true rl) (mkFS M false e2)).
    { rewrite same_set_sym.
      rewrite (listed_eq_complement M e2 rl HM S2 K2 RA RK), andb_true_iff, (approx_eq M e1 e2 HM Hfit'), Z.eqb_eq.
      assert (Hd: forall x, In x e2 -> ~ In x rl) by (intros x Hx Hx2; apply RB in Hx2; tauto).
      unfold zlen in *. split; [intros [H1 H2]; split; [lia|assumption]|]. intros [H1 _]. lia. }
    cbn [fst].
    destruct ((zlen rl =? zlen e1) && (zlen e2 =? fs_size_approx (mkFS M true e1))) eqn:Eb.
    + split; [apply mkwf; assumption|]. split; [reflexivity|]. split; [exact Hmem|].
      apply andb_true_iff in Eb. destruct Eb as [Eb1 Eb2].
      split; [split; [intros _; apply Hs1; assumption|reflexivity]|].
      split; [intros _; apply Hs2; reflexivity|reflexivity].
    + split; [apply mkwf; assumption|]. split; [reflexivity|]. split; [exact Hmem|].
      split; [exact Hs1|]. rewrite <- Hs2. split; discriminate.
Qed.

Lemma fs_intersect_internal_spec s1 s2 : wf s1 -> wf s2 -> fs_M s1 = fs_M s2 ->
  zlen (fs_el s1) + zlen (fs_el s2) < ulong_max ->
  let '(r, (b1, b2)) := fs_intersect_internal s1 s2 in
  wf r /\ fs_M r = fs_M s1 /\ (forall x, mem r x <-> mem s1 x /\ mem s2 x) /\
  (b1 = true <-> same_set r s1) /\ (b2 = true <-> same_set r s2).
Proof.
  intros (HM & S1 & K1) (HM2 & S2 & K2) EM Hfit. unfold fs_intersect_internal.
  destruct s1 as [M i1 e1], s2 as [M2 i2 e2]. cbn [fs_M fs_inv fs_el] in *. subst M2.
  assert (K1' := K1). assert (K2' := K2). rewrite Forall_forall in K1', K2'.
  destruct i1, i2.
  - (* both complemented: complement of the union *)
    pose proof (oset_union_spec e1 e2 S1 S2) as HI.
    destruct (oset_union e1 e2) as [rl [j1 j2]]. destruct HI as (RA & RB & RC & RD).
    assert (RK: Forall (InK M) rl).
    { apply Forall_forall. intros x Hx. apply RB in Hx. destruct Hx; auto. }
    split; [apply mkwf; assumption|]. split; [reflexivity|].
    assert (Hmem: forall x, mem (mkFS M true rl) x <-> InK M x /\ ~ In x e1 /\ ~ In x e2).
    { intros x. unfold mem. cbn [fs_M fs_inv fs_el]. rewrite RB. tauto. }
    split; [intros x; rewrite Hmem; unfold mem; cbn [fs_M fs_inv fs_el]; tauto|]. split.
    + rewrite RC. split.
      * intros Hi x. rewrite Hmem. unfold mem; cbn [fs_M fs_inv fs_el]. split; [tauto|].
        intros [Hk Hn]. split; [assumption|]. split; [assumption|]. intros H. apply Hn, Hi, H.
      * intros E x Hx. specialize (E x). rewrite Hmem in E. unfold mem in E; cbn [fs_M fs_inv fs_el] in E.
        specialize (K2' x Hx). destruct (In_dec Z.eq_dec x e1); tauto.
    + rewrite RD. split.
      * intros Hi x. rewrite Hmem. unfold mem; cbn [fs_M fs_inv fs_el]. split; [tauto|].
        intros [Hk Hn]. split; [assumption|]. split; [|assumption]. intros H. apply Hn, Hi, H.
      * intros E x Hx. specialize (E x). rewrite Hmem in E. unfold mem in E; cbn [fs_M fs_inv fs_el] in E.
        specialize (K1' x Hx). destruct (In_dec Z.eq_dec x e2); tauto.
  - (* s1 complemented, s2 listed: the (listed, complemented) code with the operands and the flags swapped *)
    assert (Hfit': zlen e2 + zlen e1 < ulong_max) by lia.
    pose proof (isect_LI_spec M e2 e1 HM S2 K2 S1 K1 Hfit') as HI.
    destruct (isect_LI M e2 e1) as [r [c1 c2]]. destruct HI as (RA & RB & RC & RD & RE).
    cbn [swap_status fst snd].
    split; [assumption|]. split; [assumption|].
    split. { intros x. rewrite RC. unfold mem; cbn [fs_M fs_inv fs_el]. split; [|tauto].
             intros [H1 H2]. specialize (K2' x H1). tauto. }
    split; assumption.
  - (* s1 listed, s2 complemented *)
    pose proof (isect_LI_spec M e1 e2 HM S1 K1 S2 K2 Hfit) as HI.
    destruct (isect_LI M e1 e2) as [r [c1 c2]]. destruct HI as (RA & RB & RC & RD & RE).
    split; [assumption|]. split; [assumption|].
    split. { intros x. rewrite RC. unfold mem; cbn [fs_M fs_inv fs_el]. split; [|tauto].
             intros [H1 H2]. specialize (K1' x H1). tauto. }
    split; assumption.
  - (* both listed *)
    pose proof (oset_intersect_spec e1 e2 S1 S2) as HI.
    destruct (oset_intersect e1 e2) as [rl [a1 a2]]. destruct HI as (RA & RB & RC & RD).
    assert (RK: Forall (InK M) rl).
    { apply Forall_forall. intros x Hx. apply RB in Hx. apply K1'. tauto. }
    split; [apply mkwf; assumption|]. split; [reflexivity|].
    assert (Hmem: forall x, mem (mkFS M false rl) x <-> InK M x /\ In x e1 /\ In x e2).
    { intros x. unfold mem. cbn [fs_M fs_inv fs_el]. rewrite RB. tauto. }
    split; [intros x; rewrite Hmem; unfold mem; cbn [fs_M fs_inv fs_el]; tauto|]. split.
    + rewrite RC. split.
      * intros Hi x. rewrite Hmem. unfold mem; cbn [fs_M fs_inv fs_el]. split; [tauto|].
        intros [Hk H]. split; [assumption|]. split; [assumption|]. apply Hi, H.
      * intros E x Hx. specialize (E x). rewrite Hmem in E. unfold mem in E; cbn [fs_M fs_inv fs_el] in E.
        specialize (K1' x Hx). tauto.
    + rewrite RD. split.
      * intros Hi x. rewrite Hmem. unfold mem; cbn [fs_M fs_inv fs_el]. split; [tauto|].
        intros [Hk H]. split; [assumption|]. split; [|assumption]. apply Hi, H.
      * intros E x Hx. specialize (E x). rewrite Hmem in E. unfold mem in E; cbn [fs_M fs_inv fs_el] in E.
        specialize (K2' x Hx). tauto.
Qed.

Lemma fs_union_internal_spec s1 s2 : wf s1 -> wf s2 -> fs_M s1 = fs_M s2 ->
  zlen (fs_el s1) + zlen (fs_el s2) < ulong_max ->
  let '(r, (b1, b2)) := fs_union_internal s1 s2 in
  wf r /\ fs_M r = fs_M s1 /\ (forall x, mem r x <-> mem s1 x \/ mem s2 x) /\
  (b1 = true <-> same_set r s1) /\ (b2 = true <-> same_set r s2).
Proof.
  intros (HM & S1 & K1) (HM2 & S2 & K2) EM Hfit. unfold fs_union_internal.
  destruct s1 as [M i1 e1], s2 as [M2 i2 e2]. cbn [fs_M fs_inv fs_el] in *. subst M2.
  assert (K1' := K1). assert (K2' := K2). rewrite Forall_forall in K1', K2'.
  destruct i1, i2.
  - (* both complemented: complement of the intersection *)
    pose proof (oset_intersect_spec e1 e2 S1 S2) as HI.
    destruct (oset_intersect e1 e2) as [rl [a1 a2]]. destruct HI as (RA & RB & RC & RD).
    assert (RK: Forall (InK M) rl).
    { apply Forall_forall. intros x Hx. apply RB in Hx. apply K1'. tauto. }
    split; [apply mkwf; assumption|]. split; [reflexivity|].
    assert (Hmem: forall x, mem (mkFS M true rl) x <-> InK M x /\ (~ In x e1 \/ ~ In x e2)).
    { intros x. unfold mem. cbn [fs_M fs_inv fs_el]. rewrite RB.
      destruct (In_dec Z.eq_dec x e1), (In_dec Z.eq_dec x e2); tauto. }
    split; [intros x; rewrite Hmem; unfold mem; cbn [fs_M fs_inv fs_el]; tauto|]. split.
    + rewrite RC. split.
      * intros Hi x. rewrite Hmem. unfold mem; cbn [fs_M fs_inv fs_el]. split; [|tauto].
        intros [Hk [H|H]]; [tauto|]. split; [assumption|]. intros H1. apply H, Hi, H1.
      * intros E x Hx. specialize (E x). rewrite Hmem in E. unfold mem in E; cbn [fs_M fs_inv fs_el] in E.
        specialize (K1' x Hx). destruct (In_dec Z.eq_dec x e2); tauto.
    + rewrite RD. split.
      * intros Hi x. rewrite Hmem. unfold mem; cbn [fs_M fs_inv fs_el]. split; [|tauto].
        intros [Hk [H|H]]; [|tauto]. split; [assumption|]. intros H1. apply H, Hi, H1.
      * intros E x Hx. specialize (E x). rewrite Hmem in E. unfold mem in E; cbn [fs_M fs_inv fs_el] in E.
        specialize (K2' x Hx). destruct (In_dec Z.eq_dec x e1); tauto.
  - (* s1 complemented, s2 listed *)
    pose proof (union_IL_spec M e1 e2 HM S1 K1 S2 K2 Hfit) as HI.
    destruct (union_IL M e1 e2) as [r [c1 c2]]. destruct HI as (RA & RB & RC & RD & RE).
    split; [assumption|]. split; [assumption|].
    split. { intros x. rewrite RC. unfold mem; cbn [fs_M fs_inv fs_el]. split; [tauto|].
             intros [[H1 H2]|[H1 H2]]; tauto. }
    split; assumption.
  - (* s1 listed, s2 complemented: swapped *)
    assert (Hfit': zlen e2 + zlen e1 < ulong_max) by lia.
    pose proof (union_IL_spec M e2 e1 HM S2 K2 S1 K1 Hfit') as HI.
    destruct (union_IL M e2 e1) as [r [c1 c2]]. destruct HI as (RA & RB & RC & RD & RE).
    cbn [swap_status fst snd].
    split; [assumption|]. split; [assumption|].
    split. { intros x. rewrite RC. unfold mem; cbn [fs_M fs_inv fs_el]. split; [tauto|].
             intros [[H1 H2]|[H1 H2]]; tauto. }
    split; assumption.
  - (* both listed *)
    pose proof (oset_union_spec e1 e2 S1 S2) as HI.
    destruct (oset_union e1 e2) as [rl [j1 j2]]. destruct HI as (RA & RB & RC & RD).
    assert (RK: Forall (InK M) rl).
    { apply Forall_forall. intros x Hx. apply RB in Hx. destruct Hx; auto. }
    split; [apply mkwf; assumption|]. split; [reflexivity|].
    assert (Hmem: forall x, mem (mkFS M false rl) x <-> InK M x /\ (In x e1 \/ In x e2)).
    { intros x. unfold mem. cbn [fs_M fs_inv fs_el]. rewrite RB. tauto. }
    split; [intros x; rewrite Hmem; unfold mem; cbn [fs_M fs_inv fs_el]; tauto|]. split.
    + rewrite RC. split.
      * intros Hi x. rewrite Hmem. unfold mem; cbn [fs_M fs_inv fs_el]. split; [|tauto].
        intros [Hk [H|H]]; [tauto|]. split; [assumption|]. apply Hi, H.
      * intros E x Hx. specialize (E x). rewrite Hmem in E. unfold mem in E; cbn [fs_M fs_inv fs_el] in E.
        specialize (K2' x Hx). tauto.
    + rewrite RD. split.
      * intros Hi x. rewrite Hmem. unfold mem; cbn [fs_M fs_inv fs_el]. split; [|tauto].
        intros [Hk [H|H]]; [|tauto]. split; [assumption|]. apply Hi, H.
      * intros E x Hx. specialize (E x). rewrite Hmem in E. unfold mem in E; cbn [fs_M fs_inv fs_el] in E.
        specialize (K1' x Hx). tauto.
Qed.

(* ------------------------------------------------------------------ external status *)

(* what the four status values mean for a result r of an operation on (s1, s2); s1 has precedence *)
Definition status_correct (st : status) (r s1 s2 : fset) : Prop :=
  match st with
  | St_EMPTY => forall x, ~ mem r x
  | St_S1 => (exists x, mem r x) /\ same_set r s1
  | St_S2 => (exists x, mem r x) /\ same_set r s2 /\ ~ same_set r s1
  | St_NEW => (exists x, mem r x) /\ ~ same_set r s1 /\ ~ same_set r s2
  end.

Lemma nonempty_witness r : wf r -> fs_is_empty r = false -> exists x, mem r x.
Proof.
  intros Hw He. destruct (fs_elements_spec r Hw) as (_ & _ & C & D).
  rewrite fs_is_empty_size in He. apply Z.eqb_neq in He. rewrite <- D in He.
  destruct (fs_elements r) as [|y t]; [unfold zlen in He; cbn in He; lia|].
  exists y. apply C. left; reflexivity.
Qed.

Lemma status_external_correct r s1 s2 b1 b2 : wf r ->
  (b1 = true <-> same_set r s1) -> (b2 = true <-> same_set r s2) ->
  status_correct (if fs_is_empty r then St_EMPTY else status_to_external (b1, b2)) r s1 s2.
Proof.
  intros Hw H1 H2. destruct (fs_is_empty r) eqn:E.
  - cbn. apply fs_is_empty_spec; assumption.
  - pose proof (nonempty_witness r Hw E) as Hne.
    destruct b1; cbn.
    + split; [assumption|]. apply H1; reflexivity.
    + assert (~ same_set r s1) by (intros H; apply H1 in H; discriminate).
      destruct b2; cbn.
      * split; [assumption|]. split; [apply H2; reflexivity|assumption].
      * split; [assumption|]. split; [assumption|]. intros H'; apply H2 in H'; discriminate.
Qed.

(* the four meanings are mutually exclusive, so status_correct determines the status *)
Lemma status_correct_unique st st' r s1 s2 :
  status_correct st r s1 s2 -> status_correct st' r s1 s2 -> st = st'.
Proof.
  destruct st, st'; cbn; intros H H'; try reflexivity; exfalso;
    repeat match goal with
           | H : _ /\ _ |- _ => destruct H
           | H : exists _, _ |- _ => destruct H
           end; try tauto;
    match goal with
    | H : forall x, ~ mem r x, H' : mem r _ |- _ => exact (H _ H')
    end.
Qed.

Lemma fs_intersect_with_status_spec s1 s2 : wf s1 -> wf s2 -> fs_M s1 = fs_M s2 ->
  zlen (fs_el s1) + zlen (fs_el s2) < ulong_max ->
  let '(r, st) := fs_intersect_with_status s1 s2 in
  wf r /\ fs_M r = fs_M s1 /\ (forall x, mem r x <-> mem s1 x /\ mem s2 x) /\ status_correct st r s1 s2.
Proof.
  intros W1 W2 EM Hfit. unfold fs_intersect_with_status.
  pose proof (fs_intersect_internal_spec s1 s2 W1 W2 EM Hfit) as H.
  destruct (fs_intersect_internal s1 s2) as [r [b1 b2]]. destruct H as (A & B & C & D & E).
  split; [assumption|]. split; [assumption|]. split; [assumption|].
  apply status_external_correct; assumption.
Qed.

Lemma fs_union_with_status_spec s1 s2 : wf s1 -> wf s2 -> fs_M s1 = fs_M s2 ->
  zlen (fs_el s1) + zlen (fs_el s2) < ulong_max ->
  let '(r, st) := fs_union_with_status s1 s2 in
  wf r /\ fs_M r = fs_M s1 /\ (forall x, mem r x <-> mem s1 x \/ mem s2 x) /\ status_correct st r s1 s2.
Proof.
  intros W1 W2 EM Hfit. unfold fs_union_with_status.
  pose proof (fs_union_internal_spec s1 s2 W1 W2 EM Hfit) as H.
  destruct (fs_union_internal s1 s2) as [r [b1 b2]]. destruct H as (A & B & C & D & E).
  split; [assumption|]. split; [assumption|]. split; [assumption|].
  apply status_external_correct; assumption.
Qed.

Lemma fs_intersect_fst s1 s2 : fs_intersect s1 s2 = fst (fs_intersect_with_status s1 s2).
Proof. unfold fs_intersect, fs_intersect_with_status. destruct (fs_intersect_internal s1 s2). reflexivity. Qed.
Lemma fs_union_fst s1 s2 : fs_union s1 s2 = fst (fs_union_with_status s1 s2).
Proof. unfold fs_union, fs_union_with_status. destruct (fs_union_internal s1 s2). reflexivity. Qed.

(* ------------------------------------------------------------------ pick_value *)

Lemma fs_pick_ok_spec s v : wf s -> (fs_pick_ok s v = true <-> mem s v).
Proof.
  intros Hw. unfold fs_pick_ok. rewrite andb_true_iff.
  destruct Hw as (HM & Hs & Hk). rewrite (in_ring_spec (fs_M s) v HM).
  split.
  - intros [Hr Hc]. apply (fs_contains_congruent s v v (conj HM (conj Hs Hk)) Hr eq_refl). assumption.
  - intros Hm. assert (Hr: InK (fs_M s) v) by (destruct Hm; assumption). split; [exact Hr|].
    apply (fs_contains_congruent s v v (conj HM (conj Hs Hk)) Hr eq_refl). assumption.
Qed.

Lemma ring_lb_ub M : 0 < M -> - ring_ub M <= ring_lb M <= 0 /\ 0 <= ring_ub M <= - ring_lb M + 1.
Proof. intros HM. rewrite ring_ub_eq, ring_lb_eq by assumption. lia. Qed.

Lemma pick_loop_spec M el : 0 < M -> ssorted el ->
  (exists x, InK M x /\ ~ In x el) ->
  forall fuel k, 0 <= k -> (forall x, InK M x -> - k <= x <= k -> In x el) ->
  ring_ub M - k < Z.of_nat fuel ->
  exists v, pick_loop fuel M el k = Some v /\ InK M v /\ ~ In v el.
Proof.
  intros HM Hs [w [Hw Hwn]]. pose proof (ring_lb_ub M HM) as Hb.
  induction fuel as [|fuel IH]; intros k Hk Hall Hf.
  - exfalso. apply Hwn, Hall; [assumption|]. unfold InK in Hw. lia.
  - cbn [pick_loop].
    destruct (in_ring (Some M) (k + 1)) eqn:Er; cbn [negb].
    + apply (in_ring_spec M _ HM) in Er.
      pose proof (fs_find_spec el (k + 1) Hs) as F1.
      destruct (fs_find el (k + 1)) eqn:E1; cbn [negb].
      * assert (H1: In (k + 1) el) by (apply F1; reflexivity).
        pose proof (fs_find_spec el (- (k + 1)) Hs) as F2.
        destruct (fs_find el (- (k + 1))) eqn:E2; cbn [negb].
        -- assert (H2: In (- (k + 1)) el) by (apply F2; reflexivity).
           apply IH; [lia| |lia].
           intros x Hx Hr. destruct (Z.eq_dec x (k + 1)) as [->|N1]; [assumption|].
           destruct (Z.eq_dec x (- (k + 1))) as [->|N2]; [assumption|]. apply Hall; [assumption|lia].
        -- exists (- (k + 1)).
           assert (Hn: ~ In (- (k + 1)) el) by (intros H; apply F2 in H; discriminate).
           split; [reflexivity|]. split; [|assumption].
           (* -(k+1) is in the ring: otherwise every ring element would be in el *)
           destruct (Z_le_dec (ring_lb M) (- (k + 1))) as [Hle|Hgt]; [unfold InK in *; lia|].
           exfalso. apply Hwn. destruct (Z.eq_dec w (k + 1)) as [->|N1]; [assumption|].
           apply Hall; [assumption|]. unfold InK in *. lia.
      * exists (k + 1). split; [reflexivity|]. split; [exact Er|]. intros H; apply F1 in H; discriminate.
    + exfalso. assert (~ InK M (k + 1)) by (intros H; apply (in_ring_spec M _ HM) in H; congruence).
      apply Hwn, Hall; [assumption|]. unfold InK in *. lia.
Qed.

Lemma fs_pick_inverted_spec s fuel : wf s -> fs_inv s = true -> (exists x, mem s x) ->
  fs_M s <= Z.of_nat fuel ->
  exists v, fs_pick_inverted fuel s = Some v /\ mem s v.
Proof.
  intros (HM & Hs & Hk) Hi [w Hw] Hf. unfold fs_pick_inverted, mem in *. rewrite Hi in *.
  pose proof (ring_lb_ub (fs_M s) HM) as Hb.
  pose proof (fs_find_spec (fs_el s) 0 Hs) as F0.
  destruct (fs_find (fs_el s) 0) eqn:E0; cbn [negb].
  - destruct (pick_loop_spec (fs_M s) (fs_el s) HM Hs (ex_intro _ w Hw) fuel 0) as [v [Hv1 Hv2]].
    + lia.
    + intros x Hx Hr. assert (x = 0) by lia. subst x. apply F0; reflexivity.
    + rewrite ring_ub_eq by assumption. lia.
    + exists v. split; assumption.
  - exists 0. split; [reflexivity|]. split; [unfold InK; lia|]. intros H; apply F0 in H; discriminate.
Qed.
