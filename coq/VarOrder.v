(* C18 model: variable orders, the recursive polynomial representation under an order, and the polynomial
   object with its `external` flag and cached hash.  Executable, stdlib + MPoly only, NO proofs here.

   Mirrors (statement order and case splits):
     src/variable/variable_order.c   lp_variable_order_{push,pop,reverse,clear,make_top,make_bot,cmp}
     src/variable/variable_list.c    lp_variable_list_index (position of a variable in the list, -1 if unlisted)
     src/polynomial/monomial.c       lp_monomial_construct_copy(..., sort=1)   (exchange sort, top variable first)
     src/polynomial/coefficient.c    coefficient_in_order, coefficient_traverse, coefficient_ensure_capacity,
                                     coefficient_normalize, coefficient_add_ordered_monomial, coefficient_order,
                                     coefficient_cmp_general(compare_values=1), coefficient_hash(_traverse)
     src/polynomial/polynomial.c     lp_polynomial_external_clean, check_order, ensure_order, set_external, hash, eq,
                                     cmp, construct_copy, swap, assign, add_monomial and the entry protocol of the
                                     arithmetic operations (external_clean of the inputs, then write the result).

   Scope notes.
   * Coefficients live in Z (ctx->K == lp_Z).
   * A coefficient array is modelled by the list of its `size` used entries; the separate `capacity` of the C
     struct is not modelled: coefficient_ensure_capacity here always ends with size >= wanted.  The C function
     does so whenever size == capacity, which holds for every accumulator coefficient_order builds (they only
     grow) and for freshly parsed / copied objects; the size < wanted <= capacity case is C01's subject.
   * The ARITHMETIC of coefficients (coefficient_add/mul/...) is C01's subject; an operation's result is modelled
     here by the reference function on the denotations, re-represented under the order in force (layering of
     DESIGN 1.2).  What IS modelled faithfully is everything that depends on the variable order: the
     comparison of variables, the order check, re-ordering, insertion of a monomial, structural comparison, the
     hash, and which public operation cleans / writes / caches what. *)
From Coq Require Import ZArith NArith List Bool.
From LP Require Import MPoly.
Import ListNotations.
Local Open Scope Z_scope.

(* ------------------------------------------------------------------------------------------------ *)
(* variable order: the list, plus the special top / bottom variables (lp_variable_null = None)        *)
Record order := mkOrder { olist : list var; otop : option var; obot : option var }.

Definition order_new : order := mkOrder [] None None.
Definition order_push (o : order) (x : var) : order := mkOrder (olist o ++ [x]) (otop o) (obot o).
Definition order_pop (o : order) : order := mkOrder (removelast (olist o)) (otop o) (obot o).
Definition order_reverse (o : order) : order := mkOrder (rev (olist o)) (otop o) (obot o).
(* while (size) pop *)
Definition order_clear (o : order) : order := mkOrder [] (otop o) (obot o).
Definition order_make_top (o : order) (v : option var) : order := mkOrder (olist o) v (obot o).
Definition order_make_bot (o : order) (v : option var) : order := mkOrder (olist o) (otop o) v.
Definition order_contains (o : order) (x : var) : bool := existsb (N.eqb x) (olist o).
Definition order_size (o : order) : nat := length (olist o).

(* lp_variable_list_index: position in the list, -1 when unlisted *)
Fixpoint index_from (l : list var) (x : var) (i : Z) : Z :=
  match l with
  | [] => -1
  | y :: l' => if N.eqb x y then i else index_from l' x (i + 1)
  end.
Definition var_index (o : order) (x : var) : Z := index_from (olist o) x 0.

Definition is_var (v : option var) (x : var) : bool :=
  match v with Some y => N.eqb x y | None => false end.

(* lp_variable_order_cmp: the int it returns *)
Definition cmp_var (o : order) (x y : var) : Z :=
  if N.eqb x y then 0 else
  if is_var (obot o) x then -1 else
  if is_var (obot o) y then 1 else
  if is_var (otop o) x then 1 else
  if is_var (otop o) y then -1 else
  let xi := var_index o x in
  let yi := var_index o y in
  if xi =? yi then Z.of_N x - Z.of_N y
  else if xi =? -1 then 1
  else if yi =? -1 then -1
  else xi - yi.

(* ------------------------------------------------------------------------------------------------ *)
(* recursive polynomials                                                                             *)
Inductive coef : Type :=
| CNum (a : Z)
| CRec (x : var) (cs : list coef).   (* cs = coefficients of x^0, x^1, ... (the `size` used entries) *)

(* a monomial as the traversal / lp_monomial_t holds it: powers in the order they were pushed *)
Definition pmono := list (var * N).

Definition is_zero (c : coef) : bool := match c with CNum a => a =? 0 | CRec _ _ => false end.

(* coefficient_in_order *)
Fixpoint in_order (o : order) (c : coef) : bool :=
  match c with
  | CNum _ => true
  | CRec x cs =>
    forallb (fun ci => match ci with
                       | CNum _ => true
                       | CRec y _ => (0 <? cmp_var o x y) && in_order o ci
                       end) cs
  end.

(* coefficient_traverse: the monomials in the order the callback sees them; m is the stack of powers pushed so far *)
Fixpoint traverse (c : coef) (m : pmono) : list (pmono * Z) :=
  match c with
  | CNum a => [(m, a)]
  | CRec x cs =>
    match cs with
    | [] => []
    | c0 :: rest =>
      (if is_zero c0 then [] else traverse c0 m) ++
      (fix powers (d : N) (l : list coef) : list (pmono * Z) :=
         match l with
         | [] => []
         | ci :: l' => (if is_zero ci then [] else traverse ci (m ++ [(x, d)])) ++ powers (d + 1)%N l'
         end) 1%N rest
    end
  end.

(* lp_monomial_construct_copy(sort = 1): for i, for j > i: if cmp(p[i], p[j]) < 0 swap.  One pass of the inner
   loop for a fixed i, carrying p[i]: returns the final p[i] and the rest of the array *)
Fixpoint sort_pass (o : order) (cur : var * N) (rest : pmono) : (var * N) * pmono :=
  match rest with
  | [] => (cur, [])
  | y :: rest' =>
    if cmp_var o (fst cur) (fst y) <? 0
    then let (mx, r) := sort_pass o y rest' in (mx, cur :: r)
    else let (mx, r) := sort_pass o cur rest' in (mx, y :: r)
  end.
Fixpoint sort_n (o : order) (n : nat) (m : pmono) : pmono :=
  match n, m with
  | S n', x :: r => let (mx, r') := sort_pass o x r in mx :: sort_n o n' r'
  | _, _ => m
  end.
Definition mono_sort (o : order) (m : pmono) : pmono := sort_n o (length m) m.

Definition zeros (n : nat) : list coef := repeat (CNum 0) n.

(* coefficient_ensure_capacity(C, x, cap) (see the scope note on capacity) *)
Definition ensure_capacity (c : coef) (x : var) (cap : nat) : coef :=
  match c with
  | CNum _ => CRec x (c :: zeros (cap - 1))
  | CRec y cs =>
    if N.eqb x y then CRec y (cs ++ zeros (cap - length cs))
    else CRec x (c :: zeros (cap - 1))
  end.

(* coefficient_normalize: drop the zero coefficients at the top; a polynomial left with its constant
   coefficient only is replaced by that coefficient *)
Definition strip_zeros (l : list coef) : list coef :=
  fold_right (fun c acc => match acc with [] => if is_zero c then [] else [c] | _ => c :: acc end) [] l.
Definition normalize (c : coef) : coef :=
  match c with
  | CNum _ => c
  | CRec x [] => CNum 0              (* size >= 1 is asserted in C *)
  | CRec x (c0 :: rest) =>
    match strip_zeros rest with
    | [] => c0
    | rest' => CRec x (c0 :: rest')
    end
  end.

Fixpoint upd_nth (n : nat) (f : coef -> coef) (l : list coef) : list coef :=
  match n, l with
  | O, c :: r => f c :: r
  | S n', c :: r => c :: upd_nth n' f r
  | _, [] => []
  end.

(* coefficient_add_ordered_monomial(m, C): m sorted, top variable first, coefficient a *)
Fixpoint add_om (o : order) (m : pmono) (a : Z) {struct m} : coef -> coef :=
  match m with
  | [] =>
    fix add_const (c : coef) : coef :=
      match c with
      | CNum b => CNum (b + a)
      | CRec y [] => CRec y [CNum a]                  (* unreachable: size >= 1 *)
      | CRec y (c0 :: r) => CRec y (add_const c0 :: r)
      end
  | (x, d) :: m' =>
    let here (c : coef) : coef :=
      match ensure_capacity c x (S (N.to_nat d)) with
      | CRec x' l => normalize (CRec x' (upd_nth (N.to_nat d) (add_om o m' a) l))
      | c1 => c1
      end in
    fix descend (c : coef) : coef :=
      match c with
      | CNum _ => here c
      | CRec y cs =>
        if 0 <=? cmp_var o x y then here c
        else match cs with
             | [] => CRec y [here (CNum 0)]           (* unreachable: size >= 1 *)
             | c0 :: r => CRec y (descend c0 :: r)
             end
      end
  end.

Definition add_monomial (o : order) (c : coef) (m : pmono) (a : Z) : coef := add_om o (mono_sort o m) a c.

(* coefficient_order: rebuild from the traversal *)
Definition coef_order (o : order) (c : coef) : coef :=
  match c with
  | CNum _ => c
  | CRec _ _ => fold_left (fun acc t => add_monomial o acc (fst t) (snd t)) (traverse c []) (CNum 0)
  end.

(* ---- denotation into the reference model *)
Definition mono_canon (m : pmono) : mono :=
  fold_right (fun xd acc => mono_mul (mono_var (fst xd) (snd xd)) acc) [] m.
Definition canon_term (t : pmono * Z) : term := (mono_canon (fst t), snd t).
Definition mp_norm (l : list (pmono * Z)) : mpoly := mp_of_terms (map canon_term l).
(* the polynomial an object denotes = the sum of the monomials its traversal reports *)
Definition to_mpoly (c : coef) : mpoly := mp_norm (traverse c []).
(* how an object is built from a term list (lp_polynomial_add_monomial term by term into a zero polynomial) *)
Definition of_mpoly (o : order) (p : list (pmono * Z)) : coef :=
  fold_left (fun acc t => add_monomial o acc (fst t) (snd t)) p (CNum 0).

(* the powers of a monomial handed to the library mention each variable once *)
Fixpoint nodupb (l : list var) : bool :=
  match l with [] => true | x :: r => negb (existsb (N.eqb x) r) && nodupb r end.
Definition mono_ok (m : pmono) : bool := nodupb (map fst m).

(* top variable of a denotation under an order (what VAR(data) is once the object is in order) *)
Definition top_var (o : order) (p : mpoly) : option var :=
  fold_right (fun x acc => match acc with None => Some x | Some y => if 0 <? cmp_var o x y then Some x else Some y end)
             None (mp_vars p).

(* coefficient_cmp_general(compare_values = 1) *)
Definition z_cmp (a b : Z) : Z := match a ?= b with Lt => -1 | Eq => 0 | Gt => 1 end.
Fixpoint coef_cmp (o : order) (c1 c2 : coef) : Z :=
  match c1, c2 with
  | CNum a, CNum b => z_cmp a b
  | CNum _, CRec _ _ => -1
  | CRec _ _, CNum _ => 1
  | CRec x l1, CRec y l2 =>
    let vc := cmp_var o x y in
    if vc =? 0 then
      let dc := Z.of_nat (length l1) - Z.of_nat (length l2) in
      if dc =? 0 then
        (* for i = size-1 downto 0: first non-zero comparison *)
        (fix from_top (l1 l2 : list coef) : Z :=
           match l1, l2 with
           | a :: l1', b :: l2' => let r := from_top l1' l2' in if r =? 0 then coef_cmp o a b else r
           | _, _ => 0
           end) l1 l2
      else dc
    else vc
  end.

(* ------------------------------------------------------------------------------------------------ *)
(* the polynomial object                                                                             *)
Record poly := mkPoly { pdata : coef; pext : bool; pcache : N }.

Definition set_data (p : poly) (d : coef) : poly := mkPoly d (pext p) (pcache p).
Definition set_cache (p : poly) (h : N) : poly := mkPoly (pdata p) (pext p) h.

(* lp_polynomial_external_clean *)
Definition external_clean (o : order) (p : poly) : poly :=
  if pext p && negb (in_order o (pdata p)) then set_data p (coef_order o (pdata p)) else p.
Definition check_order (o : order) (p : poly) : bool := in_order o (pdata p).
Definition ensure_order (o : order) (p : poly) : poly := set_data p (coef_order o (pdata p)).
Definition set_external (p : poly) : poly := mkPoly (pdata p) true (pcache p).
(* the operand can be used by an operation: after the automatic cleaning it matches the order *)
Definition ready (o : order) (p : poly) : bool := in_order o (pdata (external_clean o p)).

(* how a public operation stores a result into an existing object.
   write_keep : the pinned code (only data is written, the cached hash stays)
   write_reset: the repaired code (the cache is invalidated) *)
Definition write_keep (p : poly) (d : coef) : poly := mkPoly d (pext p) (pcache p).
Definition write_reset (p : poly) (d : coef) : poly := mkPoly d (pext p) 0%N.

Fixpoint set_nth {A : Type} (l : list A) (i : nat) (p : A) : list A :=
  match l, i with
  | [], _ => []
  | _ :: r, O => p :: r
  | q :: r, S i' => q :: set_nth r i' p
  end.

Section Hash.
  (* integer_hash and hash_pair, abstract *)
  Variable hz : Z -> N.
  Variable hp : var -> N -> N.

  (* coefficient_hash_traverse: hash ^= integer_hash(a); for each power hash ^= hash_pair(x, d) *)
  Definition hash_step (h : N) (t : pmono * Z) : N :=
    fold_left (fun h xd => N.lxor h (hp (fst xd) (snd xd))) (fst t) (N.lxor h (hz (snd t))).
  Definition coef_hash (c : coef) : N := fold_left hash_step (traverse c []) 0%N.
  Definition nz (h : N) : N := if (h =? 0)%N then 1%N else h.

  (* lp_polynomial_hash: returns the hash and the object with its cache filled *)
  Definition poly_hash (p : poly) : N * poly :=
    if (pcache p =? 0)%N then let h := nz (coef_hash (pdata p)) in (h, set_cache p h)
    else (pcache p, p).

  (* lp_polynomial_cmp (one context) *)
  Definition poly_cmp (o : order) (p q : poly) : Z * poly * poly :=
    let p' := external_clean o p in
    let q' := external_clean o q in
    (coef_cmp o (pdata p') (pdata q'), p', q').

  (* lp_polynomial_eq *)
  Definition poly_eq (o : order) (p q : poly) : bool * poly * poly :=
    let (h1, p1) := poly_hash p in
    let (h2, q1) := poly_hash q in
    if negb (h1 =? h2)%N then (false, p1, q1)
    else let '(c, p2, q2) := poly_cmp o p1 q1 in (c =? 0, p2, q2).

  (* ---------------------------------------------------------------------------------------------- *)
  (* histories: order changes interleaved with operations on external and non-external objects        *)
  Inductive op : Type :=
  | OPush (x : var) | OPop | OReverse | OClear | OMakeTop (v : option var) | OMakeBot (v : option var)
  | PNew (p : list (pmono * Z))                 (* lp_polynomial_new + add_monomial of each term *)
  | PCopy (i : nat)                             (* lp_polynomial_new_copy *)
  | PSetExt (i : nat)                           (* lp_polynomial_set_external *)
  | PAssign (i j : nat)                         (* lp_polynomial_assign(i, j) *)
  | PSwap (i j : nat)                           (* lp_polynomial_swap *)
  | PUn (f : order -> mpoly -> list (pmono * Z)) (r a : nat)      (* r := f(a): neg, derivative, ... *)
  | PBin (f : order -> mpoly -> mpoly -> list (pmono * Z)) (r a b : nat)   (* r := f(a, b): add, sub, mul, gcd, ... *)
  | PAddMono (i : nat) (m : pmono) (a : Z)      (* lp_polynomial_add_monomial, in place *)
  | PMoveOut (i : nat)                          (* lp_polynomial_vector_push_back_move: the data is moved out, 0 is left *)
  | PHash (i : nat) | PEq (i j : nat) | PCmp (i j : nat)
  | PEnsure (i : nat) | PCheck (i : nat).

  Record state := mkState { sord : order; sobjs : list poly }.
  Definition state0 : state := mkState order_new [].

  Definition dummy : poly := mkPoly (CNum 0) false 0%N.
  Definition get (s : state) (i : nat) : poly := nth i (sobjs s) dummy.
  Definition valid (s : state) (i : nat) : bool := Nat.ltb i (length (sobjs s)).
  Definition put (s : state) (i : nat) (p : poly) : state := mkState (sord s) (set_nth (sobjs s) i p).
  Definition with_order (s : state) (o : order) : state := mkState o (sobjs s).

  (* what a step lets the caller observe *)
  Inductive obs : Type := ONone | OBool (b : bool) | OHash (h : N).

  (* Precondition of a step.  Where it fails the C code asserts or is undefined (bad index, popping an empty
     order, pushing a listed variable, an operand that does not match the order even after the automatic
     cleaning of external objects): such a step leaves the state unchanged. *)
  Definition enabled (s : state) (e : op) : bool :=
    let o := sord s in
    match e with
    | OPush x => negb (order_contains o x)
    | OPop => match olist o with [] => false | _ => true end
    | OReverse | OClear | OMakeTop _ | OMakeBot _ => true
    | PNew p => forallb (fun t => mono_ok (fst t)) p
    | PCopy i | PSetExt i | PHash i | PEnsure i | PCheck i | PMoveOut i => valid s i
    | PAssign i j | PSwap i j => valid s i && valid s j
    | PUn _ r a => valid s r && valid s a && ready o (get s a)
    | PBin _ r a b => valid s r && valid s a && valid s b && ready o (get s a) && ready o (get s b)
    | PAddMono i m _ => valid s i && ready o (get s i) && mono_ok m
    | PEq i j | PCmp i j => valid s i && valid s j && ready o (get s i) && ready o (get s j)
    end.

  (* `wr` = how results are stored (write_keep: pinned code, write_reset: repaired code).  Aliased operands
     (the same index twice) behave as in C because the two copies evolve identically and are stored in turn. *)
  Definition exec (wr : poly -> coef -> poly) (s : state) (e : op) : state * obs :=
    let o := sord s in
    match e with
    | OPush x => (with_order s (order_push o x), ONone)
    | OPop => (with_order s (order_pop o), ONone)
    | OReverse => (with_order s (order_reverse o), ONone)
    | OClear => (with_order s (order_clear o), ONone)
    | OMakeTop v => (with_order s (order_make_top o v), ONone)
    | OMakeBot v => (with_order s (order_make_bot o v), ONone)
    | PNew p => (mkState o (sobjs s ++ [mkPoly (of_mpoly o p) false 0%N]), ONone)
    | PCopy i => (mkState o (sobjs s ++ [mkPoly (pdata (get s i)) false (pcache (get s i))]), ONone)
    | PSetExt i => (put s i (set_external (get s i)), ONone)
    | PAssign i j => (if Nat.eqb i j then s else put s i (wr (get s i) (pdata (get s j))), ONone)
    | PSwap i j =>
      (* everything but the external flags is exchanged *)
      let p := get s i in
      let q := get s j in
      (put (put s i (mkPoly (pdata q) (pext p) (pcache q))) j (mkPoly (pdata p) (pext q) (pcache p)), ONone)
    | PUn f r a =>
      let pa := external_clean o (get s a) in
      let s1 := put s a pa in
      (put s1 r (wr (get s1 r) (of_mpoly o (mp_norm (f o (to_mpoly (pdata pa)))))), ONone)
    | PBin f r a b =>
      let pa := external_clean o (get s a) in
      let pb := external_clean o (get s b) in
      let s1 := put (put s a pa) b pb in
      (put s1 r (wr (get s1 r) (of_mpoly o (mp_norm (f o (to_mpoly (pdata pa)) (to_mpoly (pdata pb)))))), ONone)
    | PAddMono i m a =>
      let p := external_clean o (get s i) in
      (put s i (wr p (add_monomial o (pdata p) m a)), ONone)
    | PMoveOut i => (put s i (wr (get s i) (CNum 0)), ONone)
    | PHash i => let (h, p) := poly_hash (get s i) in (put s i p, OHash h)
    | PEq i j => let '(r, p, q) := poly_eq o (get s i) (get s j) in (put (put s i p) j q, OBool r)
    | PCmp i j => let '(c, p, q) := poly_cmp o (get s i) (get s j) in (put (put s i p) j q, OBool (c =? 0))
    | PEnsure i => (put s i (ensure_order o (get s i)), ONone)
    | PCheck i => (s, OBool (check_order o (get s i)))
    end.

  Definition step (wr : poly -> coef -> poly) (s : state) (e : op) : state * obs :=
    if enabled s e then exec wr s e else (s, ONone).

  Definition run (wr : poly -> coef -> poly) (s : state) (h : list op) : state :=
    fold_left (fun s e => fst (step wr s e)) h s.

  (* the same step on the mathematical objects (order changes and observations do nothing) *)
  Definition spec_step (o : order) (d : list mpoly) (e : op) : list mpoly :=
    match e with
    | PNew p => d ++ [mp_norm p]
    | PCopy i => d ++ [nth i d []]
    | PAssign i j => set_nth d i (nth j d [])
    | PSwap i j => set_nth (set_nth d i (nth j d [])) j (nth i d [])
    | PUn f r a => set_nth d r (mp_norm (f o (nth a d [])))
    | PBin f r a b => set_nth d r (mp_norm (f o (nth a d []) (nth b d [])))
    | PAddMono i m a => set_nth d i (mp_add_term (mono_canon m, a) (nth i d []))
    | PMoveOut i => set_nth d i []
    | _ => d
    end.
  Definition dens (s : state) : list mpoly := map (fun p => to_mpoly (pdata p)) (sobjs s).
  (* the implementation-level history and the order-free history in lock step; the order-free side performs a
     step exactly when the implementation-level precondition holds *)
  Definition sim_step (wr : poly -> coef -> poly) (sd : state * list mpoly) (e : op) : state * list mpoly :=
    let (s, d) := sd in
    if enabled s e then (fst (exec wr s e), spec_step (sord s) d e) else (s, d).
  Definition sim_run (wr : poly -> coef -> poly) (sd : state * list mpoly) (h : list op) : state * list mpoly :=
    fold_left (sim_step wr) h sd.
End Hash.
