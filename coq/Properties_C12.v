(* Property C12 - feasible sets of polynomial and root constraints are the exact solution sets.
   ONLY theorem statements, each closed by `exact` of a lemma from FeasSweepProofs.v / FeasSweepRcf.v, with
   Print Assumptions beneath.  Model: FeasSweep.v (sweep of lp_polynomial_constraint_get_feasible_set,
   lp_polynomial_root_constraint_get_feasible_set, the two evaluators, poly::infeasible_regions).

   The carrier T of values is ANY totally ordered type (`total_order cmp`: cmp a b = Eq <-> a = b, antisymmetry,
   transitivity); T stands for the real numbers denoted by lp_value_t, the end points add -inf / +inf. *)
From Coq Require Import ZArith List Bool.
From LP Require Import FeasSweep FeasSweepProofs FeasSweepRcf.
Set Warnings "-notation-overridden,-ambiguous-paths".
From mathcomp Require Import all_ssreflect all_algebra.
From mathcomp Require Import polyrcf.
Set Warnings "notation-overridden,ambiguous-paths".
Import ListNotations.
Local Open Scope Z_scope.

(* 0. negating a sign condition negates its truth table (lp_sign_condition_negate / _consistent) *)
Theorem C12_sign_condition_negate : forall sc s, sc_consistent (sc_negate sc) s = negb (sc_consistent sc s).
Proof. exact sc_negate_consistent. Qed.
Print Assumptions C12_sign_condition_negate.

(* 1. THE SWEEP.  `oracle_ok` is what the analytic layer must deliver: the polynomial vanishes at the listed roots,
      has sign `cell k` on the k-th open cell (k = number of roots below v), `cell n` is the sign of the leading
      coefficient, `cell 0` that sign times (-1)^degree, and sign_mid i is the sign between roots i and i+1.
      Then for EVERY value v of the carrier, all six conditions and both polarities, v is in the returned set
      exactly when the (possibly negated) condition holds for the sign at v; and the set is in normal form
      (every interval well formed, consecutive intervals strictly ordered and not mergeable). *)
Theorem C12_sweep_exact :
  forall (T : Type) (cmp : T -> T -> comparison), total_order cmp ->
  forall roots degree sgn_const sgn_lc sign_mid sc negated (sgnA : T -> Z) (cell : nat -> Z),
  increasing T cmp roots ->
  (degree = O -> forall v, sgnA v = sgn_const) ->
  (degree <> O -> oracle_ok T cmp roots degree sgn_lc sign_mid sgnA cell) ->
  let res := constraint_feasible_set T cmp roots degree sgn_const sgn_lc sign_mid sc negated in
  (forall v, set_contains T cmp res v = xorb negated (sc_consistent sc (sgnA v))) /\ set_nf T cmp res = true.
Proof. exact constraint_feasible_set_exact. Qed.
Print Assumptions C12_sweep_exact.

(* the same statement on the carrier the checks run on (Z ranks): no premise about the order is left *)
Theorem C12_sweep_exact_ranks :
  forall roots degree sgn_const sgn_lc sign_mid sc negated (sgnA : Z -> Z) (cell : nat -> Z),
  increasing Z zcmp roots ->
  (degree = O -> forall v, sgnA v = sgn_const) ->
  (degree <> O -> oracle_ok Z zcmp roots degree sgn_lc sign_mid sgnA cell) ->
  let res := z_constraint_feasible_set roots degree sgn_const sgn_lc sign_mid sc negated in
  (forall v, z_set_contains res v = xorb negated (sc_consistent sc (sgnA v))) /\ z_set_nf res = true.
Proof. exact (constraint_feasible_set_exact Z zcmp zcmp_total_order). Qed.
Print Assumptions C12_sweep_exact_ranks.

(* the loop that sizes the result counts exactly the intervals the second loop builds (assert(interval == intervals_size)) *)
Theorem C12_sweep_count :
  forall (T : Type) (cmp : T -> T -> comparison), total_order cmp ->
  forall roots degree sgn_const sgn_lc sign_mid sc negated,
  increasing T cmp roots -> degree <> O ->
  length (constraint_feasible_set T cmp roots degree sgn_const sgn_lc sign_mid sc negated)
  = constraint_feasible_count (length roots) degree sgn_lc sign_mid sc negated.
Proof. exact constraint_feasible_count_exact. Qed.
Print Assumptions C12_sweep_count.

(* 2. root constraints  y ~ root_k:  v is in the set exactly when (k-th root exists and v ~ root_k) xor negated;
      with fewer than k+1 roots the constraint is false: empty set, full set when negated.  Normal form. *)
Theorem C12_root_constraint :
  forall (T : Type) (cmp : T -> T -> comparison), total_order cmp ->
  forall roots degree k sc negated,
  increasing T cmp roots -> (degree = O -> roots = []) ->
  let res := root_constraint_feasible_set T cmp roots degree k sc negated in
  (forall v, set_contains T cmp res v = xorb negated (root_constraint_evaluate T cmp roots k sc v)) /\
  set_nf T cmp res = true.
Proof. exact root_constraint_feasible_set_exact. Qed.
Print Assumptions C12_root_constraint.

(* 3. the truth-value evaluators agree with membership of the assigned value in the (non-negated) feasible set *)
Theorem C12_evaluate_agree :
  forall (T : Type) (cmp : T -> T -> comparison), total_order cmp ->
  forall roots degree sgn_const sgn_lc sign_mid sc (sgnA : T -> Z) (cell : nat -> Z),
  increasing T cmp roots ->
  (degree = O -> forall v, sgnA v = sgn_const) ->
  (degree <> O -> oracle_ok T cmp roots degree sgn_lc sign_mid sgnA cell) ->
  forall v, constraint_evaluate sc (sgnA v)
            = set_contains T cmp (constraint_feasible_set T cmp roots degree sgn_const sgn_lc sign_mid sc false) v.
Proof. exact constraint_evaluate_agree. Qed.
Print Assumptions C12_evaluate_agree.

Theorem C12_root_evaluate_agree :
  forall (T : Type) (cmp : T -> T -> comparison), total_order cmp ->
  forall roots degree k sc,
  increasing T cmp roots -> (degree = O -> roots = []) ->
  forall v, root_constraint_evaluate T cmp roots k sc v
            = set_contains T cmp (root_constraint_feasible_set T cmp roots degree k sc false) v.
Proof. exact root_constraint_evaluate_agree. Qed.
Print Assumptions C12_root_evaluate_agree.

(* 4. the complement sweep of poly::infeasible_regions: on a normal form it returns exactly the complement,
      again in normal form (in particular the last gap up to +inf and single excluded points are there) *)
Theorem C12_complement :
  forall (T : Type) (cmp : T -> T -> comparison), total_order cmp ->
  forall s, set_nf T cmp s = true ->
  (forall v, set_contains T cmp (infeasible_regions T cmp s) v = negb (set_contains T cmp s v)) /\
  set_nf T cmp (infeasible_regions T cmp s) = true.
Proof. exact infeasible_regions_exact. Qed.
Print Assumptions C12_complement.

(* ---- non-vacuity: the hypotheses of C12_sweep_exact are satisfiable (the polynomial (y-10)(y-20) on Z) *)
Definition ex_sgn (v : Z) : Z := Z.sgn ((v - 10) * (v - 20)).
Definition ex_cell (k : nat) : Z := if Nat.eqb k 1 then -1 else 1.
Example C12_oracle_inhabited : increasing Z zcmp [10; 20] /\ oracle_ok Z zcmp [10; 20] 2 1 (fun _ => -1) ex_sgn ex_cell.
Proof. exact ex_oracle_ok. Qed.
Example C12_sweep_example :
  z_constraint_feasible_set [10; 20] 2 0 1 (fun _ => -1) SC_LE false = [IIv (Finite 10) false (Finite 20) false] /\
  z_constraint_feasible_set [10; 20] 2 0 1 (fun _ => -1) SC_LE true
    = [IIv NegInf true (Finite 10) true; IIv (Finite 20) true PosInf true] /\
  z_constraint_feasible_set [10; 20] 2 0 1 (fun _ => -1) SC_EQ false = [IPoint (Finite 10); IPoint (Finite 20)] /\
  z_infeasible_regions [IPoint (Finite 10); IPoint (Finite 20)]
    = [IIv NegInf true (Finite 10) true; IIv (Finite 10) true (Finite 20) true; IIv (Finite 20) true PosInf true] /\
  z_root_constraint_feasible_set [10; 20] 2 1 SC_LT true = [IIv (Finite 20) false PosInf true] /\
  z_root_constraint_feasible_set [10; 20] 2 2 SC_LT false = [].
Proof. vm_compute. repeat split. Qed.

Local Close Scope Z_scope.
Local Open Scope ring_scope.

(* 5. the analytic premise, over an ARBITRARY real closed field R (MathComp rcfType; no real-number axioms):
      a non-zero polynomial whose real roots are exactly the strictly increasing list rs has one constant
      NON-ZERO sign on each of the size rs + 1 open cells (cell (rank rs v) for v not a root, rank = number of
      roots below v), the sign of its leading coefficient on the last cell and (-1)^deg times that on the first *)
Theorem C12_sign_cells : forall (R : rcfType) (p : {poly R}) (rs : seq R),
  p != 0 -> sorted <%R rs -> (forall x, root p x = (x \in rs)) ->
  exists cell : nat -> int,
    [/\ forall v, v \notin rs -> sgz p.[v] = cell (FeasSweepRcf.rank rs v),
        forall k, (k <= size rs)%N -> cell k != 0,
        cell (size rs) = sgz (lead_coef p)
      & cell 0%N = ((-1) ^+ (size p).-1 * sgz (lead_coef p)) ].
Proof. exact poly_sign_cells. Qed.
Print Assumptions C12_sign_cells.

(* 6. END TO END on exact inputs: the sweep of lp_polynomial_constraint_get_feasible_set run on the exact roots of
      p, its degree, the sign of its leading / constant coefficient and its sign at ANY points strictly between
      consecutive roots returns exactly {v | the (possibly negated) condition holds for sgn p(v)}, in normal
      form - for every polynomial over every real closed field.  (zsg = sign as a Z; cmpR = the order of R.) *)
Theorem C12_feasible_set_poly_exact :
  forall (R : rcfType) (p : {poly R}) (rs : seq R) (mids : nat -> R) sc negated,
  p != 0 -> sorted <%R rs -> (forall x, root p x = (x \in rs)) ->
  (forall i, (i.+1 < size rs)%N -> (nth 0 rs i < mids i < nth 0 rs i.+1)) ->
  let res := constraint_feasible_set R (@cmpR R) rs (size p).-1 (zsg p`_0) (zsg (lead_coef p))
               (fun i => zsg p.[mids i]) sc negated in
  (forall v : R, set_contains R (@cmpR R) res v = xorb negated (sc_consistent sc (zsg p.[v]))) /\
  set_nf R (@cmpR R) res = true.
Proof. exact feasible_set_poly_exact. Qed.
Print Assumptions C12_feasible_set_poly_exact.


(* ================================================================================================================
   7. THE VERIFIED ACCEPTANCE TEST of a feasible set read from the implementation (FeasCheck.v, extracted and run by
      the model driver).  The set S is given over RANKS (an end point is an infinity or the index of a root in the
      root list rs read from the implementation).  accept_feasible = Accept means: rs is accepted as the exact root
      list (C11_accept_roots_exact), the rational sample points separate consecutive roots, and S equals the sweep
      run on the ranks with the exact degree and the exact signs computed by the checker.  PROVED: then, for every
      real closed field R and every valuation rho under which the assigned representations denote, the set
      obtained by replacing rank i by the i-th root (phi vs) contains a real v exactly when the (possibly negated)
      condition holds for the sign of p(rho, y := v), and it is in normal form.  Likewise for root constraints. *)
From LP Require Import Scalar UPoly MPoly RefAlg RootCheck FeasCheck FeasSweepNat RefAlgSpec RefAlgRoots RefAlgArith RootCheckBase RootCheckTop.

Theorem C12_accept_feasible_exact :
  forall (R : rcfType) fuel (a : asg) (y : MPoly.var) (p : mpoly) (rs : seq rnum) (mids : seq (Z * Z)) sc negated
         (S : seq (FeasSweep.interval Z)) (rho : MPoly.var -> R),
  (forall v r, List.In (v, r) a -> rn_denotes (rn_norm r) (rho v)) ->
  accept_feasible fuel a y p rs mids sc negated S = Accept ->
  exists vs : seq R, dens (List.map rn_norm rs) vs /\ sorted <%R vs /\
    let SR := List.map (map_iv Z R (phi vs)) S in
    (forall v : R, set_contains R (@cmpR R) SR v =
                   xorb negated (sc_consistent sc (zsg (mp_evalR (RootCheckBase.upd rho y v) p)))) /\
    set_nf R (@cmpR R) SR = true.
Proof. exact accept_feasible_exact. Qed.
Print Assumptions C12_accept_feasible_exact.

Theorem C12_accept_root_constraint_exact :
  forall (R : rcfType) fuel (a : asg) (y : MPoly.var) (p : mpoly) (rs : seq rnum) (k : nat) sc negated
         (S : seq (FeasSweep.interval Z)) (rho : MPoly.var -> R),
  (forall v r, List.In (v, r) a -> rn_denotes (rn_norm r) (rho v)) ->
  accept_root_constraint fuel a y p rs k sc negated S = Accept ->
  exists vs : seq R, dens (List.map rn_norm rs) vs /\ sorted <%R vs /\
    (((forall t, mp_evalR (RootCheckBase.upd rho y t) p = 0) /\ vs = [::]) \/
     ((exists t, mp_evalR (RootCheckBase.upd rho y t) p != 0) /\
      forall t, (t \in vs) = (mp_evalR (RootCheckBase.upd rho y t) p == 0))) /\
    let SR := List.map (map_iv Z R (phi vs)) S in
    (forall v : R, set_contains R (@cmpR R) SR v =
                   xorb negated (root_constraint_evaluate R (@cmpR R) vs k sc v)) /\
    set_nf R (@cmpR R) SR = true.
Proof. exact accept_root_constraint_exact. Qed.
Print Assumptions C12_accept_root_constraint_exact.

(* the sweeps commute with every map that respects the order on the listed roots (ranks -> real roots) *)
Theorem C12_sweep_natural :
  forall (T U : Type) (cmpT : T -> T -> comparison) (cmpU : U -> U -> comparison) (f : T -> U) (roots : list T),
  (forall a b, List.In a roots -> List.In b roots -> cmpU (f a) (f b) = cmpT a b) ->
  forall degree sgn_const sgn_lc sign_mid sc negated,
  List.map (map_iv T U f) (constraint_feasible_set T cmpT roots degree sgn_const sgn_lc sign_mid sc negated)
  = constraint_feasible_set U cmpU (List.map f roots) degree sgn_const sgn_lc sign_mid sc negated.
Proof. exact constraint_feasible_set_map. Qed.
Print Assumptions C12_sweep_natural.
