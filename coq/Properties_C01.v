(* Property C01 - polynomial ring arithmetic is exact in Z[x1..xn], Z_m[x1..xn], Z_m[x].
   ONLY theorem statements, each closed by `exact` of a lemma from MPolySpec.v (reference model = the
   mathematical object), CoefficientInv.v / CoefficientSpec.v (faithful model of coefficient.c) or UPolySpec.v,
   with Print Assumptions beneath.  Pre-repair functions and their refutations: History_C01.v. *)
From Coq Require Import ZArith NArith List.
From LP Require Import Scalar MPoly UPoly Coefficient CoefficientOps CoefficientInv.
Set Warnings "-notation-overridden,-ambiguous-paths".
From mathcomp Require Import all_ssreflect all_algebra.
From mathcomp Require Import ssrZ zify.
Set Warnings "notation-overridden,ambiguous-paths".
From LP Require Import CoefficientObs.
From LP Require Import UPolySpec MPolySpec CoefficientSpec CoefficientObsSpec.
Import GRing.Theory.
Local Open Scope ring_scope.
Delimit Scope Z_scope with SZ.

(* ===== 1. The reference model is the mathematical object: for EVERY commutative ring R and valuation rho,
   each operation of MPoly.v computes the ring operation on denotations (universal property of Z[x1..xn]). *)
Theorem C01_sem_add : forall (R : comRingType) (rho : var -> R) p q,
  mp_den rho (mp_add p q) = mp_den rho p + mp_den rho q.
Proof. exact mp_den_add. Qed.
Print Assumptions C01_sem_add.
Theorem C01_sem_sub : forall (R : comRingType) (rho : var -> R) p q,
  mp_den rho (mp_sub p q) = mp_den rho p - mp_den rho q.
Proof. exact mp_den_sub. Qed.
Print Assumptions C01_sem_sub.
Theorem C01_sem_neg : forall (R : comRingType) (rho : var -> R) p, mp_den rho (mp_neg p) = - mp_den rho p.
Proof. exact mp_den_neg. Qed.
Print Assumptions C01_sem_neg.
Theorem C01_sem_mul : forall (R : comRingType) (rho : var -> R) p q,
  mp_den rho (mp_mul p q) = mp_den rho p * mp_den rho q.
Proof. exact mp_den_mul. Qed.
Print Assumptions C01_sem_mul.
Theorem C01_sem_scale : forall (R : comRingType) (rho : var -> R) c p,
  mp_den rho (mp_scale c p) = zr R c * mp_den rho p.
Proof. exact mp_den_scale. Qed.
Print Assumptions C01_sem_scale.
Theorem C01_sem_pow : forall (R : comRingType) (rho : var -> R) p n, mp_den rho (mp_pow p n) = mp_den rho p ^+ n.
Proof. exact mp_den_pow. Qed.
Print Assumptions C01_sem_pow.
(* fused multiply-add / multiply-subtract are mp_add/mp_sub of mp_mul: C01_sem_add, C01_sem_sub, C01_sem_mul *)
Theorem C01_sem_add_monomial : forall (R : comRingType) (rho : var -> R) t p,
  mp_den rho (mp_add_term t p) = term_den rho t + mp_den rho p.
Proof. exact mp_den_add_term. Qed.
Print Assumptions C01_sem_add_monomial.
Theorem C01_sem_shift : forall (R : comRingType) (rho : var -> R) x e p,
  mp_den rho (mp_mul p (mp_var_pow x e)) = mp_den rho p * rho x ^+ N.to_nat e.
Proof. exact mp_den_shift. Qed.
Print Assumptions C01_sem_shift.
Theorem C01_sem_canonicalise : forall (R : comRingType) (rho : var -> R) l, mp_den rho (mp_of_terms l) = mp_den rho l.
Proof. exact mp_den_of_terms. Qed.
Print Assumptions C01_sem_canonicalise.
(* evaluation at an integer point IS the denotation in the ring Z *)
Theorem C01_sem_eval_integer : forall (rho : var -> Z) p, mp_eval rho p = mp_den rho p.
Proof. exact mp_eval_den. Qed.
Print Assumptions C01_sem_eval_integer.

(* ===== 2. Canonical form (strictly decreasing well-formed monomials, no zero coefficient, zero = []) is kept *)
Theorem C01_wf_add : forall p q, mp_wf p -> mp_wf q -> mp_wf (mp_add p q).
Proof. exact mp_wf_add. Qed.
Print Assumptions C01_wf_add.
Theorem C01_wf_sub : forall p q, mp_wf p -> mp_wf q -> mp_wf (mp_sub p q).
Proof. exact mp_wf_sub. Qed.
Print Assumptions C01_wf_sub.
Theorem C01_wf_neg : forall p, mp_wf p -> mp_wf (mp_neg p).
Proof. exact mp_wf_neg. Qed.
Print Assumptions C01_wf_neg.
Theorem C01_wf_mul : forall p q, mp_wf p -> mp_wf q -> mp_wf (mp_mul p q).
Proof. exact mp_wf_mul. Qed.
Print Assumptions C01_wf_mul.
Theorem C01_wf_scale : forall c p, mp_wf p -> mp_wf (mp_scale c p).
Proof. exact mp_wf_scale. Qed.
Print Assumptions C01_wf_scale.
Theorem C01_wf_pow : forall p n, mp_wf p -> mp_wf (mp_pow p n).
Proof. exact mp_wf_pow. Qed.
Print Assumptions C01_wf_pow.
Theorem C01_wf_derivative : forall x p, mp_wf p -> mp_wf (mp_deriv x p).
Proof. exact mp_wf_deriv. Qed.
Print Assumptions C01_wf_derivative.
Theorem C01_wf_add_monomial : forall t p, mono_wf t.1 -> mp_wf p -> mp_wf (mp_add_term t p).
Proof. exact mp_wf_add_term. Qed.
Print Assumptions C01_wf_add_monomial.
Theorem C01_wf_reduce : forall f p, mp_wf p -> mp_wf (mp_map_coeff f p).
Proof. exact mp_wf_map_coeff. Qed.
Print Assumptions C01_wf_reduce.

(* ===== 3. The canonical form is unique: a canonical polynomial is determined by its denotations, so every
   semantic law above is an equality of canonical outputs (which is what the correspondence compares). *)
Theorem C01_canonical_unique : forall p q, mp_wf p -> mp_wf q ->
  (forall (R : comRingType) (rho : var -> R), mp_den rho p = mp_den rho q) -> p = q.
Proof. exact mp_canonical_unique. Qed.
Print Assumptions C01_canonical_unique.
Theorem C01_add_determined : forall p q r, mp_wf p -> mp_wf q -> mp_wf r ->
  (forall (R : comRingType) (rho : var -> R), mp_den rho r = mp_den rho p + mp_den rho q) -> r = mp_add p q.
Proof. exact mp_add_determined. Qed.
Print Assumptions C01_add_determined.
Theorem C01_mul_determined : forall p q r, mp_wf p -> mp_wf q -> mp_wf r ->
  (forall (R : comRingType) (rho : var -> R), mp_den rho r = mp_den rho p * mp_den rho q) -> r = mp_mul p q.
Proof. exact mp_mul_determined. Qed.
Print Assumptions C01_mul_determined.
Theorem C01_recanonicalise_id : forall p, mp_wf p -> mp_of_terms p = p.
Proof. exact mp_of_terms_wf. Qed.
Print Assumptions C01_recanonicalise_id.

(* ===== 4. Z_m: reducing every coefficient with integer_ring_normalize does not change the element denoted in
   any ring of characteristic dividing M (so all laws of section 1 hold in Z_M[x1..xn]); the reduced
   coefficients lie in the symmetric range by C17_ring_norm_range. *)
Theorem C01_Zm_reduce_sem : forall (R : comRingType) (rho : var -> R) M p, (0 < M)%SZ -> zr R M = 0 ->
  mp_den rho (mp_map_coeff (ring_norm (Some M)) p) = mp_den rho p.
Proof. exact mp_den_reduce. Qed.
Print Assumptions C01_Zm_reduce_sem.
Theorem C01_Zm_ring_norm_sem : forall (R : comRingType) M c, (0 < M)%SZ -> zr R M = 0 ->
  zr R (ring_norm (Some M) c) = zr R c.
Proof. exact zr_ring_norm. Qed.
Print Assumptions C01_Zm_ring_norm_sem.
(* uniqueness of the canonical form over Z_M (coefficients in the symmetric range, equal in every ring with M = 0)
   is not proved: kept as a statement *)
Definition C01_canonical_unique_Zm_full_statement : Prop :=
  forall M p q, (1 < M)%SZ -> mp_wf p -> mp_wf q ->
    (forall t, t \in p -> in_ring (Some M) t.2) -> (forall t, t \in q -> in_ring (Some M) t.2) ->
    (forall (R : comRingType) (rho : var -> R), zr R M = 0 -> mp_den rho p = mp_den rho q) -> p = q.

(* ===== 5. Faithful model of coefficient.c (recursive representation WITH capacity slack).
   STATE anchor: over EVERY sequence of in-place operations on a pool (add sub mul add_mul sub_mul neg assign
   derivative mul_integer pow shl add_monomial reorder, any aliasing), from every pool whose objects satisfy
   "1 <= size <= capacity and every entry at or above size is zero", every object still satisfies it.
   (For the pre-repair coefficient_ensure_capacity this is FALSE: History_C01.C01_ensure_capacity_prefix_refuted.) *)
Theorem C01_slack_inv : forall K F s ops s', pool_ok K s -> c_run K F s ops = Some s' -> pool_ok K s'.
Proof. exact run_ok. Qed.
Print Assumptions C01_slack_inv.
Theorem C01_slack_inv_initial : forall K rk fuel l r, c_of_terms K rk fuel l = Some r -> c_slack_ok K r = true.
Proof. exact init_ok. Qed.
Print Assumptions C01_slack_inv_initial.
(* ... and it is exactly the contract of ensure_capacity that matters: any ensure_capacity that keeps the
   invariant and delivers size >= the requested capacity will do *)
Theorem C01_slack_inv_any_good_ensure_capacity : forall K ens F s ops s',
  good_ens K ens -> pool_ok K s -> c_run_gen K ens F s ops = Some s' -> pool_ok K s'.
Proof. exact run_ok_gen. Qed.
Print Assumptions C01_slack_inv_any_good_ensure_capacity.

(* the traversal (lp_polynomial_traverse, canonically sorted) reads off a canonical polynomial with the same
   denotation as the recursive representation, in every ring compatible with K *)
Theorem C01_traverse_sem : forall K (R : comRingType) (rho : var -> R), K_compat K R ->
  forall c, mp_den rho (to_mpoly K c) = c_den rho c.
Proof. exact to_mpoly_den. Qed.
Print Assumptions C01_traverse_sem.
Theorem C01_traverse_canonical : forall K c, mp_wf (to_mpoly K c).
Proof. exact to_mpoly_wf. Qed.
Print Assumptions C01_traverse_canonical.

(* refinement, over Z: what the library's algorithm leaves in memory reads off as EXACTLY the reference result *)
Theorem C01_refine_add : forall rk, (forall x y, rk x = rk y -> x = y) -> forall fuel a b r,
  c_slack_ok None a -> c_slack_ok None b -> c_add None rk fuel a b = Some r ->
  to_mpoly None r = mp_add (to_mpoly None a) (to_mpoly None b).
Proof. exact c_add_refines. Qed.
Print Assumptions C01_refine_add.
Theorem C01_refine_sub : forall rk, (forall x y, rk x = rk y -> x = y) -> forall fuel a b r,
  c_slack_ok None a -> c_slack_ok None b -> c_sub None rk fuel a b = Some r ->
  to_mpoly None r = mp_sub (to_mpoly None a) (to_mpoly None b).
Proof. exact c_sub_refines. Qed.
Print Assumptions C01_refine_sub.
Theorem C01_refine_neg : forall (rk : var -> N) inplace c, c_slack_ok None c ->
  to_mpoly None (c_neg None inplace c) = mp_neg (to_mpoly None c).
Proof. exact c_neg_refines. Qed.
Print Assumptions C01_refine_neg.
Theorem C01_refine_mul_integer : forall (rk : var -> N) a c, c_slack_ok None c ->
  to_mpoly None (c_mul_integer None a c) = mp_scale a (to_mpoly None c).
Proof. exact c_mul_integer_refines. Qed.
Print Assumptions C01_refine_mul_integer.
Theorem C01_refine_add_monomial : forall rk fuel m a c r, c_slack_ok None c ->
  c_add_om None rk fuel m a c = Some r ->
  to_mpoly None r = mp_add_term (mono_of_powers m, a) (to_mpoly None c).
Proof. exact c_add_om_refines. Qed.
Print Assumptions C01_refine_add_monomial.
Theorem C01_refine_normalize : forall (rk : var -> N) c, c_slack_ok None c ->
  to_mpoly None (c_normalize None c) = to_mpoly None c.
Proof. exact c_normalize_refines. Qed.
Print Assumptions C01_refine_normalize.
Theorem C01_refine_ensure_capacity : forall (rk : var -> N) x cap c, c_slack_ok None c -> (1 <= cap)%N ->
  to_mpoly None (c_ensure_capacity x cap c) = to_mpoly None c.
Proof. exact c_ensure_capacity_refines. Qed.
Print Assumptions C01_refine_ensure_capacity.
(* shift by a power of the main variable; s0 is the output after coefficient_assign (a copy of the operand, or the
   operand itself WITH ITS SLACK when the output is the operand): this is the operation that loses terms with the
   pre-repair ensure_capacity (History_C01.C01_shl_in_place_prefix_refuted) *)
Theorem C01_refine_shl : forall (rk : var -> N) s0 x n, c_slack_ok None s0 ->
  to_mpoly None (c_shl None s0 x n) = mp_mul (to_mpoly None s0) (mp_var_pow x (N.of_nat n)).
Proof. exact c_shl_refines. Qed.
Print Assumptions C01_refine_shl.
(* the variable orders of libpoly are injective rank functions *)
Theorem C01_order_rank_injective : forall ord x y, rk_of ord x = rk_of ord y -> x = y.
Proof. exact rk_of_inj. Qed.
Print Assumptions C01_order_rank_injective.

(* refinement over Z_M: same statements by denotation, in every ring R with M = 0 *)
Theorem C01_refine_add_Zm : forall M, (0 < M)%SZ -> forall rk, (forall x y, rk x = rk y -> x = y) ->
  forall (R : comRingType), zr R M = 0 -> forall (rho : var -> R) fuel a b r,
  c_slack_ok (Some M) a -> c_slack_ok (Some M) b -> c_add (Some M) rk fuel a b = Some r ->
  mp_den rho (to_mpoly (Some M) r) =
  mp_den rho (mp_reduce (Some M) (mp_add (to_mpoly (Some M) a) (to_mpoly (Some M) b))).
Proof. exact c_add_refines_Zm. Qed.
Print Assumptions C01_refine_add_Zm.
Theorem C01_refine_sub_Zm : forall M, (0 < M)%SZ -> forall rk, (forall x y, rk x = rk y -> x = y) ->
  forall (R : comRingType), zr R M = 0 -> forall (rho : var -> R) fuel a b r,
  c_slack_ok (Some M) a -> c_slack_ok (Some M) b -> c_sub (Some M) rk fuel a b = Some r ->
  mp_den rho (to_mpoly (Some M) r) =
  mp_den rho (mp_reduce (Some M) (mp_sub (to_mpoly (Some M) a) (to_mpoly (Some M) b))).
Proof. exact c_sub_refines_Zm. Qed.
Print Assumptions C01_refine_sub_Zm.
Theorem C01_refine_neg_Zm : forall M, (0 < M)%SZ -> forall (rk : var -> N) (R : comRingType), zr R M = 0 ->
  forall (rho : var -> R) inplace c, c_slack_ok (Some M) c ->
  mp_den rho (to_mpoly (Some M) (c_neg (Some M) inplace c)) =
  mp_den rho (mp_reduce (Some M) (mp_neg (to_mpoly (Some M) c))).
Proof. exact c_neg_refines_Zm. Qed.
Print Assumptions C01_refine_neg_Zm.
Theorem C01_refine_mul_integer_Zm : forall M, (0 < M)%SZ -> forall (rk : var -> N) (R : comRingType), zr R M = 0 ->
  forall (rho : var -> R) a c, c_slack_ok (Some M) c ->
  mp_den rho (to_mpoly (Some M) (c_mul_integer (Some M) a c)) =
  mp_den rho (mp_reduce (Some M) (mp_scale a (to_mpoly (Some M) c))).
Proof. exact c_mul_integer_refines_Zm. Qed.
Print Assumptions C01_refine_mul_integer_Zm.
Theorem C01_refine_add_monomial_Zm : forall M, (0 < M)%SZ -> forall rk (R : comRingType), zr R M = 0 ->
  forall (rho : var -> R) fuel m a c r, c_slack_ok (Some M) c -> c_add_om (Some M) rk fuel m a c = Some r ->
  mp_den rho (to_mpoly (Some M) r) =
  mp_den rho (mp_reduce (Some M) (mp_add_term (mono_of_powers m, a) (to_mpoly (Some M) c))).
Proof. exact c_add_om_refines_Zm. Qed.
Print Assumptions C01_refine_add_monomial_Zm.

Theorem C01_refine_shl_Zm : forall M, (0 < M)%SZ -> forall (rk : var -> N) (R : comRingType), zr R M = 0 ->
  forall (rho : var -> R) s0 x n, c_slack_ok (Some M) s0 ->
  mp_den rho (to_mpoly (Some M) (c_shl (Some M) s0 x n)) =
  mp_den rho (mp_reduce (Some M) (mp_mul (to_mpoly (Some M) s0) (mp_var_pow x (N.of_nat n)))).
Proof. exact c_shl_refines_Zm. Qed.
Print Assumptions C01_refine_shl_Zm.

(* what is NOT proved about the faithful model (mul, add_mul, sub_mul, pow, derivative, reorder refine the
   reference; tied by the differential run of both models on every generated case instead) *)
Definition C01_run_refines_full_statement : Prop :=
  forall K F ord pool ops s', pool_ok K (ord, pool) -> c_run K F (ord, pool) ops = Some s' ->
    map (to_mpoly K) (snd s') = snd (ref_run K (ord, map (to_mpoly K) pool) ops).

(* ===== 6. Univariate polynomials: the reference arithmetic of UPoly.v is arithmetic in MathComp's {poly Z},
   canonical form = polyseq (no leading zeros, zero = []), evaluation = horner *)
Theorem C01_upoly_add : forall p q : seq Z, Poly (padd p q) = Poly p + Poly q :> {poly Z}.
Proof. exact Poly_padd. Qed.
Print Assumptions C01_upoly_add.
Theorem C01_upoly_sub : forall p q : seq Z, Poly (psub p q) = Poly p - Poly q :> {poly Z}.
Proof. exact Poly_psub. Qed.
Print Assumptions C01_upoly_sub.
Theorem C01_upoly_neg : forall p : seq Z, Poly (pneg p) = - Poly p :> {poly Z}.
Proof. exact Poly_pneg. Qed.
Print Assumptions C01_upoly_neg.
Theorem C01_upoly_mul : forall p q : seq Z, Poly (pmul p q) = Poly p * Poly q :> {poly Z}.
Proof. exact Poly_pmul. Qed.
Print Assumptions C01_upoly_mul.
Theorem C01_upoly_mul_c : forall (c : Z) (p : seq Z), Poly (pscale c p) = c *: Poly p :> {poly Z}.
Proof. exact Poly_pscale. Qed.
Print Assumptions C01_upoly_mul_c.
Theorem C01_upoly_pow : forall (p : seq Z) n, Poly (ppow p n) = Poly p ^+ n :> {poly Z}.
Proof. exact Poly_ppow. Qed.
Print Assumptions C01_upoly_pow.
Theorem C01_upoly_derivative : forall p : seq Z, Poly (pderiv p) = (Poly p)^`() :> {poly Z}.
Proof. exact Poly_pderiv. Qed.
Print Assumptions C01_upoly_derivative.
Theorem C01_upoly_shift : forall k (p : seq Z), Poly (pshift k p) = Poly p * 'X^k :> {poly Z}.
Proof. exact Poly_pshift. Qed.
Print Assumptions C01_upoly_shift.
Theorem C01_upoly_eval_integer : forall (p : seq Z) (x : Z), (Poly p).[x] = peval p x.
Proof. exact horner_peval. Qed.
Print Assumptions C01_upoly_eval_integer.
Theorem C01_upoly_canonical : forall p : seq Z, polyseq (Poly p) = pnorm p.
Proof. exact polyseq_Poly_pnorm. Qed.
Print Assumptions C01_upoly_canonical.

(* ===== 7. Observers / small transformers of the univariate type (API coverage): the reference predictions of
   CoefficientObs.v in {poly Z}.  (The multivariate observers is_linear, lc chain, reductum, get_coefficient,
   to_univariate_m, monomial gcd are compared with the library by the correspondence only.) *)
Theorem C01_upoly_subst_x_neg : forall p : seq Z, Poly (psubst_neg p) = Poly p \Po (- 'X) :> {poly Z}.
Proof. exact Poly_psubst_neg. Qed.
Print Assumptions C01_upoly_subst_x_neg.
Theorem C01_upoly_subst_x_pow : forall (n : nat) (p : seq Z), (0 < n)%N ->
  Poly (psubst_pow n p) = Poly p \Po 'X^n :> {poly Z}.
Proof. exact Poly_psubst_pow. Qed.
Print Assumptions C01_upoly_subst_x_pow.
Theorem C01_upoly_construct_power : forall (d : nat) (c : Z), Poly (ppower d c) = c *: 'X^d :> {poly Z}.
Proof. exact Poly_ppower. Qed.
Print Assumptions C01_upoly_construct_power.
Theorem C01_upoly_reverse_coef : forall (p : seq Z) (i : nat), (i < size (pnorm p))%N ->
  (Poly (preverse p))`_i = (Poly p)`_((size (pnorm p)).-1 - i).
Proof. exact Poly_prev_coef. Qed.
Print Assumptions C01_upoly_reverse_coef.
Theorem C01_upoly_sgn_at_integer : forall (p : seq Z) (x : Z), psgn_at_int None p x = Z.sgn ((Poly p).[x]).
Proof. exact psgn_at_int_horner. Qed.
Print Assumptions C01_upoly_sgn_at_integer.
(* sign at a rational / dyadic point a/b, b > 0: the sign of b^len * p(a/b) = \sum_i c_i a^i b^(len-i) *)
Theorem C01_upoly_sgn_at_rational : forall (p : seq Z) (a b : Z), (0 < b)%SZ ->
  psgn_at_rat p a b = Z.sgn (hom_sum p a b).
Proof. exact psgn_at_rat_spec. Qed.
Print Assumptions C01_upoly_sgn_at_rational.
Theorem C01_upoly_hom_eval : forall (p : seq Z) (a b : Z),
  (peval_hom_aux p a b).2 = b ^+ size p /\ (peval_hom_aux p a b).1 * b = hom_sum p a b.
Proof. exact peval_hom_aux_spec. Qed.
Print Assumptions C01_upoly_hom_eval.

(* ===== non-vacuity *)
Example C01_ex_wf : mp_wf [:: ([:: (1%num, 1%num)], (-2)%SZ); ([:: (0%num, 2%num); (1%num, 1%num)], 3%SZ); ([::], 5%SZ)] = true.
Proof. by vm_compute. Qed.
Example C01_ex_pool : exists c, c_of_terms None (rk_of [:: 0%num]) 50%N [:: ([:: (0%num, 3%N)], 1%SZ); ([::], 1%SZ)] = Some c
                               /\ pool_ok None ([:: 0%num], [:: c]).
Proof. eexists; split; [vm_compute; reflexivity|]. unfold pool_ok; simpl. constructor; [vm_compute; reflexivity|constructor]. Qed.
Example C01_ex_add : c_add None (rk_of [:: 0%num]) 50%N (CRec 0%num 2%N [:: CNum 1%SZ; CNum 1%SZ]) (CRec 0%num 2%N [:: CNum 1%SZ; CNum (-1)%SZ]) = Some (CNum 2%SZ).
Proof. by vm_compute. Qed.
Example C01_ex_Zm : mp_map_coeff (ring_norm (Some 6%SZ)) [:: ([:: (0%num, 1%num)], 4%SZ); ([::], 6%SZ)] = [:: ([:: (0%num, 1%num)], (-2)%SZ)].
Proof. by vm_compute. Qed.
