(* C13 - executable model of libpoly's real feasibility sets and of the interval comparison underneath.
   Sources mirrored (case splits and statement order kept):
     src/interval/interval.c       lp_interval_construct / _construct_point / _construct_copy / _set_b /
                                   _collapse_to / _get_lower_bound / _get_upper_bound / _cmp_value / _contains /
                                   _cmp_lower_bounds / _cmp_upper_bounds / _cmp / _cmp_with_intersect /
                                   _contains_int / _count_int
     src/polynomial/feasibility_set.c   _is_empty / _is_full / _is_point / _contains / _intersect_with_status /
                                   interval_sort_for_union / _add / _to_interval / _contains_int / _count_int /
                                   _is_point_int

   The carrier.  All order-only algorithms look at end points through lp_value_cmp alone, so the model is
   written over an arbitrary type T with a three-valued comparison [cmp] (Lt / Eq / Gt for a negative / zero /
   positive int).  -inf and +inf are ordinary carrier elements ([minf], [pinf]); the only place where libpoly
   looks at the *type tag* of an end point (lp_feasibility_set_is_full) is modelled by comparing with them, which
   is equivalent because lp_value_cmp returns 0 against -inf exactly for -inf.  The drivers instantiate T with Z:
   the rank of the end point in a fixed sorted pool of lp_value_t (rank 0 = -inf, last rank = +inf).
   The arithmetic operations (contains_int, count_int, is_point_int) are modelled over extended rationals
   [xq] (pairs from Scalar.v).

   An assertion failure of the C code (abort) is [None].  No proofs in this file. *)
From Coq Require Import ZArith List Bool.
From LP Require Import Scalar.
Import ListNotations.

Definition isLt (c : comparison) : bool := match c with Lt => true | _ => false end.
Definition isEq (c : comparison) : bool := match c with Eq => true | _ => false end.
Definition isGt (c : comparison) : bool := match c with Gt => true | _ => false end.

(* lp_interval_cmp_t, in the order of the enum *)
Inductive rel :=
  | LT_NO        (* LP_INTERVAL_CMP_LT_NO_INTERSECT        I1: (  )      I2:      (   ) *)
  | LT_WI        (* LP_INTERVAL_CMP_LT_WITH_INTERSECT      I1: (   )     I2:   (   )    *)
  | LT_WI_I1     (* LP_INTERVAL_CMP_LT_WITH_INTERSECT_I1   I1: (   )     I2: (     )    *)
  | LEQ_WI_I2    (* LP_INTERVAL_CMP_LEQ_WITH_INTERSECT_I2  I1: (     ]   I2:   (   ]    *)
  | REQ          (* LP_INTERVAL_CMP_EQ *)
  | GEQ_WI_I1    (* LP_INTERVAL_CMP_GEQ_WITH_INTERSECT_I1  I1:   (   ]   I2: (     ]    *)
  | GT_WI_I2     (* LP_INTERVAL_CMP_GT_WITH_INTERSECT_I2   I1: (       ) I2: (    )     *)
  | GT_WI        (* LP_INTERVAL_CMP_GT_WITH_INTERSECT      I1:   (    )  I2: (    )     *)
  | GT_NO.       (* LP_INTERVAL_CMP_GT_NO_INTERSECT *)

(* lp_feasibility_set_intersect_status_t *)
Inductive status := ST_S1 | ST_S2 | ST_NEW | ST_EMPTY.

Section Carrier.
Variable T : Type.
Variable cmp : T -> T -> comparison.      (* sign of lp_value_cmp *)
Variables minf pinf : T.                  (* the values of type LP_VALUE_MINUS_INFINITY / PLUS_INFINITY *)

(* struct lp_interval_struct.  For a point the C code does not construct b; the model keeps b := a there so
   that two intervals with the same observable content are equal records. *)
Record itv := mkItv { ia : T; ib : T; ia_open : bool; ib_open : bool; ipt : bool }.

Definition get_lb (X : itv) : T := ia X.
Definition get_ub (X : itv) : T := if ipt X then ia X else ib X.

(* lp_interval_construct: assert(cmp <= 0); equal ends: assert(!a_open && !b_open), point *)
Definition itv_construct (a : T) (a_open : bool) (b : T) (b_open : bool) : option itv :=
  match cmp a b with
  | Gt => None
  | Lt => Some (mkItv a b a_open b_open false)
  | Eq => if a_open || b_open then None else Some (mkItv a a false false true)
  end.

Definition itv_construct_point (a : T) : itv := mkItv a a false false true.

(* lp_interval_construct_copy: b is copied only when not a point *)
Definition itv_construct_copy (X : itv) : itv :=
  mkItv (ia X) (if ipt X then ia X else ib X) (ia_open X) (ib_open X) (ipt X).

(* lp_interval_collapse_to *)
Definition itv_collapse_to (X : itv) (v : T) : itv := mkItv v v false false true.

(* lp_interval_set_b *)
Definition itv_set_b (X : itv) (b : T) (b_open : bool) : option itv :=
  match cmp (ia X) b with
  | Gt => None                                           (* assert(cmp <= 0) *)
  | Eq => if ia_open X || b_open then None               (* assert(!X->a_open && !b_open) *)
          else Some (itv_collapse_to X b)
  | Lt => Some (mkItv (ia X) b (ia_open X) b_open false)  (* both the point and the non-point branch *)
  end.

(* lp_interval_cmp_value: Eq when v in X, Gt when v is below X, Lt when v is above X *)
Definition itv_cmp_value (X : itv) (v : T) : comparison :=
  let cmp_a_v := cmp (ia X) v in
  if ipt X then cmp_a_v else
  if ia_open X && negb (isLt cmp_a_v) then Gt else          (* a_open && cmp_a_v >= 0 *)
  if negb (ia_open X) && isGt cmp_a_v then Gt else          (* !a_open && cmp_a_v > 0 *)
  let cmp_v_b := cmp v (ib X) in
  if ib_open X && negb (isLt cmp_v_b) then Lt else
  if negb (ib_open X) && isGt cmp_v_b then Lt else
  Eq.

Definition itv_contains (X : itv) (v : T) : bool := isEq (itv_cmp_value X v).

(* lp_interval_cmp_lower_bounds *)
Definition cmp_lower_bounds (I1 I2 : itv) : comparison :=
  match cmp (get_lb I1) (get_lb I2) with
  | Eq => if Bool.eqb (ia_open I1) (ia_open I2) then Eq
          else if ia_open I1 then Gt       (* (a, b) > [a, b) *)
          else Lt
  | c => c
  end.

(* lp_interval_cmp_upper_bounds *)
Definition cmp_upper_bounds (I1 I2 : itv) : comparison :=
  match cmp (get_ub I1) (get_ub I2) with
  | Eq => if Bool.eqb (ib_open I1) (ib_open I2) then Eq
          else if ib_open I1 then Lt       (* (a, b) < (a, b] *)
          else Gt
  | c => c
  end.

(* lp_interval_cmp_with_intersect(I1, I2, P).  [withP] = (P != 0).  Result: the relation and, when P is
   given and written, its new value (P is left untouched in the two NO_INTERSECT cases).  None = an assert
   of the C code fails. *)
Definition cmp_with_intersect (withP : bool) (I1 I2 : itv) : option (rel * option itv) :=
  let ret (r : rel) (p : itv) := Some (r, if withP then Some p else None) in
  let cmp_ub := cmp_upper_bounds I1 I2 in
  let cmp_lb := cmp_lower_bounds I1 I2 in
  if isEq cmp_ub && isEq cmp_lb then ret REQ (itv_construct_copy I1) else
  if isLt cmp_ub && isGt cmp_lb then ret LT_WI_I1 (itv_construct_copy I1) else
  if isGt cmp_ub && isLt cmp_lb then ret GT_WI_I2 (itv_construct_copy I2) else
  if isEq cmp_ub && isGt cmp_lb then ret GEQ_WI_I1 (itv_construct_copy I1) else
  if isEq cmp_ub && isLt cmp_lb then ret LEQ_WI_I2 (itv_construct_copy I2) else
  if isEq cmp_lb && isGt cmp_ub then ret GT_WI_I2 (itv_construct_copy I2) else
  if isEq cmp_lb && isLt cmp_ub then ret LT_WI_I1 (itv_construct_copy I1) else
  if isLt cmp_ub then
    if negb (isLt cmp_lb) then None else                              (* assert(cmp_lb < 0) *)
    let c0 := cmp (get_ub I1) (get_lb I2) in
    let c := if isEq c0 && (ib_open I1 || ia_open I2) then Lt else c0 in
    match c with
    | Eq => if ib_open I1 || ia_open I2 then None                      (* assert(!I1->b_open && !I2->a_open) *)
            else ret LT_WI (itv_construct_point (ia I2))
    | Lt => Some (LT_NO, None)
    | Gt => if withP then
              match itv_construct (get_lb I2) (ia_open I2) (get_ub I1) (ib_open I1) with
              | None => None
              | Some p => Some (LT_WI, Some p)
              end
            else Some (LT_WI, None)
    end
  else
    if negb (isGt cmp_ub) then None else                              (* assert(cmp_ub > 0) *)
    if negb (isGt cmp_lb) then None else                              (* assert(cmp_lb > 0) *)
    let c0 := cmp (get_lb I1) (get_ub I2) in
    let c := if isEq c0 && (ia_open I1 || ib_open I2) then Gt else c0 in
    match c with
    | Eq => if ia_open I1 || ib_open I2 then None
            else ret GT_WI (itv_construct_point (ia I1))
    | Lt => if withP then
              match itv_construct (get_lb I1) (ia_open I1) (get_ub I2) (ib_open I2) with
              | None => None
              | Some p => Some (GT_WI, Some p)
              end
            else Some (GT_WI, None)
    | Gt => Some (GT_NO, None)
    end.

(* lp_interval_cmp = lp_interval_cmp_with_intersect(I1, I2, 0) *)
Definition itv_cmp (I1 I2 : itv) : option rel :=
  match cmp_with_intersect false I1 I2 with Some (r, _) => Some r | None => None end.

(* ------------------------------------------------------------------ feasibility sets: lists of intervals *)

Definition fs_is_empty (s : list itv) : bool := match s with [] => true | _ => false end.

Definition fs_is_full (s : list itv) : bool :=
  match s with
  | [X] => isEq (cmp (get_lb X) minf) && isEq (cmp (get_ub X) pinf)
  | _ => false
  end.

Definition fs_is_point (s : list itv) : bool :=
  match s with [X] => ipt X | _ => false end.

(* lp_feasibility_set_contains: binary search over indices l <= m < r.  fuel = size + 1 always suffices
   (proved); an index out of range is an abort. *)
Fixpoint bsearch (fuel : nat) (s : list itv) (v : T) (l r : nat) : option bool :=
  match fuel with
  | O => None
  | S f =>
    if Nat.leb r l then Some false else
    let m := (l + Nat.div (r - l) 2)%nat in
    match nth_error s m with
    | None => None
    | Some X =>
      match itv_cmp_value X v with
      | Gt => bsearch f s v l m               (* v below X *)
      | Lt => bsearch f s v (S m) r           (* v above X *)
      | Eq => Some true
      end
    end
  end.

Definition fs_contains (s : list itv) (v : T) : option bool :=
  bsearch (S (length s)) s v 0%nat (length s).

(* lp_feasibility_set_intersect_with_status: the scan.  The C loop keeps all_s1 / all_s2 as variables that are
   only ever cleared; here every step returns the flags of the rest of the scan and clears the same ones
   ([k1]/[k2] = false).  [take] = intervals_size++ (P, written by the comparison, is kept). *)
Definition isect_step (take : bool) (P : option itv) (k1 k2 : bool)
    (rest : option (list itv * bool * bool)) : option (list itv * bool * bool) :=
  match rest with
  | None => None
  | Some (r, f1, f2) =>
    if take then
      match P with
      | Some p => Some (p :: r, f1 && k1, f2 && k2)
      | None => None
      end
    else Some (r, f1 && k1, f2 && k2)
  end.

Fixpoint isect_loop (s1 : list itv) : list itv -> option (list itv * bool * bool) :=
  fix inner (s2 : list itv) : option (list itv * bool * bool) :=
    match s1, s2 with
    | [], [] => Some ([], true, true)
    | [], _ :: _ => Some ([], true, false)           (* s2_i < s2->size  =>  all_s2 = 0 *)
    | _ :: _, [] => Some ([], false, true)           (* s1_i < s1->size  =>  all_s1 = 0 *)
    | I1 :: t1, I2 :: t2 =>
      match cmp_with_intersect true I1 I2 with
      | None => None
      | Some (r, P) =>
        match r with
        | LT_NO     => isect_step false P false true  (isect_loop t1 s2)     (* s1_i++; all_s1 = 0 *)
        | LT_WI     => isect_step true  P false false (isect_loop t1 s2)     (* s1_i++; all_s1 = all_s2 = 0 *)
        | LT_WI_I1  => isect_step true  P true  false (isect_loop t1 s2)     (* s1_i++; all_s2 = 0 *)
        | LEQ_WI_I2 => isect_step true  P false true  (isect_loop t1 t2)     (* both++; all_s1 = 0 *)
        | REQ       => isect_step true  P true  true  (isect_loop t1 t2)     (* both++ *)
        | GEQ_WI_I1 => isect_step true  P true  false (isect_loop t1 t2)     (* both++; all_s2 = 0 *)
        | GT_WI_I2  => isect_step true  P false true  (inner t2)             (* s2_i++; all_s1 = 0 *)
        | GT_WI     => isect_step true  P false false (inner t2)             (* s2_i++; all_s1 = all_s2 = 0 *)
        | GT_NO     => isect_step false P true  false (inner t2)             (* s2_i++; all_s2 = 0 *)
        end
      end
    end.

Definition fs_intersect (s1 s2 : list itv) : option (list itv * status) :=
  match s1, s2 with
  | [], _ => Some ([], ST_EMPTY)
  | _, [] => Some ([], ST_EMPTY)
  | _, _ =>
    match isect_loop s1 s2 with
    | None => None
    | Some (r, all_s1, all_s2) =>
      Some (r, if all_s1 then ST_S1
               else if all_s2 then ST_S2
               else match r with [] => ST_EMPTY | _ => ST_NEW end)
    end
  end.

(* interval_sort_for_union: the qsort comparator *)
Definition sort_for_union (I1 I2 : itv) : option comparison :=
  match itv_cmp I1 I2 with
  | None => None
  | Some r => Some (match r with
                    | LT_NO => Lt | LT_WI => Lt | LT_WI_I1 => Gt | LEQ_WI_I2 => Lt | REQ => Eq
                    | GEQ_WI_I1 => Gt | GT_WI_I2 => Lt | GT_WI => Gt | GT_NO => Gt
                    end)
  end.

(* qsort is modelled by insertion sort w.r.t. the comparator (FeasSetProofs: the comparator is a total order
   whose Eq is equality, so every comparator-sorted permutation is this list) *)
Fixpoint sort_insert (x : itv) (l : list itv) : option (list itv) :=
  match l with
  | [] => Some [x]
  | y :: t =>
    match sort_for_union x y with
    | None => None
    | Some Gt => match sort_insert x t with Some t' => Some (y :: t') | None => None end
    | Some _ => Some (x :: l)
    end
  end.

Fixpoint sort_intervals (l : list itv) : option (list itv) :=
  match l with
  | [] => Some []
  | x :: t => match sort_intervals t with Some t' => sort_insert x t' | None => None end
  end.

(* the normalisation loop of lp_feasibility_set_add: [cur] is s->intervals[keep-1], [rest] the intervals i.. *)
Fixpoint fuse (cur : itv) (rest : list itv) : option (list itv) :=
  match rest with
  | [] => Some [cur]
  | I2 :: t =>
    match itv_cmp cur I2 with
    | None => None
    | Some r =>
      let do_merge := match itv_set_b cur (get_ub I2) (ib_open I2) with
                      | Some cur' => fuse cur' t
                      | None => None
                      end in
      let do_keep := match fuse I2 t with Some r' => Some (cur :: r') | None => None end in
      match r with
      | LT_NO => if isEq (cmp (get_ub cur) (get_lb I2)) && (negb (ib_open cur) || negb (ia_open I2))
                 then do_merge else do_keep
      | LT_WI => do_merge
      | LT_WI_I1 => None                 (* assert(0): I2 should have been first *)
      | LEQ_WI_I2 => do_merge
      | REQ => do_merge
      | GEQ_WI_I1 => do_merge
      | GT_WI_I2 => fuse cur t           (* ignore = 1 *)
      | GT_WI => None                    (* assert(0) *)
      | GT_NO => None                    (* assert(0) *)
      end
    end
  end.

(* the part of lp_feasibility_set_add after the sort, for an arbitrary arrangement [l] of the intervals *)
Definition fuse_sorted (l : list itv) : option (list itv) :=
  match l with
  | [] => Some []
  | c :: rest => fuse c rest
  end.

(* lp_feasibility_set_add(s, from) *)
Definition fs_add (s from : list itv) : option (list itv) :=
  if fs_is_empty from then Some s else
  if fs_is_full s then Some s else
  match sort_intervals (s ++ from) with
  | None => None
  | Some l => fuse_sorted l
  end.

(* lp_feasibility_set_to_interval: assert(set->size > 0) *)
Definition fs_to_interval (s : list itv) : option itv :=
  match s with
  | [] => None
  | first :: _ =>
    let lst := last s first in
    itv_construct (ia first) (ia_open first) (get_ub lst) (ib_open lst)
  end.

End Carrier.

Arguments mkItv {T}.
Arguments ia {T}. Arguments ib {T}. Arguments ia_open {T}. Arguments ib_open {T}. Arguments ipt {T}.
Arguments get_lb {T}. Arguments get_ub {T}.
Arguments itv_construct {T}. Arguments itv_construct_point {T}. Arguments itv_construct_copy {T}.
Arguments itv_collapse_to {T}. Arguments itv_set_b {T}. Arguments itv_cmp_value {T}. Arguments itv_contains {T}.
Arguments cmp_lower_bounds {T}. Arguments cmp_upper_bounds {T}. Arguments cmp_with_intersect {T}.
Arguments itv_cmp {T}.
Arguments fs_is_empty {T}. Arguments fs_is_full {T}. Arguments fs_is_point {T}.
Arguments bsearch {T}. Arguments fs_contains {T}.
Arguments isect_step {T}. Arguments isect_loop {T}. Arguments fs_intersect {T}.
Arguments sort_for_union {T}. Arguments sort_insert {T}. Arguments sort_intervals {T}.
Arguments fuse {T}. Arguments fuse_sorted {T}. Arguments fs_add {T}. Arguments fs_to_interval {T}.

(* ------------------------------------------------------------------ rank instance used by the drivers *)

Definition rk_cmp_with_intersect := @cmp_with_intersect Z Z.compare.
Definition rk_cmp_lower_bounds := @cmp_lower_bounds Z Z.compare.
Definition rk_cmp_upper_bounds := @cmp_upper_bounds Z Z.compare.
Definition rk_cmp_value := @itv_cmp_value Z Z.compare.
Definition rk_intersect := @fs_intersect Z Z.compare.
Definition rk_add := @fs_add Z Z.compare.
Definition rk_contains := @fs_contains Z Z.compare.
Definition rk_is_full := @fs_is_full Z Z.compare.
Definition rk_is_empty := @fs_is_empty Z.
Definition rk_is_point := @fs_is_point Z.
Definition rk_to_interval := @fs_to_interval Z Z.compare.

(* ------------------------------------------------------------------ arithmetic on end points: extended rationals *)
Local Open Scope Z_scope.

Inductive xq := XQMinf | XQFin (q : rat) | XQPinf.

Definition xq_cmp (x y : xq) : comparison :=
  match x, y with
  | XQMinf, XQMinf => Eq
  | XQMinf, _ => Lt
  | _, XQMinf => Gt
  | XQPinf, XQPinf => Eq
  | XQPinf, _ => Gt
  | _, XQPinf => Lt
  | XQFin p, XQFin q => Z.compare (fst p * snd q) (fst q * snd p)    (* sign of q_cmp *)
  end.

Definition xq_is_infinity (x : xq) : bool := match x with XQFin _ => false | _ => true end.
Definition xq_is_integer (x : xq) : bool := match x with XQFin q => q_is_integer q | _ => false end.
Definition xq_ceiling (x : xq) : Z := match x with XQFin q => q_ceiling q | _ => 0 end.   (* assert(0) on infinities: never reached *)
Definition xq_floor (x : xq) : Z := match x with XQFin q => q_floor q | _ => 0 end.

Definition LONG_MAX : Z := 9223372036854775807.
Definition LONG_MIN : Z := -9223372036854775808.
(* lp_integer_fits_int is mpz_fits_slong_p *)
Definition fits_int (n : Z) : bool := (LONG_MIN <=? n) && (n <=? LONG_MAX).

(* lp_interval_contains_int *)
Definition itv_contains_int (X : itv xq) : bool :=
  if xq_is_infinity (ia X) then true else
  let a_int := xq_is_integer (ia X) in
  if ipt X then a_int else
  if negb (ia_open X) && a_int then true else
  if xq_is_infinity (ib X) then true else
  let b_int := xq_is_integer (ib X) in
  if negb (ib_open X) && b_int then true else
  let m := xq_ceiling (ia X) in
  let n := xq_floor (ib X) in
  let m := if a_int then m + 1 else m in
  let n := if b_int then n - 1 else n in
  n >=? m.

(* lp_interval_count_int (long arithmetic; LONG_MAX = "too many") *)
Definition itv_count_int (X : itv xq) : Z :=
  if xq_is_infinity (ia X) then LONG_MAX else
  let a_int := xq_is_integer (ia X) in
  if ipt X then (if a_int then 1 else 0) else
  if xq_is_infinity (ib X) then LONG_MAX else
  let b_int := xq_is_integer (ib X) in
  let result := (if negb (ia_open X) && a_int then 1 else 0) + (if negb (ib_open X) && b_int then 1 else 0) in
  let m := xq_ceiling (ia X) in
  let n := xq_floor (ib X) in
  let m := if a_int then m + 1 else m in
  let n := if b_int then n - 1 else n in
  let n := n - m in
  if 0 <=? n then
    if fits_int n then
      (* repaired code (fixes/C13-count-int-signed-overflow.patch): saturate BEFORE adding.  The code in /repo adds
         first and tests `result < 0`, which is a signed overflow (undefined behaviour) exactly when this
         test is true; with wrap-around it returns the same values. *)
      if n >=? LONG_MAX - result then LONG_MAX else result + (n + 1)
    else LONG_MAX
  else result.

(* lp_feasibility_set_contains_int *)
Fixpoint xs_contains_int (s : list (itv xq)) : bool :=
  match s with
  | [] => false
  | X :: t => if itv_contains_int X then true else xs_contains_int t
  end.

(* lp_feasibility_set_count_int: cnt is the running sum *)
Fixpoint xs_count_int_from (cnt : Z) (s : list (itv xq)) : Z :=
  match s with
  | [] => cnt
  | X :: t =>
    let tmp := itv_count_int X in
    if tmp >=? LONG_MAX - cnt then LONG_MAX else xs_count_int_from (cnt + tmp) t
  end.
Definition xs_count_int (s : list (itv xq)) : Z := xs_count_int_from 0 s.

(* lp_feasibility_set_is_point_int *)
Fixpoint xs_is_point_int_from (cnt : Z) (s : list (itv xq)) : bool :=
  match s with
  | [] => cnt =? 1
  | X :: t =>
    let tmp := itv_count_int X in
    if (1 <? tmp) || (1 <? tmp + cnt) then false else xs_is_point_int_from (cnt + tmp) t
  end.
Definition xs_is_point_int (s : list (itv xq)) : bool := xs_is_point_int_from 0 s.

(* ---- the integer queries look at an end point only through lp_value_is_infinity, lp_value_is_integer,
   lp_value_floor and lp_value_ceiling.  [epi] is that view of an end point; the functions below are the same
   programs as itv_contains_int / itv_count_int / xs_* written over it (FeasSetProofs: they coincide on rational
   end points).  For ALGEBRAIC end points the model driver computes the view with the reference RefAlg
   (rn_is_integer / rn_floor / rn_ceiling: exact) and runs these functions. *)
Inductive epi := EPInf | EPFin (is_int : bool) (fl ce : Z).
Definition epi_is_infinity (e : epi) : bool := match e with EPInf => true | _ => false end.
Definition epi_is_integer (e : epi) : bool := match e with EPFin b _ _ => b | _ => false end.
Definition epi_floor (e : epi) : Z := match e with EPFin _ f _ => f | _ => 0 end.
Definition epi_ceiling (e : epi) : Z := match e with EPFin _ _ c => c | _ => 0 end.
Definition epi_of_xq (x : xq) : epi :=
  match x with XQFin q => EPFin (q_is_integer q) (q_floor q) (q_ceiling q) | _ => EPInf end.
Definition epi_itv (X : itv xq) : itv epi :=
  mkItv (epi_of_xq (ia X)) (epi_of_xq (ib X)) (ia_open X) (ib_open X) (ipt X).

Definition ei_contains_int (X : itv epi) : bool :=
  if epi_is_infinity (ia X) then true else
  let a_int := epi_is_integer (ia X) in
  if ipt X then a_int else
  if negb (ia_open X) && a_int then true else
  if epi_is_infinity (ib X) then true else
  let b_int := epi_is_integer (ib X) in
  if negb (ib_open X) && b_int then true else
  let m := epi_ceiling (ia X) in
  let n := epi_floor (ib X) in
  let m := if a_int then m + 1 else m in
  let n := if b_int then n - 1 else n in
  n >=? m.

Definition ei_count_int (X : itv epi) : Z :=
  if epi_is_infinity (ia X) then LONG_MAX else
  let a_int := epi_is_integer (ia X) in
  if ipt X then (if a_int then 1 else 0) else
  if epi_is_infinity (ib X) then LONG_MAX else
  let b_int := epi_is_integer (ib X) in
  let result := (if negb (ia_open X) && a_int then 1 else 0) + (if negb (ib_open X) && b_int then 1 else 0) in
  let m := epi_ceiling (ia X) in
  let n := epi_floor (ib X) in
  let m := if a_int then m + 1 else m in
  let n := if b_int then n - 1 else n in
  let n := n - m in
  if 0 <=? n then
    if fits_int n then
      if n >=? LONG_MAX - result then LONG_MAX else result + (n + 1)
    else LONG_MAX
  else result.

Fixpoint es_contains_int (s : list (itv epi)) : bool :=
  match s with
  | [] => false
  | X :: t => if ei_contains_int X then true else es_contains_int t
  end.
Fixpoint es_count_int_from (cnt : Z) (s : list (itv epi)) : Z :=
  match s with
  | [] => cnt
  | X :: t =>
    let tmp := ei_count_int X in
    if tmp >=? LONG_MAX - cnt then LONG_MAX else es_count_int_from (cnt + tmp) t
  end.
Definition es_count_int (s : list (itv epi)) : Z := es_count_int_from 0 s.
Fixpoint es_is_point_int_from (cnt : Z) (s : list (itv epi)) : bool :=
  match s with
  | [] => cnt =? 1
  | X :: t =>
    let tmp := ei_count_int X in
    if (1 <? tmp) || (1 <? tmp + cnt) then false else es_is_point_int_from (cnt + tmp) t
  end.
Definition es_is_point_int (s : list (itv epi)) : bool := es_is_point_int_from 0 s.

(* checker for lp_feasibility_set_pick_value / lp_interval_pick_value: the value is in the set (linear scan with
   lp_interval_contains), and it is an integer whenever the set contains one *)
Definition xs_mem (s : list (itv xq)) (v : xq) : bool := existsb (fun X => itv_contains xq_cmp X v) s.
Definition xs_pick_ok (s : list (itv xq)) (v : xq) : bool :=
  xs_mem s v && (if xs_contains_int s then xq_is_integer v else true).

(* the same membership checker on ranks (mixed-kind pool; the driver doubles the ranks so that a value
   strictly between two pool values has a rank of its own) *)
Definition rk_pick_ok (s : list (itv Z)) (v : Z) : bool :=
  match rk_contains s v with Some true => true | _ => false end.
