(* C16 proofs, part 2: the canonical form of MPoly.v is faithful - a canonical polynomial that vanishes at every
   rational point is the empty list - and therefore "the value does not depend on x" implies "x does not
   occur" (used for the resolvent of resolve_fm). *)
From Coq Require Import ZArith NArith List Bool.
From LP Require Import Scalar ScalarProofs MPoly Bounds.
Set Warnings "-notation-overridden,-ambiguous-paths".
From mathcomp Require Import all_ssreflect all_algebra.
From mathcomp Require Import ssrZ zify ring.
Set Warnings "notation-overridden,ambiguous-paths".
From LP Require Import BoundsProofs.
Import Order.Theory GRing.Theory Num.Theory.
Set Implicit Arguments.
Unset Strict Implicit.
Unset Printing Implicit Defensive.
Local Open Scope ring_scope.
Local Arguments Z.mul : simpl never.
Local Arguments Z.add : simpl never.
Local Arguments Z.sub : simpl never.
Local Arguments Z.opp : simpl never.

(* ------------------------------------------------------------------ the monomial order *)
Lemma mono_cmp_trans a b c : mono_cmp a b = Gt -> mono_cmp b c = Gt -> mono_cmp a c = Gt.
Proof.
elim: a b c => [|[x e] a IH] [|[y f] b] [|[z g] c] //=.
case: (N.compare_spec x y) => Hxy //; case: (N.compare_spec y z) => Hyz //.
- subst y z; rewrite N.compare_refl.
  case: (N.compare_spec e f) => Hef //; case: (N.compare_spec f g) => Hfg //.
  + by subst f g; rewrite N.compare_refl; apply: IH.
  + by subst f => _ _; have -> : N.compare e g = Gt by apply/N.compare_gt_iff.
  + by subst g => _ _; have -> : N.compare e f = Gt by apply/N.compare_gt_iff.
  + by move=> _ _; have -> : N.compare e g = Gt by apply/N.compare_gt_iff; lia.
- by subst y => _ _; have -> : N.compare x z = Gt by apply/N.compare_gt_iff.
- by subst z => _ _; have -> : N.compare x y = Gt by apply/N.compare_gt_iff.
- by move=> _ _; have -> : N.compare x z = Gt by apply/N.compare_gt_iff; lia.
Qed.

(* strictly decreasing, pairwise *)
Fixpoint sdec (p : mpoly) : Prop :=
  match p with
  | [::] => True
  | t :: p' => (forall u, In u p' -> mono_cmp t.1 u.1 = Gt) /\ sdec p'
  end.
Definition nzc (p : mpoly) := forall t, In t p -> t.2 <> 0%sZ.

Lemma mp_wf_sdec p : mp_wf p = true -> sdec p /\ nzc p.
Proof.
elim: p => [|[m c] p IH] /=; first by split=> // t [].
move=> /andP [/andP [/andP [_ Hc] Hh] /IH [Hs Hn]]; split; last first.
  by move=> t [<-|/Hn] //=; move/negP: Hc => Hc E; apply: Hc; rewrite E.
split=> // u; case: p Hh Hs {IH Hn} => [|[m' c'] p] // Hh [Hs1 Hs2] /= [<-|Hu] /=.
  by move: Hh; case: (mono_cmp m m').
apply: (@mono_cmp_trans m m'); first by move: Hh; case: (mono_cmp m m').
exact: Hs1.
Qed.

Lemma sdec_filter f p : sdec p -> sdec (List.filter f p).
Proof.
elim: p => [|t p IH] //= [H1 H2]; case: (f t) => /=; last exact: IH.
by split; [move=> u /filter_In [Hu _]; apply: H1 | apply: IH].
Qed.

(* ------------------------------------------------------------------ a univariate polynomial function that is zero on rat has zero coefficients *)
Lemma upoly_zero (a : nat -> rat) n :
  (forall t : rat, \sum_(k < n) a k * t ^+ k = 0) -> forall k, (k < n)%N -> a k = 0.
Proof.
move=> H k Hk; pose P : {poly rat} := \poly_(i < n) a i.
have HP t : P.[t] = 0 by rewrite horner_poly.
have P0 : P = 0.
  apply/eqP/negPn/negP => PN.
  pose rs : seq rat := [seq (i%:R : rat) | i <- iota 0 (size P)].
  have Hu : uniq rs.
    rewrite map_inj_in_uniq ?iota_uniq // => i j _ _ /eqP.
    by rewrite eqr_nat => /eqP.
  have Ha : all (root P) rs by apply/allP => t _; rewrite /root HP.
  by have := max_poly_roots PN Ha Hu; rewrite size_map size_iota ltnn.
by have := coef_poly n a k; rewrite -/P P0 coef0 Hk.
Qed.

(* ------------------------------------------------------------------ faithfulness of the canonical form *)
Section Faithful.
Local Notation Q := rat_realFieldType.
Implicit Types (rho : var -> rat) (p : mpoly).

Definition vars_between (lo : var) (n : nat) p :=
  forall t, In t p -> forall ve, In ve t.1 -> (lo <= ve.1 < lo + N.of_nat n)%num.

(* the terms of y-degree k, with y removed (no re-sorting: y is below every other variable) *)
Definition ypart (y : var) (k : N) p : mpoly :=
  List.map (fun t => (mono_remove y t.1, t.2)) (List.filter (fun t => N.eqb (mono_deg y t.1) k) p).

Lemma evalR_ypart rho y k p : mp_evalR rho (ypart y k p) = dpart rho y k p.
Proof.
rewrite /ypart; elim: p => [|t p IH] //=.
by case: (N.eqb _ k) => /=; rewrite IH ?add0r.
Qed.

Lemma dpart_upd rho y v k p : dpart (upd rho y v) y k p = dpart rho y k p.
Proof.
elim: p => [|t p IH] //=; rewrite IH; case: N.eqb => //.
by rewrite (@mono_evalR_remove_indep _ rho) // => z /N.eqb_spec; rewrite /upd; case: N.eqb.
Qed.

(* a monomial over variables >= y either starts with y or does not contain it *)
Lemma mono_head_or_absent y m : mono_wf m = true -> (forall ve, In ve m -> (y <= ve.1)%num) ->
  (mono_deg y m <> 0%num /\ m = (y, mono_deg y m) :: mono_remove y m) \/
  (mono_deg y m = 0%num /\ mono_remove y m = m).
Proof.
case: m => [|[z e] m]; first by right.
rewrite /mono_wf /= => /andP [/andP [He _] Hm] Hge.
have Hyz : (y <= z)%num by apply: (Hge (z, e)); left.
case: (N.eqb_spec z y) => [E|N].
  subst z; have [_ ->] := mono_wf_from_above Hm (N.le_refl y).
  by left; split=> //; move: He; lia.
right; have Hm' : mono_wf_from (Some y) ((z, e) :: m) = true.
  by rewrite /= He Hm andbT /=; lia.
have [E1 E2] := mono_wf_from_above Hm' (N.le_refl y).
by move: E1 E2; rewrite /= (introF (N.eqb_spec z y) N).
Qed.

Lemma In_mono_remove y m ve : In ve (mono_remove y m) -> In ve m /\ ve.1 <> y.
Proof. by rewrite /mono_remove => /filter_In [H /negP N]; split=> // E; apply: N; rewrite E N.eqb_refl. Qed.

Lemma ypart_inv y k p n lo : sdec p -> mwf p -> nzc p -> vars_between lo n.+1 p -> y = lo ->
  [/\ sdec (ypart y k p), mwf (ypart y k p), nzc (ypart y k p) & vars_between (lo + 1)%num n (ypart y k p)].
Proof.
move=> Hs Hw Hn Hv Ey; subst y; split.
- (* order preserved *)
  rewrite /ypart; elim: p Hs Hw Hv {Hn} => [|t p IH] //= [Ht Hs] Hw Hv.
  have [Hwt Hwp] := mwf_cons Hw.
  have Hvp : vars_between lo n.+1 p by move=> u Hu; apply: Hv; right.
  case E: (N.eqb _ k) => /=; last exact: IH.
  split; last exact: IH.
  move=> u' /in_map_iff [u [<- /filter_In [Hu Eu]]] /=.
  have Htu := Ht _ Hu.
  have Hgt : forall ve, In ve t.1 -> (lo <= ve.1)%num by move=> ve /(Hv t (or_introl erefl)); lia.
  have Hgu : forall ve, In ve u.1 -> (lo <= ve.1)%num by move=> ve /(Hv u (or_intror Hu)); lia.
  move/N.eqb_spec: E => E; move/N.eqb_spec: Eu => Eu.
  move: (mono_head_or_absent Hwt Hgt) (mono_head_or_absent (Hwp _ Hu) Hgu) Htu; rewrite E Eu.
  set rt := mono_remove lo t.1; set ru := mono_remove lo u.1.
  case=> [[N1 E1]|[Z1 E1]]; case=> [[N2 E2]|[Z2 E2]] //.
  + by rewrite E1 E2 /= !N.compare_refl.
  + by rewrite E1 E2.
- by move=> t /in_map_iff [u [<- /filter_In [Hu _]]] /=; apply/mono_wf_remove/Hw.
- by move=> t /in_map_iff [u [<- /filter_In [Hu _]]] /=; apply: Hn.
- move=> t /in_map_iff [u [<- /filter_In [Hu _]]] /= ve /In_mono_remove [Hve Nve].
  by have := Hv _ Hu _ Hve; lia.
Qed.

Lemma canon_faithful n lo p : sdec p -> mwf p -> nzc p -> vars_between lo n p ->
  (forall rho, @mp_evalR Q rho p = 0) -> p = [::].
Proof.
elim: n lo p => [|n IH] lo p Hs Hw Hn Hv H0.
  (* no variables: at most the constant term *)
  have Hm t : In t p -> t.1 = [::].
    by move=> Ht; case E: t.1 => [|ve m] //; have := Hv _ Ht ve; rewrite E /=; move/(_ (or_introl erefl)); lia.
  case: p Hs Hn Hm H0 {Hw Hv} => [|[m c] [|[m' c'] p]] //= Hs Hn Hm H0.
    have Em : m = [::] by apply: (Hm (m, c)); left.
    have := H0 (fun _ => 0); rewrite /= /term_evalR Em /= mulr1 addr0 => /eqP.
    by rewrite ZR_eq0 => /Z.eqb_spec E; case: (Hn (m, c) (or_introl erefl)).
  have Em : m = [::] by apply: (Hm (m, c)); left.
  have Em' : m' = [::] by apply: (Hm (m', c')); right; left.
  by case: Hs => /(_ (m', c') (or_introl erefl)); rewrite Em Em'.
(* eliminate the lowest variable *)
pose y := lo.
pose d := (N.to_nat (mp_degree y p)).+1.
have Hk rho k : (k < d)%N -> dpart rho y (N.of_nat k) p = 0.
  apply: (@upoly_zero (fun k => dpart rho y (N.of_nat k) p) d) => t.
  rewrite -[RHS](H0 (upd rho y t)) (@evalR_split Q (upd rho y t) y p d Hw).
    by apply: eq_bigr => i _; rewrite dpart_upd /upd N.eqb_refl.
  by move=> u /(@mono_deg_le_degree y); rewrite /d ltnS; lia.
case E: p => [|t p'] //; rewrite -E.
have Ht : In t p by rewrite E; left.
pose k := mono_deg y t.1.
have Hkd : (N.to_nat k < d)%N by have := @mono_deg_le_degree y _ _ Ht; rewrite /d /k ltnS; lia.
have [S1 S2 S3 S4] := @ypart_inv y k p n lo Hs Hw Hn Hv erefl.
have Hz : ypart y k p = [::].
  apply: (IH (lo + 1)%num) => // rho.
  by rewrite evalR_ypart -(Nnat.N2Nat.id k); apply: Hk.
have : In (mono_remove y t.1, t.2) (ypart y k p).
  by apply/in_map_iff; exists t; split=> //; apply/filter_In; split=> //; rewrite /k N.eqb_refl.
by rewrite Hz.
Qed.
End Faithful.

(* ------------------------------------------------------------------ value independent of x  =>  x does not occur *)
Section XFree.
Local Notation Q := rat_realFieldType.

Definition mono_bound (m : MPoly.mono) : nat := fold_right (fun ve acc => maxn (N.to_nat ve.1).+1 acc) 0%N m.
Definition mp_bound (p : mpoly) : nat := fold_right (fun t acc => maxn (mono_bound t.1) acc) 0%N p.

Lemma mono_bound_lt m ve : In ve m -> (N.to_nat ve.1 < mono_bound m)%N.
Proof.
elim: m => [|we m IH] //= [->|/IH H]; first by rewrite leq_max ltnSn.
by rewrite leq_max H orbT.
Qed.
Lemma mp_bound_lt p t ve : In t p -> In ve t.1 -> (N.to_nat ve.1 < mp_bound p)%N.
Proof.
elim: p => [|u p IH] //= [->|Ht] Hve; first by rewrite leq_max mono_bound_lt.
by rewrite leq_max (IH Ht Hve) orbT.
Qed.

Lemma evalR_filter_split (rho : var -> rat) (f : MPoly.term -> bool) p :
  mp_evalR rho p = mp_evalR rho (List.filter f p) + mp_evalR rho (List.filter (fun t => ~~ f t) p).
Proof.
elim: p => [|t p IH] /=; first by rewrite addr0.
by rewrite IH; case: (f t) => /=; ring.
Qed.

Theorem xfree_of_indep x p : mp_wf p = true ->
  (forall (rho : var -> rat) v, mp_evalR (upd rho x v) p = mp_evalR rho p) -> mp_degree x p = 0%num.
Proof.
move=> Hwf Hind; have Hw := mp_wf_mwf Hwf; have [Hs Hn] := mp_wf_sdec Hwf.
pose f (t : MPoly.term) := ~~ N.eqb (mono_deg x t.1) 0.
pose px := List.filter f p.
pose p0 := List.filter (fun t => ~~ f t) p.
have H0 (rho : var -> rat) v : mp_evalR (upd rho x v) p0 = mp_evalR rho p0.
  rewrite /p0; elim: p Hw {Hwf Hind Hs Hn px p0} => [|t p IH] Hw //=.
  have [Ht Hp] := mwf_cons Hw.
  case E: (f t) => /=; first exact: IH.
  rewrite IH // /term_evalR (mono_evalR_split (upd rho x v) x Ht) (mono_evalR_split rho x Ht).
  move: E; rewrite /f => /negbFE /N.eqb_spec ->; rewrite !expr0.
  by rewrite (@mono_evalR_remove_indep _ rho (upd rho x v)) // => z /N.eqb_spec; rewrite /upd; case: N.eqb.
have Hx (rho : var -> rat) : mp_evalR (upd rho x 0) px = 0.
  rewrite /px; elim: p Hw {Hwf Hind Hs Hn px p0 H0} => [|t p IH] Hw //=.
  have [Ht Hp] := mwf_cons Hw.
  case E: (f t) => /=; last exact: IH.
  rewrite IH // addr0 /term_evalR (mono_evalR_split (upd rho x 0) x Ht) /upd N.eqb_refl.
  move: E; rewrite /f => /N.eqb_spec E.
  have -> : N.to_nat (mono_deg x t.1) = (N.to_nat (mono_deg x t.1)).-1.+1 by lia.
  by rewrite exprS mul0r !mulr0.
have Hz (rho : var -> rat) : mp_evalR rho px = 0.
  have E1 := evalR_filter_split rho f p; have E2 := evalR_filter_split (upd rho x 0) f p.
  rewrite -/px -/p0 in E1 E2.
  have : mp_evalR rho px = mp_evalR rho p - mp_evalR rho p0 by rewrite E1; ring.
  by rewrite -(Hind rho 0) -(H0 rho 0) E2 Hx => ->; ring.
have Epx : px = [::].
  apply: (@canon_faithful (mp_bound p) 0%num) => //.
  - exact: sdec_filter.
  - by move=> t /filter_In [Ht _]; apply: Hw.
  - by move=> t /filter_In [Ht _]; apply: Hn.
  - move=> t /filter_In [Ht _] ve Hve; have := mp_bound_lt Ht Hve.
    move: ve.1 (mp_bound p) => z b; rewrite /var in z *; lia.
have Hd t : In t p -> mono_deg x t.1 = 0%num.
  move=> Ht; case E: (f t); last by move: E; rewrite /f => /negbFE /N.eqb_spec.
  by have : In t px; [apply/filter_In | rewrite Epx].
by elim: p Hd {Hwf Hind Hw Hs Hn px p0 H0 Hx Hz Epx} => [|t p IH] //= Hd; rewrite (Hd t (or_introl erefl)) IH // => u Hu; apply: Hd; right.
Qed.
End XFree.

(* ------------------------------------------------------------------ the reference arithmetic returns canonical forms *)
Section Closure.

Lemma mono_cmp_antisym a b : mono_cmp a b = Lt -> mono_cmp b a = Gt.
Proof.
elim: a b => [|[x e] a IH] [|[y f] b] //=.
rewrite (N.compare_antisym x y) (N.compare_antisym e f).
case: (N.compare x y) => //=; case: (N.compare e f) => //=; exact: IH.
Qed.

Lemma mp_wf_cons m c p : mp_wf ((m, c) :: p) = true ->
  [/\ mono_wf m = true, c <> 0%sZ, (forall u, In u p -> mono_cmp m u.1 = Gt) & mp_wf p = true].
Proof.
move=> H; have [[H1 _] Hn] := mp_wf_sdec H.
move: H => /= /andP [/andP [/andP [Hm Hc] _] Hp]; split=> //.
by apply: (Hn (m, c)); left.
Qed.

Lemma mp_wf_intro m c p : mono_wf m = true -> c <> 0%sZ -> (forall u, In u p -> mono_cmp m u.1 = Gt) ->
  mp_wf p = true -> mp_wf ((m, c) :: p) = true.
Proof.
move=> Hm Hc Hlt Hp /=; rewrite Hm Hp andbT /=; apply/andP; split.
  by apply/negP => /Z.eqb_spec.
by case: p Hlt {Hp} => [|[m' c'] p] // /(_ (m', c') (or_introl erefl)) /= ->.
Qed.

Lemma mp_add_term_wf t p : mono_wf t.1 = true -> mp_wf p = true -> mp_wf (mp_add_term t p) = true.
Proof.
case: t => m c /= Hm; elim: p => [|[m' c'] p IH] Hp /=.
  case: (Z.eqb_spec c 0) => // Hc; apply: mp_wf_intro => //.
case: (Z.eqb_spec c 0) => // Hc.
have [Hm' Hc' Hlt Hp'] := mp_wf_cons Hp.
case E: (mono_cmp m m').
- move/mono_cmp_eq: E => E; subst m'.
  case: (Z.eqb_spec (c + c') 0) => // Hcc; exact: mp_wf_intro.
- apply: mp_wf_intro => //; last exact: IH.
  move=> u /In_add_term [->|[u' Hu' ->]] /=; first exact: mono_cmp_antisym.
  exact: Hlt.
- apply: mp_wf_intro => // u [<-|Hu] //=.
  by apply: (@mono_cmp_trans m m') => //; apply: Hlt.
Qed.

Lemma mp_add_wf p q : mwf p -> mp_wf q = true -> mp_wf (mp_add p q) = true.
Proof.
rewrite /mp_add; elim: p => [|t p IH] //= Hw Hq.
have [Ht Hp] := mwf_cons Hw; apply: mp_add_term_wf => //; exact: IH.
Qed.

Lemma mwf_add p q : mwf p -> mwf q -> mwf (mp_add p q).
Proof.
rewrite /mp_add; elim: p => [|t p IH] //= Hw Hq.
have [Ht Hp] := mwf_cons Hw.
by move=> u /In_add_term [->|[u' Hu' ->]] //; apply: (IH Hp Hq).
Qed.

Lemma mono_mul_wf lo a b : mono_wf_from lo a = true -> mono_wf_from lo b = true ->
  mono_wf_from lo (mono_mul a b) = true.
Proof.
elim: a lo b => [|[x e] a IHa] lo b //.
elim: b lo => [|[y f] b IHb] lo // Ha Hb.
move: (Ha) (Hb) => /= /andP [/andP [He Hlx] Ha'] /andP [/andP [Hf Hly] Hb'].
case: (N.compare_spec x y) => Hxy /=.
- subst y; rewrite Hlx IHa // andbT /=; move: He Hf; lia.
- rewrite He Hlx /= IHa //=; rewrite Hf Hb' andbT /=; lia.
- rewrite Hf Hly /=; apply: IHb => //=; rewrite He Ha' andbT /=; lia.
Qed.

Lemma mwf_mul_term t q : mono_wf t.1 = true -> mwf q -> mwf (mp_mul_term t q).
Proof.
rewrite /mp_mul_term => Ht; elim: q => [|u q IH] //= Hw.
have [Hu Hq] := mwf_cons Hw.
move=> v /In_add_term [->|[v' Hv' ->]] /=; first exact: mono_mul_wf.
exact: (IH Hq).
Qed.

Lemma mp_mul_term_wf t q : mono_wf t.1 = true -> mwf q -> mp_wf (mp_mul_term t q) = true.
Proof.
rewrite /mp_mul_term => Ht; elim: q => [|u q IH] //= Hw.
have [Hu Hq] := mwf_cons Hw.
by apply: mp_add_term_wf; [apply: mono_mul_wf | apply: IH].
Qed.

Lemma mp_mul_wf p q : mwf p -> mwf q -> mp_wf (mp_mul p q) = true.
Proof.
rewrite /mp_mul; elim: p => [|t p IH] //= Hw Hq.
have [Ht Hp] := mwf_cons Hw.
by apply: mp_add_wf; [apply: mwf_mul_term | apply: IH].
Qed.

Lemma mwf_mul p q : mwf p -> mwf q -> mwf (mp_mul p q).
Proof. by move=> Hp Hq; apply/mp_wf_mwf/mp_mul_wf. Qed.

Lemma mwf_var1 x : mwf (mp_var_pow x 1).
Proof. by move=> t [<-|[]]. Qed.

End Closure.

(* ------------------------------------------------------------------ resolve_fm: the eliminated variable does not occur *)
Section FMFree.
Local Notation Q := rat_realFieldType.

(* the decomposition of a successful run, with the SAME witnesses for every ordered field *)
Lemma resolve_fm_inv_gen sgnM ord p1 c1 p2 c2 R0 cR0 A0 : mwf p1 -> mwf p2 ->
  let r := resolve_fm sgnM ord p1 c1 p2 c2 R0 cR0 A0 in
  fm_ok r = true ->
  exists x pc1 pc2 c1' c2' s1' s2',
  [/\ bd_top_var ord p1 = Some x,
      fm_table c1' c2' = Some (fm_cond r),
      fm_stest c1' c2' (sgn_m sgnM pc1.1) (sgn_m sgnM pc2.1) = Some (s1', s2'),
      fm_R r = mp_add (mp_mul (fm_poly x pc1) (if (0 <? s2')%sZ then pc2.1 else mp_neg pc2.1))
                      (mp_mul (fm_poly x pc2) (if (0 <? s1')%sZ then pc1.1 else mp_neg pc1.1)) &
      [/\ mwf pc1.1, mwf pc1.2, mwf pc2.1 & mwf pc2.2] /\
      (forall R : realFieldType, [/\ xindep R x pc1.1, xindep R x pc1.2, xindep R x pc2.1 & xindep R x pc2.2]) /\
      (forall (R : realFieldType) (rho : var -> R), assum_ok sgnM rho (fm_assum r) ->
         (sgR (mp_evalR rho pc1.1) = sgn_m sgnM pc1.1 /\ sgR (mp_evalR rho pc1.1) <> 0%sZ) /\
         (sgR (mp_evalR rho pc2.1) = sgn_m sgnM pc2.1 /\ sgR (mp_evalR rho pc2.1) <> 0%sZ))].
Proof.
move=> Hw1 Hw2; rewrite /resolve_fm /resolve_fm_with.
case Ex: (bd_top_var ord p1) => [x|] //; case Ey: (bd_top_var ord p2) => [y|] //.
case: (N.eqb_spec x y) => [Exy|_] //=; subst y.
case E1: (fm_linear sgnM x p1 A0) => [[[lc1 k1]|] A1]; last by case: (fm_linear _ _ _ _) => [[?|] ?].
case E2: (fm_linear sgnM x p2 A1) => [[[lc2 k2]|] A2] //.
have [I1 S1 In1 [El1 Ek1] _] := fm_linear_spec Q Hw1 E1.
have [I2 S2 In2 [El2 Ek2] _] := fm_linear_spec Q Hw2 E2.
case N1: (fm_norm (lc1, k1) c1) => [pc1 c1'].
case N2: (fm_norm (lc2, k2) c2) => [pc2 c2'].
have [_ Hp1 _] := fm_norm_spec Q N1.
have [_ Hp2 _] := fm_norm_spec Q N2.
case Et: (fm_table c1' c2') => [cR|] //.
case Es: (fm_stest _ _ _ _) => [[s1' s2']|] //= _.
exists x, pc1, pc2, c1', c2', s1', s2'; split=> //; split; last split.
- have M1 : mwf lc1 by rewrite El1; apply: mwf_coeff.
  have M2 : mwf k1 by rewrite Ek1; apply: mwf_coeff.
  have M3 : mwf lc2 by rewrite El2; apply: mwf_coeff.
  have M4 : mwf k2 by rewrite Ek2; apply: mwf_coeff.
  by case: Hp1 => ->; case: Hp2 => -> /=; split=> //; apply: mwf_neg.
- move=> R.
  have X1 : xindep R x lc1 by move=> rho v; rewrite El1 evalR_coeff_upd.
  have X2 : xindep R x k1 by move=> rho v; rewrite Ek1 evalR_coeff_upd.
  have X3 : xindep R x lc2 by move=> rho v; rewrite El2 evalR_coeff_upd.
  have X4 : xindep R x k2 by move=> rho v; rewrite Ek2 evalR_coeff_upd.
  by case: Hp1 => ->; case: Hp2 => -> /=; split=> //; apply: xindep_neg.
- move=> R rho HA.
  have [_ _ Hs1] := fm_norm_spec R N1.
  have [_ _ Hs2] := fm_norm_spec R N2.
  have HA3 : assum_ok sgnM rho (push_nc pc1.1 A2) by apply: assum_ok_incl HA => a; apply: push_nc_incl.
  have HA2 : assum_ok sgnM rho A2 by apply: assum_ok_incl HA3 => a; apply: push_nc_incl.
  have HA1 : assum_ok sgnM rho A1 by apply: assum_ok_incl HA2.
  have G1 : sgR (mp_evalR rho pc1.1) = sgn_m sgnM pc1.1 by apply: (sgn_m_at HA3); apply: push_nc_in.
  have G2 : sgR (mp_evalR rho pc2.1) = sgn_m sgnM pc2.1 by apply: (sgn_m_at HA); apply: push_nc_in.
  have Z1 : sgR (mp_evalR rho lc1) <> 0%sZ by rewrite (sgn_m_at HA1 In1).
  have Z2 : sgR (mp_evalR rho lc2) <> 0%sZ by rewrite (sgn_m_at HA2 In2).
  split; split=> //.
  + by case: (Hs1 rho) => -> /=; rewrite ?sgR_opp; lia.
  + by case: (Hs2 rho) => -> /=; rewrite ?sgR_opp; lia.
Qed.

(* the witness of the recorded signs may live in ANY ordered field (the model may be irrational); the value of
   the resolvent is then independent of x in EVERY ordered field *)
Lemma resolve_fm_xindep_gen (R R' : realFieldType) sgnM ord p1 c1 p2 c2 R0 cR0 A0 x : mwf p1 -> mwf p2 ->
  let r := resolve_fm sgnM ord p1 c1 p2 c2 R0 cR0 A0 in
  fm_ok r = true -> bd_top_var ord p1 = Some x ->
  (exists rho0 : var -> R, assum_ok sgnM rho0 (fm_assum r)) ->
  forall (rho : var -> R') v, mp_evalR (upd rho x v) (fm_R r) = mp_evalR rho (fm_R r).
Proof.
move=> Hw1 Hw2 r Hok Hx [rho0 H0].
have [x' [pc1 [pc2 [c1' [c2' [s1' [s2' [Hx' Ht Hs HR [_ [HX Hrho]]]]]]]]]] := resolve_fm_inv_gen Hw1 Hw2 Hok.
have Exx : x' = x by move: Hx'; rewrite Hx => -[].
subst x'.
have [[G1 Z1] [G2 Z2]] := Hrho R _ H0.
have [X1 X2 X3 X4] := HX R'.
rewrite -G1 -G2 in Hs.
have S1 : (sgR (mp_evalR rho0 pc1.1) = 1 \/ sgR (mp_evalR rho0 pc1.1) = -1)%sZ.
  by move: Z1; rewrite /sgR; case: ltrgt0P => // _ _; [left | right].
have S2 : (sgR (mp_evalR rho0 pc2.1) = 1 \/ sgR (mp_evalR rho0 pc2.1) = -1)%sZ.
  by move: Z2; rewrite /sgR; case: ltrgt0P => // _ _; [left | right].
have Hopp : (0 <? s1')%sZ = ~~ (0 <? s2')%sZ.
  by case: (fm_stest_spec S1 S2 Ht Hs) => [[-> [-> Hne]]|[_ [Eq [-> ->]]]]; lia.
move=> rho v; rewrite -/r HR !evalR_add !evalR_mul !evalR_fm_poly !evalR_absL.
rewrite X1 X2 X3 X4 /upd N.eqb_refl /absL Hopp.
by case: (0 <? s2')%sZ => /=; ring.
Qed.

(* C16, "the resolvent is free of the eliminated variable", syntactically - given that the resolvent the
   reference arithmetic computed is in canonical form *)
Theorem resolve_fm_xfree (R : realFieldType) sgnM ord p1 c1 p2 c2 R0 cR0 A0 x :
  mp_wf p1 = true -> mp_wf p2 = true ->
  let r := resolve_fm sgnM ord p1 c1 p2 c2 R0 cR0 A0 in
  fm_ok r = true -> bd_top_var ord p1 = Some x ->
  (exists rho0 : var -> R, assum_ok sgnM rho0 (fm_assum r)) ->
  mp_wf (fm_R r) = true /\ mp_degree x (fm_R r) = 0%num.
Proof.
move=> /mp_wf_mwf Hw1 /mp_wf_mwf Hw2 r Hok Hx Hex.
have HwR : mp_wf (fm_R r) = true.
  have [x' [pc1 [pc2 [c1' [c2' [s1' [s2' [_ _ _ HR [[M1 M2 M3 M4] _]]]]]]]]] := resolve_fm_inv_gen Hw1 Hw2 Hok.
  have F1 : mwf (fm_poly x' pc1) by apply: mwf_add => //; apply: mwf_mul => //; apply: mwf_var1.
  have F2 : mwf (fm_poly x' pc2) by apply: mwf_add => //; apply: mwf_mul => //; apply: mwf_var1.
  rewrite -/r HR; apply: mp_add_wf; last apply: mp_mul_wf => //; first apply: mwf_mul => //.
    by case: ifP => _ //; apply: mwf_neg.
  by case: ifP => _ //; apply: mwf_neg.
split=> //; apply: xfree_of_indep => // rho v.
exact: (@resolve_fm_xindep_gen R Q _ _ _ _ _ _ _ _ _ _ Hw1 Hw2 Hok Hx Hex).
Qed.
End FMFree.

Lemma C16_fm_xindep_pf (R R' : realFieldType) sgnM ord p1 c1 p2 c2 R0 cR0 A0 x :
  mp_wf p1 = true -> mp_wf p2 = true ->
  let r := resolve_fm sgnM ord p1 c1 p2 c2 R0 cR0 A0 in
  fm_ok r = true -> bd_top_var ord p1 = Some x ->
  (exists rho0 : var -> R, assum_ok sgnM rho0 (fm_assum r)) ->
  forall (rho : var -> R') v, mp_evalR (upd rho x v) (fm_R r) = mp_evalR rho (fm_R r).
Proof. by move=> /mp_wf_mwf H1 /mp_wf_mwf H2; apply: resolve_fm_xindep_gen. Qed.
