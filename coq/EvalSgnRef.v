(* C10 REFERENCE evaluation of a multivariate integer polynomial at real algebraic points (executable, stdlib
   only, no proofs, NOT a model of libpoly's code: the oracle the implementation is compared with by denotation).

   RefAlg.mp_eval_rn adds the terms one by one and the degree of the annihilating polynomial multiplies with every
   term, which makes 4 terms over Q(sqrt 2) already too slow.  ref_eval instead
     1. eliminates the variables one at a time from  r = z - P  :  pseudo-reduce r modulo the defining polynomial
        f_i(x_i) (so deg_{x_i} r < deg f_i), then take the Sylvester resultant in x_i (Laplace expansion over MPoly);
        rational values are the case deg f_i = 1, where the reduction alone removes x_i;
     2. the value is a root of the resulting univariate polynomial in z; it is selected by refining the isolating
        intervals of the arguments until the interval evaluation of P encloses exactly one root.
   The p_c10.ml driver cross-checks ref_eval against RefAlg.mp_eval_rn on the cases that are small enough. *)
From Coq Require Import ZArith NArith List Bool.
From LP Require Import Scalar UPoly MPoly RefAlg.
Import ListNotations.
Local Open Scope Z_scope.

Definition zvar : var := 1000%N.

(* pseudo-remainder of r by f (a polynomial in x alone, degree d >= 1, leading coefficient lc) with respect to x *)
Fixpoint mp_prem_x (fuel : nat) (x : var) (r f : mpoly) (d : N) (lc : Z) : mpoly :=
  match fuel with
  | O => r
  | S fu =>
    let dr := mp_degree x r in
    if (dr <? d)%N then r
    else
      let ctop := mp_coeff x dr r in
      let r' := mp_sub (mp_scale lc r) (mp_mul (mp_mul ctop (mp_var_pow x (dr - d))) f) in
      mp_prem_x fu x r' f d lc
  end.

(* determinant by expansion along the first row, zero entries skipped; fuel = dimension *)
Fixpoint mdet (fuel : nat) (m : list (list mpoly)) : mpoly :=
  match fuel with
  | O => mp_const 1
  | S f =>
    match m with
    | [] => mp_const 1
    | row :: rest =>
      snd (fold_left (fun (acc : nat * mpoly) (a : mpoly) =>
             let j := fst acc in
             let t := if mp_is_zero a then [] else mp_mul a (mdet f (map (remove_nth j) rest)) in
             (S j, if Nat.even j then mp_add (snd acc) t else mp_sub (snd acc) t))
           row (O, []))
    end
  end.

(* Sylvester matrix of A (deg m) and B (deg n), coefficient lists HIGH degree first *)
Definition msylvester (a b : list mpoly) : list (list mpoly) :=
  let m := Nat.pred (length a) in
  let n := Nat.pred (length b) in
  map (fun i => repeat [] i ++ a ++ repeat [] (n - 1 - i)) (seq 0 n) ++
  map (fun i => repeat [] i ++ b ++ repeat [] (m - 1 - i)) (seq 0 m).

Definition mp_res_x (x : var) (r f : mpoly) : mpoly :=
  let m := msylvester (rev (mp_coeffs x r)) (rev (mp_coeffs x f)) in
  mdet (length m) m.

Definition mp_primitive (r : mpoly) : mpoly :=
  let c := mp_content r in if c <=? 1 then r else mp_divc r c.

(* eliminate x, whose value is a root of f, from r *)
Definition elim_var (r : mpoly) (x : var) (f : poly) : mpoly :=
  let f := pnorm f in
  let fm := mp_of_upoly x f in
  let d := N.of_nat (pdeg f) in
  if (d =? 0)%N then r else
  let r1 := mp_primitive (mp_prem_x (S (N.to_nat (mp_degree x r))) x r fm d (plc f)) in
  if (mp_degree x r1 =? 0)%N then r1 else mp_primitive (mp_res_x x r1 fm).

(* rational interval evaluation (closed hulls) *)
Definition iv := (rat * rat)%type.
Definition iv_one : iv := ((1, 1), (1, 1)).
Definition ivmul (a b : iv) : iv := iv_mul (fst a) (snd a) (fst b) (snd b).
Definition ivadd (a b : iv) : iv := iv_add (fst a) (snd a) (fst b) (snd b).
Fixpoint iv_pow (a : iv) (n : nat) : iv :=
  match n with O => iv_one | S O => a | S n' => ivmul a (iv_pow a n') end.
Definition mono_iv (rho : var -> iv) (m : mono) : iv :=
  fold_right (fun ve acc => ivmul (iv_pow (rho (fst ve)) (N.to_nat (snd ve))) acc) iv_one m.
Definition mp_iv (rho : var -> iv) (p : mpoly) : iv :=
  fold_right (fun t acc => ivadd (ivmul ((snd t, 1), (snd t, 1)) (mono_iv rho (fst t))) acc) ((0, 1), (0, 1)) p.

Definition lookup_iv (vals : list (var * rnum)) (x : var) : iv :=
  match find (fun xv => N.eqb (fst xv) x) vals with
  | Some xv => (rn_lo (snd xv), rn_hi (snd xv))
  | None => ((0, 1), (0, 1))
  end.

Fixpoint ref_select (fuel : nat) (r : poly) (p : mpoly) (vals : list (var * rnum)) : option rnum :=
  match fuel with
  | O => None
  | S f =>
    let '(l, h) := mp_iv (lookup_iv vals) p in
    if q_eq l h then Some (RQ l)
    else if negb (psgn_q r l =? 0) && negb (psgn_q r h =? 0) && Nat.eqb (count_open r l h) 1 then Some (RA r l h)
    else ref_select f r p (map (fun xv => (fst xv, rn_refine (snd xv))) vals)
  end.

(* the annihilating polynomial (in z) of P at the given values *)
Definition ref_annihilator (vals : list (var * rnum)) (p : mpoly) : poly :=
  let r0 := mp_sub (mp_var_pow zvar 1) p in
  let r := fold_left (fun r xv => elim_var r (fst xv) (rn_poly (snd xv))) vals r0 in
  psqfree (mp_to_upoly zvar r).

Definition ref_eval (fuel : nat) (vals : list (var * rnum)) (p : mpoly) : option rnum :=
  let ann := ref_annihilator vals p in
  if Nat.ltb (pdeg ann) 1 then None
  else ref_select fuel ann p vals.
