(* C11 / C12 proofs, base layer: the building blocks of the root-list checker RootCheck.v over every real closed field:
   (1) sign_alg        : exact sign of a dense integer polynomial at a reference algebraic number;
   (2) subst_rat(ionals): rational substitution multiplies the value by a positive constant, keeps mp_wf, removes x;
   (3) upoly_view/bv_view : the dense univariate / bivariate views of a sparse polynomial;
   (4) same_list, accept_rational : comparison of root lists by denotation and the all-rational regime. *)
From Coq Require Import ZArith NArith List Bool.
From LP Require Import Scalar UPoly MPoly RefAlg RootCheck.
Set Warnings "-notation-overridden,-ambiguous-paths".
From mathcomp Require Import all_ssreflect all_algebra all_real_closed.
From mathcomp Require Import ssrZ zify ring.
Set Warnings "notation-overridden,ambiguous-paths".
From LP Require Import UPolySpec GcdSpec RefAlgSpec RefAlgLoops RefAlgOps RefAlgDet RefAlgAnn RefAlgArith RefAlgSqfree RefAlgFinal RefAlgRoots RefAlgRat RefAlgPow RefAlgCmp.
From LP Require RootIsoProofs RefAlgValid MPolySpec BoundsProofs.
Import GRing.Theory Num.Theory Num.Def Order.TTheory.
Set Implicit Arguments.
Unset Strict Implicit.
Unset Printing Implicit Defensive.
Local Open Scope ring_scope.

(* ================================================================== (1) exact sign at an algebraic number *)
Section SignAlg.
Variable R : rcfType.
Local Notation zr := (@zr R).
Local Notation pr := (@pr R).
Local Notation qr := (@qr R).
Local Notation rn_denotes := (@rn_denotes R).

Lemma pr_pnorm (p : seq Z) : pr (pnorm p) = pr p.
Proof. by rewrite /RefAlgSpec.pr Poly_pnorm. Qed.

Lemma sgn_prod_nz (P : {poly R}) (u v : R) : sgr P.[u] * sgr P.[v] = -1 -> P.[u] != 0 /\ P.[v] != 0.
Proof.
move=> H; split; apply/eqP => H0; move: H; rewrite H0 sgr0 ?mul0r ?mulr0 => /eqP;
by rewrite eq_sym oppr_eq0 oner_eq0.
Qed.

(* the refinement loop: ps has the roots of p; at the exit p has no root in [lo, hi) *)
Lemma sign_alg_loop_spec (fuel : nat) (p : seq Z) (x : rnum) (a : R) (s : Z) :
  Poly p != 0 -> rn_denotes x a -> sign_alg_loop fuel (psqfree p) p x = Some s -> zr s = sgr (pr p).[a].
Proof.
move=> p0; have [s0 Hsq Hroot] := psqfree_correct R p0.
elim: fuel x => [|f IH] // [q|m lo hi] Hx /=.
  by case: Hx => Hq -> [<-]; exact: psgn_qP.
have [[Hlo Hhi] /andP[loa ahi] ra uniq sgn] := Hx.
case: ifP => [/andP[/andP[Hl Hh] /Nat.eqb_eq Hc]|_]; last exact: (IH _ (rn_refine_spec Hx)).
case=> <-; rewrite (psgn_qP _ p Hlo).
move: Hl Hh; rewrite !(psgn_q_neq0 R) // => Sl Sh.
have lh : qr lo < qr hi := lt_trans loa ahi.
have := RefAlgValid.count_open_correct Hlo Hhi lh s0 Sl Sh; rewrite Hc => /esym/size0nil Er.
have Hno : {in `[qr lo, qr hi[, forall w, ~~ root (pr p) w}.
  move=> w; rewrite in_itv /= => /andP[]; rewrite le_eqVlt => /orP[/eqP <-|low] whi.
    by rewrite -Hroot rootE.
  rewrite -Hroot; apply/negP => rw.
  have : w \in roots (pr (psqfree p)) (qr lo) (qr hi).
    by rewrite in_roots rw in_itv /= low whi pr_eq0 s0.
  by rewrite Er.
apply: (polyrN0_itv Hno); rewrite in_itv /= ?lexx ?lh //.
by rewrite (ltW loa) ahi.
Qed.

Theorem sign_alg_spec (fuel : nat) (p : seq Z) (x : rnum) (a : R) (s : Z) :
  rn_denotes x a -> sign_alg fuel p x = Some s -> zr s = sgr (pr p).[a].
Proof.
move=> Hx; rewrite /sign_alg -(pr_pnorm p); set p' := pnorm p.
case: ifP => [/pis_zeroP E0 [<-]|/pis_zeroP/eqP p0].
  by rewrite /RefAlgSpec.pr E0 map_poly0 horner0 sgr0 zr0.
case: x Hx => [q|m lo hi] Hx.
  by case: Hx => Hq -> [<-]; exact: psgn_qP.
case: ifP => [/andP[_ /Nat.ltb_lt/ssrnat.ltP Hc]|_]; last exact: sign_alg_loop_spec.
case=> <-; rewrite zr0.
have [[Hlo Hhi] /andP[loa ahi] ra uniq sgn] := Hx.
have lh : qr lo < qr hi := lt_trans loa ahi.
have [Ml Mh] := sgn_prod_nz sgn.
set g := pgcd p' m in Hc.
have [Dp Dm] := pgcd_dvd p' m; rewrite -/g in Dp Dm.
have g0 : Poly g != 0 by case: Dp => q Eq; apply: contraNneq p0 => E; rewrite Eq E mul0r.
have [s0 Hsq Hroot] := psqfree_correct R g0.
have Hend (u : R) : (pr m).[u] != 0 -> (pr (psqfree g)).[u] != 0.
  move=> H; rewrite -rootE Hroot; apply/negP => rg.
  by move: H; rewrite -rootE (rdvd_root Dm rg).
have := RefAlgValid.count_open_correct Hlo Hhi lh s0 (Hend _ Ml) (Hend _ Mh).
move=> Hsz; move: Hc; rewrite Hsz; case Er: (roots _ _ _) => [|w ws] // _.
have : w \in roots (pr (psqfree g)) (qr lo) (qr hi) by rewrite Er mem_head.
rewrite in_roots Hroot in_itv /= => /and3P[rg Hw _].
have Ew : w = a by apply: uniq => //; exact: (rdvd_root Dm rg).
by have := rdvd_root Dp rg; rewrite Ew rootE => /eqP ->; rewrite sgr0.
Qed.

End SignAlg.

(* ================================================================== sparse polynomials: bridges and variables *)
Definition upd (T : Type) (rho : MPoly.var -> T) (y : MPoly.var) (t : T) : MPoly.var -> T :=
  fun v => if N.eqb v y then t else rho v.

Lemma upd_same (T : Type) (rho : MPoly.var -> T) y t : upd rho y t y = t.
Proof. by rewrite /upd N.eqb_refl. Qed.
Lemma upd_other (T : Type) (rho : MPoly.var -> T) y t v : v <> y -> upd rho y t v = rho v.
Proof. by rewrite /upd => /N.eqb_neq ->. Qed.

Lemma In_mem (T : eqType) (a : T) (l : seq T) : List.In a l -> a \in l.
Proof. by elim: l => [|b l IH] //= [->|/IH H]; rewrite in_cons ?eqxx ?H ?orbT. Qed.
Lemma mem_In (T : eqType) (a : T) (l : seq T) : a \in l -> List.In a l.
Proof. by elim: l => [|b l IH] //=; rewrite in_cons => /orP [/eqP ->|/IH]; [left|right]. Qed.
Lemma Lmap_map (A B : Type) (f : A -> B) (l : seq A) : List.map f l = [seq f i | i <- l].
Proof. by elim: l => //= a l ->. Qed.

(* every variable of every monomial of p is in vs *)
Definition vars_in (vs : seq MPoly.var) (p : mpoly) : Prop :=
  forall t, List.In t p -> forall ve, List.In ve t.1 -> List.In ve.1 vs.

Lemma In_vars_mono (m : mono) (acc : seq MPoly.var) (v : MPoly.var) :
  List.In v (List.fold_right (fun (ve : MPoly.var * N) acc => if List.existsb (N.eqb ve.1) acc then acc else ve.1 :: acc) acc m)
  <-> List.In v acc \/ exists2 ve, List.In ve m & ve.1 = v.
Proof.
elim: m => [|[z f] m IH] /=.
  by split=> [H|[H|[ve []]]] //; left.
set acc' := List.fold_right _ _ _ in IH *.
have Hz : List.existsb (N.eqb z) acc' = true -> List.In z acc'.
  by move=> /List.existsb_exists [u [Hu /N.eqb_eq ->]].
split.
  have Hacc' : List.In v acc' -> List.In v acc \/ (exists2 ve, List.In ve ((z, f) :: m) & ve.1 = v).
    by case/IH => [H|[ve Hve Ev]]; [left|right; exists ve => //; right].
  case E: (List.existsb _ _) => //=; case=> [<-|] //.
  by right; exists (z, f) => //; left.
move=> H; have : v = z \/ List.In v acc'.
  case: H => [H|[ve [<-|Hve] Ev]]; [by right; apply/IH; left|by left; rewrite -Ev|].
  by right; apply/IH; right; exists ve.
case E: (List.existsb _ _) => /=.
  by case=> [->|] //; exact: Hz.
by case=> [->|]; [left|right].
Qed.

Lemma In_mp_vars (v : MPoly.var) (p : mpoly) :
  List.In v (mp_vars p) <-> exists t ve, [/\ List.In t p, List.In ve t.1 & ve.1 = v].
Proof.
rewrite /mp_vars; elim: p => [|t p IH] /=.
  by split=> // [[t [ve []]]].
split.
  move/In_vars_mono => [/IH [u [ve [Hu Hve Ev]]]|[ve Hve Ev]].
    by exists u, ve; split=> //; right.
  by exists t, ve; split=> //; left.
move=> [u [ve [[<-|Hu] Hve Ev]]]; apply/In_vars_mono; first by right; exists ve.
by left; apply/IH; exists u, ve.
Qed.

Lemma only_vars_in (vs : seq MPoly.var) (p : mpoly) : only_vars vs p = true <-> vars_in vs p.
Proof.
rewrite /only_vars List.forallb_forall; split=> H.
  move=> t Ht ve Hve.
  have /H /List.existsb_exists [u [Hu /N.eqb_eq ->]] // : List.In ve.1 (mp_vars p).
  by apply/In_mp_vars; exists t, ve.
move=> v /In_mp_vars [t [ve [Ht Hve <-]]]; apply/List.existsb_exists.
by exists ve.1; split; [exact: (H t Ht ve Hve)|exact: N.eqb_refl].
Qed.

Lemma In_of_terms (u : MPoly.term) (l : seq MPoly.term) :
  List.In u (mp_of_terms l) -> exists2 t, List.In t l & u.1 = t.1.
Proof.
rewrite /mp_of_terms; elim: l u => [|t l IH] u //= /BoundsProofs.In_add_term [E|[u' /IH [t' Ht' E'] E]].
  by exists t => //; left.
by exists t'; [right|rewrite E].
Qed.

Lemma In_mono_remove (x : MPoly.var) (m : mono) (ve : MPoly.var * N) :
  List.In ve (mono_remove x m) <-> List.In ve m /\ ve.1 <> x.
Proof.
rewrite /mono_remove List.filter_In; split=> [[H /negbTE/N.eqb_neq]|[H /N.eqb_neq E]] //.
by split=> //; rewrite E.
Qed.

Lemma mp_wf_in_mono (p : mpoly) (t : MPoly.term) : mp_wf p -> List.In t p -> mono_wf t.1.
Proof. by move=> wp /In_mem Ht; case: (MPolySpec.mp_wf_monos wp Ht). Qed.

Lemma mp_wf_coeff x k p : mp_wf p -> mp_wf (mp_coeff x k p).
Proof.
move=> wp; rewrite /mp_coeff; apply: MPolySpec.mp_wf_of_terms => t /mem_In /List.in_map_iff [u [<- /List.filter_In [Hu _]]] /=.
by apply: MPolySpec.mono_wf_from_remove; exact: (mp_wf_in_mono wp Hu).
Qed.

Lemma vars_in_coeff vs x k p : vars_in vs p -> vars_in vs (mp_coeff x k p).
Proof.
move=> H u /In_of_terms [t /List.in_map_iff [t0 [<- /List.filter_In [Ht0 _]]] ->] ve /= /In_mono_remove [Hve _].
exact: (H t0 Ht0 ve Hve).
Qed.

Lemma vars_in_coeff_remove vs x k p : vars_in (x :: vs) p -> vars_in vs (mp_coeff x k p).
Proof.
move=> H u /In_of_terms [t /List.in_map_iff [t0 [<- /List.filter_In [Ht0 _]]] ->] ve /= /In_mono_remove [Hve Hx].
by case: (H t0 Ht0 ve Hve) => // E; case: Hx.
Qed.

Lemma In_mp_coeffs c x p : List.In c (mp_coeffs x p) -> exists k, c = mp_coeff x k p.
Proof.
rewrite /mp_coeffs; case: p => [|t p] //.
by move=> /List.in_map_iff [k [<- _]]; exists (N.of_nat k).
Qed.

Section MP.
Variable R : rcfType.
Local Notation zr := (@zr R).
Local Notation pr := (@pr R).
Local Notation qr := (@qr R).
Local Notation BevR := (@BoundsProofs.mp_evalR R).
Implicit Types (rho : MPoly.var -> R) (p : mpoly).

Lemma mono_evalR_B rho m : mono_evalR rho m = BoundsProofs.mono_evalR rho m.
Proof. by elim: m => [|ve m IH] //=; rewrite IH. Qed.

Lemma mp_evalR_B rho p : mp_evalR rho p = BevR rho p.
Proof. by elim: p => [|t p IH] //=; rewrite IH /BoundsProofs.term_evalR mono_evalR_B. Qed.

Lemma mp_evalR_ext rho rho' p : (forall v, rho v = rho' v) -> mp_evalR rho p = mp_evalR rho' p.
Proof.
move=> H; elim: p => [|t p IH] //=; rewrite IH; congr (_ * _ + _).
by elim: t.1 => [|ve m IHm] //=; rewrite IHm H.
Qed.

(* a canonical polynomial without variables is a constant *)
Lemma const_view rho c : mp_wf c -> vars_in [::] c ->
  BevR rho c = zr (match c with [::] => Z0 | (_, k) :: _ => k end).
Proof.
case: c => [|[m k] c] /=; first by rewrite zr0.
move=> Hw Hv.
have Em : m = [::] by case: m Hw Hv => [|ve m] // _ /(_ _ (or_introl erefl) ve (or_introl erefl)).
have Ec : c = [::].
  case: c Hw Hv => [|[m' k'] c] //; rewrite Em => Hw Hv.
  have Em' : m' = [::].
    by case: m' Hw Hv => [|ve m'] // _ /(_ _ (or_intror (or_introl erefl)) ve (or_introl erefl)).
  by move: Hw; rewrite Em' /= andbF.
by rewrite Ec Em /BoundsProofs.term_evalR /= mulr1 addr0.
Qed.

Lemma lsum_zr (x : R) k (l : seq Z) : BoundsProofs.lsum x k (List.map zr l) = x ^+ k * (pr l).[x].
Proof.
elim: l k => [|c l IH] k /=; first by rewrite pr_nil horner0 mulr0.
rewrite IH pr_cons hornerD hornerC hornerMX exprS mulrDr [zr c * _]mulrC; congr (_ + _).
by rewrite [x * _]mulrC -mulrA [x * _]mulrC.
Qed.

Lemma lsum_sum (x : R) j (vs : seq R) :
  BoundsProofs.lsum x j vs = \sum_(k < size vs) nth 0 vs k * x ^+ (j + k).
Proof.
elim: vs j => [|v vs IH] j /=; first by rewrite big_ord0.
rewrite big_ord_recl /= addn0 IH; congr (_ + _).
by apply: eq_bigr => k _; rewrite /bump /= addSnnS.
Qed.

(* ================================================================== (3) the dense views *)
Theorem upoly_view rho (y : MPoly.var) p :
  mp_wf p -> only_vars [:: y] p -> mp_evalR rho p = (pr (mp_to_upoly y p)).[rho y].
Proof.
move=> wp /only_vars_in Hv.
rewrite mp_evalR_B (BoundsProofs.evalR_coeffs rho y (BoundsProofs.mp_wf_mwf wp)).
have -> : List.map (BevR rho) (mp_coeffs y p) = List.map zr (mp_to_upoly y p).
  rewrite /mp_to_upoly List.map_map; apply: List.map_ext_in => c /In_mp_coeffs [k ->].
  by apply: const_view; [exact: mp_wf_coeff|exact: vars_in_coeff_remove].
by rewrite lsum_zr expr0 mul1r.
Qed.

Theorem bv_view rho (x y : MPoly.var) p :
  mp_wf p -> only_vars [:: x; y] p -> x <> y ->
  mp_evalR rho p = \sum_(k < size (bv_of x y p)) (pr (nth [::] (bv_of x y p) k)).[rho x] * rho y ^+ k.
Proof.
move=> wp /only_vars_in Hv xy.
have Hv' : vars_in [:: y; x] p.
  by move=> t Ht ve Hve; case: (Hv t Ht ve Hve) => [->|[->|[]]]; [right; left|left].
rewrite mp_evalR_B (BoundsProofs.evalR_coeffs rho y (BoundsProofs.mp_wf_mwf wp)).
have -> : List.map (BevR rho) (mp_coeffs y p) = [seq (pr P).[rho x] | P <- bv_of x y p].
  rewrite /bv_of -!Lmap_map List.map_map; apply: List.map_ext_in => c /In_mp_coeffs [k ->].
  rewrite pr_pnorm -mp_evalR_B; apply: upoly_view; first exact: mp_wf_coeff.
  by apply/only_vars_in; exact: vars_in_coeff_remove.
rewrite lsum_sum size_map; apply: eq_bigr => k _.
by rewrite add0n (nth_map [::]).
Qed.

End MP.

(* ================================================================== (2) rational substitution *)
Section Subst.
Variable R : rcfType.
Local Notation zr := (@zr R).
Local Notation pr := (@pr R).
Local Notation qr := (@qr R).
Local Notation BevR := (@BoundsProofs.mp_evalR R).
Implicit Types (rho : MPoly.var -> R) (p : mpoly).

Lemma zr_pow (a : Z) (e : N) : zr (Z.pow a (Z.of_N e)) = zr a ^+ N.to_nat e.
Proof. by rewrite MPolySpec.Zpow_expr rmorphX. Qed.

(* the image of a term *)
Definition subst_term (x : MPoly.var) (q : Z * Z) (D : N) (t : MPoly.term) : MPoly.term :=
  (mono_remove x t.1, Z.mul (Z.mul t.2 (Z.pow q.1 (Z.of_N (mono_deg x t.1)))) (Z.pow q.2 (Z.of_N (D - mono_deg x t.1)))).

Lemma subst_ratE x q p : subst_rat x q p = mp_of_terms (List.map (subst_term x q (mp_degree x p)) p).
Proof. by []. Qed.

Lemma subst_term_eval rho x q D t : qpos q -> rho x = qr q -> mono_wf t.1 -> (mono_deg x t.1 <= D)%num ->
  BoundsProofs.term_evalR rho (subst_term x q D t) = zr q.2 ^+ N.to_nat D * BoundsProofs.term_evalR rho t.
Proof.
move=> Hq Hx Hw Hd; rewrite /BoundsProofs.term_evalR /subst_term /=.
rewrite (BoundsProofs.mono_evalR_split rho x Hw) Hx /RefAlgSpec.qr.
have d0 : zr q.2 != 0 by rewrite gt_eqF // zr_gt0.
set e := mono_deg x t.1 in Hd *.
have -> : N.to_nat D = (N.to_nat (D - e) + N.to_nat e)%N by lia.
have ZRE c : BoundsProofs.ZR R c = zr c by [].
rewrite !ZRE !zrM !zr_pow exprD expr_div_n.
set M := BoundsProofs.mono_evalR _ _; set A := zr q.1 ^+ _; set B := zr q.2 ^+ N.to_nat (D - e).
set C := zr q.2 ^+ N.to_nat e.
have C0 : C != 0 by rewrite expf_neq0.
set T := zr t.2.
have -> : B * C * (T * (M * (A / C))) = T * A * B * M * (C / C) by rewrite -!mulrA; ring.
by rewrite divff // mulr1.
Qed.

Lemma subst_rat_eval rho x q p : mp_wf p -> qpos q -> rho x = qr q ->
  mp_evalR rho (subst_rat x q p) = zr q.2 ^+ N.to_nat (mp_degree x p) * mp_evalR rho p.
Proof.
move=> wp Hq Hx; rewrite !mp_evalR_B subst_ratE BoundsProofs.evalR_of_terms.
set D := mp_degree x p.
have : forall t, List.In t p -> mono_wf t.1 /\ (mono_deg x t.1 <= D)%num.
  by move=> t Ht; split; [exact: (mp_wf_in_mono wp Ht)|exact: BoundsProofs.mono_deg_le_degree].
elim: (p) => [|t p' IH] H /=; first by rewrite mulr0.
have [Hw Hd] := H t (or_introl erefl).
rewrite (subst_term_eval Hq Hx Hw Hd) IH ?mulrDr // => u Hu; apply: H; by right.
Qed.

Lemma subst_rat_wf x q p : mp_wf p -> mp_wf (subst_rat x q p).
Proof.
move=> wp; rewrite subst_ratE; apply: MPolySpec.mp_wf_of_terms => t /mem_In /List.in_map_iff [u [<- Hu]] /=.
by apply: MPolySpec.mono_wf_from_remove; exact: (mp_wf_in_mono wp Hu).
Qed.

(* the variables of the result are variables of p other than x *)
Lemma subst_rat_vars x q p v : List.In v (mp_vars (subst_rat x q p)) -> List.In v (mp_vars p) /\ v <> x.
Proof.
move=> /In_mp_vars [u [ve [/In_of_terms [t /List.in_map_iff [t0 [<- Ht0]] ->] /= /In_mono_remove [Hve Hx] Ev]]].
by split; [apply/In_mp_vars; exists t0, ve|rewrite -Ev].
Qed.

Lemma subst_rat_novar x q p : ~ List.In x (mp_vars (subst_rat x q p)).
Proof. by move=> /subst_rat_vars []. Qed.

(* the value of a polynomial only depends on the values of its variables *)
Lemma mp_evalR_vars rho rho' p : (forall v, List.In v (mp_vars p) -> rho' v = rho v) ->
  mp_evalR rho' p = mp_evalR rho p.
Proof.
move=> H.
have {H} : forall t, List.In t p -> forall ve, List.In ve t.1 -> rho' ve.1 = rho ve.1.
  by move=> t Ht ve Hve; apply: H; apply/In_mp_vars; exists t, ve.
elim: p => [|t p IH] H //=; rewrite IH; last by move=> u Hu; apply: H; right.
congr (_ * _ + _).
have {H} := H t (or_introl erefl); elim: t.1 => [|ve m IHm] Hm //=.
by rewrite IHm ?(Hm ve (or_introl erefl)) // => u Hu; apply: Hm; right.
Qed.

Theorem subst_rat_spec rho (x : MPoly.var) (q : Z * Z) p :
  mp_wf p -> qpos q -> rho x = qr q ->
  [/\ mp_evalR rho (subst_rat x q p) = zr q.2 ^+ N.to_nat (mp_degree x p) * mp_evalR rho p,
      mp_wf (subst_rat x q p),
      x \notin mp_vars (subst_rat x q p)
    & forall rho', (forall v, v <> x -> rho' v = rho v) ->
        mp_evalR rho' (subst_rat x q p) = mp_evalR rho (subst_rat x q p)].
Proof.
move=> wp Hq Hx; split.
- exact: subst_rat_eval.
- exact: subst_rat_wf.
- by apply/negP => /mem_In; exact: subst_rat_novar.
- by move=> rho' H; apply: mp_evalR_vars => v /subst_rat_vars [_ /H].
Qed.

(* iteration over an assignment: the rational entries are substituted, the algebraic ones are kept *)
Definition asg_qpos (a : asg) : Prop := forall v q, List.In (v, RQ q) a -> qpos q.
Definition asg_rat_at (a : asg) rho : Prop := forall v q, List.In (v, RQ q) a -> rho v = qr q.
Definition asg_denotes (a : asg) rho : Prop := forall v r, List.In (v, r) a -> rn_denotes r (rho v).

Lemma asg_denotes_rat a rho : asg_denotes a rho -> asg_qpos a /\ asg_rat_at a rho.
Proof. by move=> H; split=> v q /H []. Qed.

Lemma subst_rationals_wf (a : asg) p : mp_wf p -> mp_wf (subst_rationals a p).
Proof.
elim: a p => [|[v [q|m lo hi]] a IH] p wp //=; last exact: IH.
by apply: IH; exact: subst_rat_wf.
Qed.

Lemma subst_rationals_vars (a : asg) p v :
  List.In v (mp_vars (subst_rationals a p)) ->
  List.In v (mp_vars p) /\ forall q, ~ List.In (v, RQ q) a.
Proof.
elim: a p => [|[w [q|m lo hi]] a IH] p /=; first by move=> H; split=> // q [].
- move=> /IH [/subst_rat_vars [Hv Hw] Hn]; split=> // q' [[E _]|]; [by case: Hw|exact: Hn].
- by move=> /IH [Hv Hn]; split=> // q' [|]; [|exact: Hn].
Qed.

(* the multiplier is a positive constant that does not depend on the point *)
Theorem subst_rationals_eval (a : asg) p : mp_wf p -> asg_qpos a ->
  exists2 M : R, 0 < M & forall rho, asg_rat_at a rho -> mp_evalR rho (subst_rationals a p) = M * mp_evalR rho p.
Proof.
elim: a p => [|[v [q|m lo hi]] a IH] p wp Ha /=.
- by exists 1; [exact: ltr01|move=> rho _; rewrite mul1r].
- have Hq : qpos q by apply: (Ha v); left.
  have Ha' : asg_qpos a by move=> w q' H; apply: (Ha w); right.
  have [M M0 HM] := IH _ (subst_rat_wf v q wp) Ha'.
  exists (M * zr q.2 ^+ N.to_nat (mp_degree v p)).
    by rewrite mulr_gt0 // exprn_gt0 // zr_gt0.
  move=> rho Hr; rewrite HM; last by move=> w q' H; apply: Hr; right.
  by rewrite subst_rat_eval ?mulrA //; apply: Hr; left.
- have Ha' : asg_qpos a by move=> w q' H; apply: (Ha w); right.
  have [M M0 HM] := IH _ wp Ha'; exists M => // rho Hr; apply: HM => w q' H; apply: Hr; by right.
Qed.

(* the form used by the acceptance theorems: any point at which the assignment holds *)
Theorem subst_rationals_spec (a : asg) p rho : mp_wf p -> asg_denotes a rho ->
  mp_wf (subst_rationals a p) /\
  exists2 M : R, 0 < M & forall rho', asg_denotes a rho' -> mp_evalR rho' (subst_rationals a p) = M * mp_evalR rho' p.
Proof.
move=> wp /asg_denotes_rat [Hq _]; split; first exact: subst_rationals_wf.
have [M M0 HM] := subst_rationals_eval wp Hq; exists M => // rho' /asg_denotes_rat [_ Hr]; exact: HM.
Qed.

(* moving the main variable y (not assigned by a) keeps the assignment *)
Lemma asg_denotes_upd (a : asg) rho y t :
  (forall r, ~ List.In (y, r) a) -> asg_denotes a rho -> asg_denotes a (upd rho y t).
Proof.
move=> Hy H v r Hvr; rewrite upd_other; first exact: H.
by move=> E; apply: (Hy r); rewrite -E.
Qed.

(* the specialisation t |-> p(asg, y := t): the substituted polynomial is a positive constant multiple of it *)
Corollary subst_rationals_upd (a : asg) p rho y : mp_wf p -> asg_denotes a rho -> (forall r, ~ List.In (y, r) a) ->
  exists2 M : R, 0 < M &
    forall t, mp_evalR (upd rho y t) (subst_rationals a p) = M * mp_evalR (upd rho y t) p.
Proof.
move=> wp Ha Hy; have [_ [M M0 HM]] := subst_rationals_spec wp Ha.
by exists M => // t; apply: HM; exact: asg_denotes_upd.
Qed.

End Subst.

(* ================================================================== (4) comparison of lists, the rational regime *)
Section Rational.
Variable R : rcfType.
Local Notation zr := (@zr R).
Local Notation pr := (@pr R).
Local Notation qr := (@qr R).

Theorem same_list_spec fuel (a b : seq rnum) (va vb : seq R) :
  dens a va -> dens b vb -> same_list fuel a b -> va = vb.
Proof.
elim: a b va vb => [|x a IH] [|y b] [|u va] [|w vb] //= [Hx Ha] [Hy Hb].
case E: (rn_cmp fuel x y) => [[| |]|] //= Hs; rewrite (IH _ _ _ Ha Hb Hs); congr (_ :: _).
by have /esym/eqP := rn_cmp_spec Hx Hy E; rewrite zr0 sgr_eq0 subr_eq0 => /eqP.
Qed.

Lemma dens_exists (rs : seq rnum) :
  (forall r, List.In r rs -> exists v : R, rn_denotes r v) -> exists vs : seq R, dens rs vs.
Proof.
elim: rs => [|r rs IH] H; first by exists [::].
have [v Hv] := H r (or_introl erefl).
have [vs Hvs] := IH (fun r' Hr' => H r' (or_intror Hr')).
by exists (v :: vs).
Qed.

(* denotations are unique *)
Lemma rn_denotes_inj (x : rnum) (a b : R) : rn_denotes x a -> rn_denotes x b -> a = b.
Proof.
case: x => [q|m lo hi] /=; first by move=> [_ ->] [_ ->].
by move=> [_ Ia ra _ _] [_ _ _ uniq _]; exact: uniq.
Qed.

Lemma dens_inj (rs : seq rnum) (va vb : seq R) : dens rs va -> dens rs vb -> va = vb.
Proof.
elim: rs va vb => [|r rs IH] [|a va] [|b vb] //= [Ha Hva] [Hb Hvb].
by rewrite (rn_denotes_inj Ha Hb) (IH _ _ Hva Hvb).
Qed.

Theorem accept_rational_exact fuel (y : MPoly.var) (p1 : mpoly) (rs : seq rnum) (rho : MPoly.var -> R) :
  mp_wf p1 -> (forall r, List.In r rs -> exists v : R, rn_denotes r v) ->
  accept_rational fuel y p1 rs = Accept ->
  exists vs : seq R, [/\ dens rs vs, sorted <%R vs
    & ((forall t, mp_evalR (upd rho y t) p1 = 0) /\ vs = [::]) \/
      ((exists t, mp_evalR (upd rho y t) p1 != 0) /\
       (forall t, (t \in vs) = (mp_evalR (upd rho y t) p1 == 0))) ].
Proof.
move=> wp Hrs; rewrite /accept_rational; case Ho: (only_vars [:: y] p1) => //=.
set u := pnorm (mp_to_upoly y p1).
have Hev t : mp_evalR (upd rho y t) p1 = (pr u).[t].
  by rewrite (upoly_view _ wp Ho) upd_same pr_pnorm.
case: ifP => [/pis_zeroP E0|/pis_zeroP/eqP u0].
  case: rs {Hrs} => // _; exists [::]; split=> //; left; split=> // t.
  by rewrite Hev /RefAlgSpec.pr E0 map_poly0 horner0.
case Er: (rn_roots fuel u) => [ref|] //; case: ifP => // Hs _.
have Hd := rn_roots_correct R u0 Er.
have [vs Hvs] := dens_exists Hrs.
have E := same_list_spec Hvs Hd Hs.
have P0 : pr u != 0 by rewrite pr_eq0.
exists vs; split=> //; first by rewrite E; exact: sorted_roots.
right; split; last by move=> t; rewrite E (RootIsoProofs.in_rootsR _ P0) Hev rootE.
exists (zr (root_bound u)); rewrite Hev -rootE.
by apply: (root_bound_spec u0); exact: ler_norm.
Qed.

End Rational.

Print Assumptions sign_alg_spec.
Print Assumptions subst_rat_spec.
Print Assumptions subst_rationals_eval.
Print Assumptions subst_rationals_spec.
Print Assumptions subst_rationals_upd.
Print Assumptions subst_rationals_vars.
Print Assumptions mp_evalR_vars.
Print Assumptions only_vars_in.
Print Assumptions upoly_view.
Print Assumptions bv_view.
Print Assumptions same_list_spec.
Print Assumptions accept_rational_exact.
