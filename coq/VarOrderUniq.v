(* C18 proofs, part 8: uniqueness of the representation.  Two objects that are in order under the SAME order, in
   normal form, and denote the same polynomial are the same tree.  Hence structural comparison (coefficient_cmp
   == 0) decides equality of the denoted polynomials. *)
From Coq Require Import ZArith NArith List Bool Lia Sorted Permutation.
From LP Require Import MPoly VarOrder VarOrderMPoly VarOrderProofs VarOrderDen VarOrderWf VarOrderNorm VarOrderHash.
Import ListNotations.
Local Open Scope Z_scope.

Definition good (o : order) (c : coef) : Prop := wf_order o c /\ norm c.
Notation D c m := (tden (traverse c []) m).

(* ---------------------------------------------------------------- removing a variable from a canonical monomial *)
Lemma mexp_remove : forall m x y, mexp (mono_remove x m) y = if N.eqb y x then 0%N else mexp m y.
Proof.
  induction m as [|[z e] m IH]; intros x y; cbn [mono_remove filter mexp fst snd]; [now destruct (N.eqb y x)|].
  fold (mono_remove x m). destruct (N.eqb_spec z x) as [->|Hzx]; cbn [negb].
  - rewrite IH. destruct (N.eqb_spec y x) as [->|]; [reflexivity|]. destruct (N.eqb_spec x y); [congruence|]. lia.
  - cbn [mexp]. rewrite IH. destruct (N.eqb_spec y x) as [->|]; [|reflexivity]. destruct (N.eqb_spec z x); [congruence|]. lia.
Qed.

Lemma mono_wf_from_relax : forall m y lo, mono_wf_from (Some y) m = true ->
  match lo with Some z => (z < y)%N | None => True end -> mono_wf_from lo m = true.
Proof.
  intros m y lo H Hlo. apply mono_wf_from_lo in H as [H0 Hok]. apply mono_wf_from_lo. split; auto.
  destruct lo as [z|]; [|now destruct m]. destruct m as [|[u e] m]; cbn in *; auto. lia.
Qed.

Lemma mono_wf_remove_from : forall m x lo, mono_wf_from lo m = true -> mono_wf_from lo (mono_remove x m) = true.
Proof.
  induction m as [|[y e] m IH]; intros x lo H; [reflexivity|]. cbn [mono_wf_from] in H. rewrite !andb_true_iff in H.
  destruct H as [[He Hlo] Hm]. cbn [mono_remove filter fst]. fold (mono_remove x m). specialize (IH x (Some y) Hm).
  destruct (N.eqb_spec y x) as [->|Hne]; cbn [negb].
  - eapply mono_wf_from_relax; [exact IH|]. destruct lo; auto. now apply N.ltb_lt.
  - cbn [mono_wf_from]. rewrite !andb_true_iff. repeat split; auto.
Qed.
Lemma mono_wf_remove : forall m x, mono_wf m = true -> mono_wf (mono_remove x m) = true.
Proof. intros m x; apply mono_wf_remove_from. Qed.

(* splitting off the power of x *)
Lemma canon_cons_iff : forall x d s m, mono_wf m = true -> mexp s x = 0%N ->
  (mono_canon ((x, d) :: s) = m <-> (d = mexp m x /\ mono_canon s = mono_remove x m)).
Proof.
  intros x d s m Hm Hs. split.
  - intros E. assert (Hx : forall y, mexp ((x, d) :: s) y = mexp m y) by (intros y; now rewrite <- E, mexp_canon).
    split.
    + specialize (Hx x). cbn [mexp] in Hx. rewrite N.eqb_refl in Hx. lia.
    + apply mono_wf_unique; [apply mono_canon_wf|now apply mono_wf_remove|]. intros y. rewrite mexp_canon, mexp_remove.
      destruct (N.eqb_spec y x) as [->|Hne]; [exact Hs|]. specialize (Hx y). cbn [mexp] in Hx.
      destruct (N.eqb_spec x y); [congruence|]. lia.
  - intros [Hd Hr]. apply mono_wf_unique; [apply mono_canon_wf|exact Hm|]. intros y. rewrite mexp_canon. cbn [mexp].
    destruct (N.eqb_spec x y) as [<-|Hne]; [lia|].
    assert (E : mexp (mono_canon s) y = mexp (mono_remove x m) y) by now rewrite Hr.
    rewrite mexp_canon, mexp_remove in E. destruct (N.eqb_spec y x); [congruence|]. lia.
Qed.

Lemma tden_one : forall p a m, tden [(p, a)] m = match mono_cmp (mono_canon p) m with Eq => a | _ => 0 end.
Proof. intros. unfold tden; cbn [map coeff]. unfold tcoef, canon_term; cbn [fst snd]. destruct (mono_cmp (mono_canon p) m); lia. Qed.

Lemma tden_one_cons : forall x d s a m, mono_wf m = true -> mexp s x = 0%N ->
  tden [((x, d) :: s, a)] m = if (d =? mexp m x)%N then tden [(s, a)] (mono_remove x m) else 0.
Proof.
  intros x d s a m Hm Hs. rewrite !tden_one. pose proof (canon_cons_iff x d s m Hm Hs) as Hiff.
  destruct (mono_cmp (mono_canon ((x, d) :: s)) m) eqn:E1.
  - apply mono_cmp_eq in E1. apply Hiff in E1 as [-> ->]. now rewrite N.eqb_refl, mono_cmp_refl.
  - destruct (N.eqb_spec d (mexp m x)) as [Hd|]; auto. destruct (mono_cmp (mono_canon s) (mono_remove x m)) eqn:E2; auto.
    apply mono_cmp_eq in E2. rewrite (proj2 Hiff (conj Hd E2)), mono_cmp_refl in E1. discriminate.
  - destruct (N.eqb_spec d (mexp m x)) as [Hd|]; auto. destruct (mono_cmp (mono_canon s) (mono_remove x m)) eqn:E2; auto.
    apply mono_cmp_eq in E2. rewrite (proj2 Hiff (conj Hd E2)), mono_cmp_refl in E1. discriminate.
Qed.

Lemma tden_block : forall x d L m, mono_wf m = true -> (forall t, In t L -> mexp (fst t) x = 0%N) ->
  tden (pfx [(x, d)] L) m = if (d =? mexp m x)%N then tden L (mono_remove x m) else 0.
Proof.
  intros x d L m Hm. induction L as [|[s a] L IH]; intros HL; [now destruct (d =? mexp m x)%N|].
  unfold pfx in *. cbn [map fst snd].
  rewrite (tden_cons ([(x, d)] ++ s, a)), (tden_cons (s, a) L), IH by (intros t Ht; apply HL; now right). cbn [app].
  rewrite tden_one_cons; auto; [|apply (HL (s, a)); now left]. destruct (d =? mexp m x)%N; reflexivity.
Qed.

Lemma tsum_pick : forall o x cs m, mono_wf m = true -> (forall c, In c cs -> below o x c /\ wf_order o c) ->
  forall d, tden (tsum x [] d cs) m =
            if ((d <=? mexp m x) && (mexp m x <? d + N.of_nat (length cs)))%N
            then D (nth (N.to_nat (mexp m x - d)) cs (CNum 0)) (mono_remove x m) else 0.
Proof.
  intros o x cs m Hm. induction cs as [|c cs IH]; intros Hcs d.
  - cbn [tsum length]. rewrite tden_nil. destruct (N.leb_spec d (mexp m x)); destruct (N.ltb_spec (mexp m x) (d + N.of_nat 0)); cbn; auto; lia.
  - cbn [tsum]. rewrite tden_app, IH by (intros c' Hc'; apply Hcs; now right).
    destruct (Hcs c (or_introl eq_refl)) as [Hb Hw]. cbn [app]. rewrite traverse_pfx.
    rewrite (tden_block x d (traverse c []) m Hm) by (intros t Ht; eapply traverse_below_mexp; eauto).
    cbn [length]. destruct (N.eqb_spec d (mexp m x)) as [Hd|Hd].
    + replace (mexp m x - d)%N with 0%N by lia. cbn [N.to_nat nth].
      destruct (N.leb_spec (d + 1) (mexp m x)); [lia|]. cbn [andb].
      destruct (N.leb_spec d (mexp m x)); [|lia]. destruct (N.ltb_spec (mexp m x) (d + N.of_nat (S (length cs)))); [|lia]. cbn [andb]. lia.
    + destruct (N.leb_spec (d + 1) (mexp m x)) as [H1|H1]; destruct (N.leb_spec d (mexp m x)) as [H2|H2]; try lia; cbn [andb].
      * replace (d + 1 + N.of_nat (length cs))%N with (d + N.of_nat (S (length cs)))%N by lia.
        destruct (N.ltb_spec (mexp m x) (d + N.of_nat (S (length cs)))); [|lia].
        replace (N.to_nat (mexp m x - d)) with (S (N.to_nat (mexp m x - (d + 1)))) by lia. cbn [nth]. lia.
      * lia.
Qed.

(* the coefficient of x^i of an in-order polynomial, read off the denotation *)
Lemma D_rec : forall o x cs m, wf_order o (CRec x cs) -> mono_wf m = true ->
  D (CRec x cs) m = D (nth (N.to_nat (mexp m x)) cs (CNum 0)) (mono_remove x m).
Proof.
  intros o x cs m Hw Hm. rewrite wf_rec_iff in Hw. rewrite traverse_rec_sem, (tsum_pick o x cs m Hm Hw 0).
  rewrite N.sub_0_r. cbn [N.leb]. destruct (N.ltb_spec (mexp m x) (0 + N.of_nat (length cs))) as [H|H]; cbn [andb].
  - destruct (0 <=? mexp m x)%N eqn:E; [reflexivity|apply N.leb_gt in E; lia].
  - rewrite nth_overflow by lia. cbn [traverse]. rewrite tden_zero. now destruct (0 <=? mexp m x)%N.
Qed.

(* ---------------------------------------------------------------- a non-zero object has a non-zero coefficient *)
Lemma tden_distinct_at : forall T s a, NoDup (map key T) -> In (s, a) T -> tden T (mono_canon s) = a.
Proof.
  induction T as [|[s' a'] T IH]; intros s a Hnd Hin; [destruct Hin|]. cbn [map] in Hnd. inversion Hnd as [|? ? Hni Hnd']; subst.
  rewrite (tden_cons (s', a') T), tden_one. destruct Hin as [E|Hin].
  - inversion E; subst. rewrite mono_cmp_refl.
    assert (H0 : tden T (mono_canon s) = 0).
    { clear - Hni. induction T as [|[s2 a2] T IH]; [reflexivity|]. rewrite (tden_cons (s2, a2) T), tden_one.
      destruct (mono_cmp (mono_canon s2) (mono_canon s)) eqn:E; [apply mono_cmp_eq in E; exfalso; apply Hni; left; exact E| |];
        (rewrite IH; [lia|intros H; apply Hni; now right]). }
    lia.
  - rewrite (IH s a Hnd' Hin). destruct (mono_cmp (mono_canon s') (mono_canon s)) eqn:E; try lia.
    apply mono_cmp_eq in E. exfalso. apply Hni. unfold key at 1; cbn [fst]. rewrite E.
    change (mono_canon s) with (key (s, a)). now apply in_map.
Qed.

Lemma nonzero_witness : forall o c, good o c -> is_zero c = false ->
  exists m, mono_wf m = true /\ D c m <> 0 /\ (forall z, below o z c -> mexp m z = 0%N).
Proof.
  intros o c [Hw Hn] Hz. destruct (traverse_nonempty c Hn Hz []) as [[s a] Hin].
  exists (mono_canon s). split; [apply mono_canon_wf|]. split.
  - rewrite (tden_distinct_at _ s a (traverse_distinct o c Hw) Hin).
    pose proof (traverse_nonzero c Hn Hz) as H. rewrite Forall_forall in H. exact (H _ Hin).
  - intros z Hb. rewrite mexp_canon. exact (traverse_below_mexp o z c Hw Hb (s, a) Hin).
Qed.

Lemma nth_last : forall (A : Type) (l : list A) d, nth (length l - 1) l d = last l d.
Proof.
  induction l as [|a l IH]; intros d; [reflexivity|]. destruct l as [|b l]; [reflexivity|].
  replace (length (a :: b :: l) - 1)%nat with (S (length (b :: l) - 1)) by (cbn [length]; lia).
  change (nth (S (length (b :: l) - 1)) (a :: b :: l) d) with (nth (length (b :: l) - 1) (b :: l) d). rewrite IH. reflexivity.
Qed.

(* the leading coefficient is visible in the denotation *)
Lemma lead_witness : forall o x l, good o (CRec x l) ->
  exists m, mono_wf m = true /\ mexp m x = N.of_nat (length l - 1) /\ D (CRec x l) m <> 0.
Proof.
  intros o x l [Hw Hn]. inversion Hn as [|? ? Hlen Hlast Hch]; subst.
  assert (Hin : In (last l (CNum 0)) l) by (apply last_In; intros ->; cbn in Hlen; lia).
  pose proof (proj1 (wf_rec_iff o x l) Hw _ Hin) as [Hb Hwl].
  destruct (nonzero_witness o (last l (CNum 0)) (conj Hwl (Hch _ Hin)) Hlast) as (m' & Hm' & Hd & Hbel).
  set (deg := N.of_nat (length l - 1)).
  exists (mono_canon ((x, deg) :: m')).
  assert (Hx : mexp m' x = 0%N) by (apply Hbel; exact Hb).
  assert (E : mono_canon ((x, deg) :: m') = mono_canon ((x, deg) :: m')) by reflexivity.
  apply (canon_cons_iff x deg m' _ (mono_canon_wf _) Hx) in E as [E1 E2].
  split; [apply mono_canon_wf|]. split; [now rewrite <- E1|].
  rewrite (D_rec o x l _ Hw (mono_canon_wf _)). rewrite <- E1, <- E2. unfold deg. rewrite Nat2N.id, nth_last.
  rewrite (mono_canon_of_wf m' Hm'). exact Hd.
Qed.

Lemma tden_none : forall T m x, (forall t, In t T -> mexp (fst t) x <> mexp m x) -> tden T m = 0.
Proof.
  induction T as [|[s a] T IH]; intros m x H; [reflexivity|]. rewrite (tden_cons (s, a) T), tden_one, (IH m x) by (intros t Ht; apply H; now right).
  destruct (mono_cmp (mono_canon s) m) eqn:E; try lia. apply mono_cmp_eq in E. exfalso. apply (H (s, a)); [now left|].
  cbn [fst]. now rewrite <- E, mexp_canon.
Qed.

(* ---------------------------------------------------------------- uniqueness *)
Definition Deq (c1 c2 : coef) : Prop := forall m, mono_wf m = true -> D c1 m = D c2 m.

Lemma good_child : forall o x l c, good o (CRec x l) -> In c l -> below o x c /\ good o c.
Proof.
  intros o x l c [Hw Hn] Hin. destruct (proj1 (wf_rec_iff o x l) Hw c Hin) as [Hb Hwc]. split; auto. split; auto. eapply norm_children; eauto.
Qed.

Lemma top_var_unique : forall o x l1 y l2, good o (CRec x l1) -> good o (CRec y l2) -> Deq (CRec x l1) (CRec y l2) -> ~ gtv o x y.
Proof.
  intros o x l1 y l2 H1 H2 He Hgt. destruct (lead_witness o x l1 H1) as (m & Hm & Hdeg & Hd).
  apply Hd. rewrite (He m Hm). apply (tden_none _ m x). intros t Ht.
  pose proof (traverse_below_mexp o x (CRec y l2) (proj1 H2) Hgt t Ht) as E0. destruct t as [st at']. cbn [fst] in *. rewrite E0.
  pose proof (proj2 H1) as Hn1; inversion Hn1; subst. lia.
Qed.

Lemma D_num : forall a m, D (CNum a) m = match mono_cmp [] m with Eq => a | _ => 0 end.
Proof. intros. cbn [traverse]. apply tden_one. Qed.

Theorem good_unique : forall o c1 c2, good o c1 -> good o c2 -> Deq c1 c2 -> c1 = c2.
Proof.
  intros o. induction c1 as [a|x l1 IH] using coef_ind2; intros [b|y l2] H1 H2 He.
  - specialize (He [] eq_refl). rewrite !D_num in He. cbn in He. now subst.
  - exfalso. destruct (lead_witness o y l2 H2) as (m & Hm & Hdeg & Hd). apply Hd. rewrite <- (He m Hm), D_num.
    destruct m as [|p m]; [|reflexivity]. cbn in Hdeg. pose proof (proj2 H2) as Hn2; inversion Hn2; subst. lia.
  - exfalso. destruct (lead_witness o x l1 H1) as (m & Hm & Hdeg & Hd). apply Hd. rewrite (He m Hm), D_num.
    destruct m as [|p m]; [|reflexivity]. cbn in Hdeg. pose proof (proj2 H1) as Hn1; inversion Hn1; subst. lia.
  - assert (Hxy : x = y).
    { destruct (N.eq_dec x y) as [|Hne]; auto. exfalso.
      destruct (Z_lt_le_dec 0 (cmp_var o x y)) as [Hgt|Hle].
      - exact (top_var_unique o x l1 y l2 H1 H2 He Hgt).
      - apply (top_var_unique o y l2 x l1 H2 H1); [intros m Hm; symmetry; now apply He|].
        unfold gtv. pose proof (cmp_var_antisym o x y). destruct (Z.eq_dec (cmp_var o x y) 0) as [E|]; [apply cmp_var_eq in E; contradiction|lia]. }
    subst y. f_equal.
    assert (Hnth : forall i, Deq (nth i l1 (CNum 0)) (nth i l2 (CNum 0))).
    { intros i m' Hm'.
      assert (Hch : forall l, good o (CRec x l) -> mexp m' x <> 0%N -> D (nth i l (CNum 0)) m' = 0).
      { intros l Hl Hx. destruct (Nat.lt_ge_cases i (length l)) as [Hi|Hi].
        - destruct (good_child o x l _ Hl (nth_In l (CNum 0) Hi)) as [Hb [Hwc _]].
          apply (tden_none _ m' x). intros t Ht. pose proof (traverse_below_mexp o x _ Hwc Hb t Ht) as E0.
          destruct t as [st at']. cbn [fst] in *. rewrite E0. auto.
        - rewrite nth_overflow by lia. cbn [traverse]. apply tden_zero. }
      destruct (N.eq_dec (mexp m' x) 0) as [Hx|Hx]; [|now rewrite (Hch l1 H1 Hx), (Hch l2 H2 Hx)].
      set (m := mono_canon ((x, N.of_nat i) :: m')).
      assert (E : m = m) by reflexivity. unfold m at 1 in E.
      apply (canon_cons_iff x (N.of_nat i) m' m (mono_canon_wf _) Hx) in E as [E1 E2].
      rewrite (mono_canon_of_wf m' Hm') in E2.
      pose proof (He m (mono_canon_wf _)) as Hem.
      rewrite (D_rec o x l1 m (proj1 H1) (mono_canon_wf _)), (D_rec o x l2 m (proj1 H2) (mono_canon_wf _)) in Hem.
      rewrite <- E1, <- E2, Nat2N.id in Hem. exact Hem. }
    assert (Hlen : length l1 = length l2).
    { assert (Hle : forall la lb, good o (CRec x la) -> good o (CRec x lb) -> Deq (CRec x la) (CRec x lb) -> (length la <= length lb)%nat).
      { intros la lb Ha Hb Hab. destruct (Nat.le_gt_cases (length la) (length lb)) as [|Hgt]; auto. exfalso.
        destruct (lead_witness o x la Ha) as (m & Hm & Hdeg & Hd). apply Hd. rewrite (Hab m Hm), (D_rec o x lb m (proj1 Hb) Hm).
        rewrite nth_overflow by lia. cbn [traverse]. apply tden_zero. }
      apply Nat.le_antisymm; [apply Hle; auto|apply Hle; auto]. intros m Hm; symmetry; now apply He. }
    apply (nth_ext l1 l2 (CNum 0) (CNum 0) Hlen). intros i Hi.
    rewrite Forall_forall in IH. apply (IH (nth i l1 (CNum 0)) (nth_In l1 (CNum 0) Hi)).
    + exact (proj2 (good_child o x l1 _ H1 (nth_In l1 (CNum 0) Hi))).
    + rewrite Hlen in Hi. exact (proj2 (good_child o x l2 _ H2 (nth_In l2 (CNum 0) Hi))).
    + apply Hnth.
Qed.

Lemma to_mpoly_Deq : forall c1 c2, to_mpoly c1 = to_mpoly c2 -> Deq c1 c2.
Proof. intros c1 c2 H m _. rewrite <- !to_mpoly_coeff. now rewrite H. Qed.

Theorem good_unique_den : forall o c1 c2, good o c1 -> good o c2 -> to_mpoly c1 = to_mpoly c2 -> c1 = c2.
Proof. intros o c1 c2 H1 H2 H. apply (good_unique o); auto. now apply to_mpoly_Deq. Qed.

(* structural comparison decides equality of denotations *)
Theorem coef_cmp_den : forall o c1 c2, good o c1 -> good o c2 -> (coef_cmp o c1 c2 = 0 <-> to_mpoly c1 = to_mpoly c2).
Proof.
  intros o c1 c2 H1 H2. rewrite (coef_cmp_eq o). split; [now intros ->|]. now apply (good_unique_den o).
Qed.
