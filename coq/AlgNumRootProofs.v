(* The REPAIRED dyadic_rational_root_approx of Scalar.v brackets the n-th root (stdlib only).
   (History.v keeps the pre-repair version and its refutation C07_root_approx_prefix_refuted.) *)
From Coq Require Import ZArith NArith Lia.
From LP Require Import Scalar ScalarProofs.
Local Open Scope Z_scope.

Lemma pow_le_l a b n : 0 <= a <= b -> 0 <= n -> a ^ n <= b ^ n.
Proof. intros H Hn. apply Z.pow_le_mono_l; lia. Qed.

(* bisection for the integer n-th root *)
Lemma iroot_fuel_spec n a : 0 < n -> forall fuel lo hi,
  0 <= lo < hi -> lo ^ n <= a < hi ^ n -> hi - lo <= 2 ^ Z.of_nat fuel ->
  let r := iroot_fuel fuel (Z.to_N n) a lo hi in 0 <= r /\ r ^ n <= a < (r + 1) ^ n.
Proof.
intros Hn. induction fuel as [|f IH]; intros lo hi Hlh Ha Hd; cbn [iroot_fuel].
- cbn in Hd. assert (hi = lo + 1) by lia. subst hi. split; [lia|exact Ha].
- destruct (hi - lo <=? 1) eqn:E.
  + apply Z.leb_le in E. assert (hi = lo + 1) by lia. subst hi. split; [lia|exact Ha].
  + apply Z.leb_gt in E. rewrite Z2N.id by lia.
    assert (Hm : lo < (lo + hi) / 2 < hi) by lia.
    assert (Hp : 2 ^ Z.of_nat (S f) = 2 * 2 ^ Z.of_nat f) by (rewrite Nat2Z.inj_succ, Z.pow_succ_r; lia).
    pose proof (Z.div_mod (lo + hi) 2 ltac:(lia)). pose proof (Z.mod_pos_bound (lo + hi) 2 ltac:(lia)).
    destruct (((lo + hi) / 2) ^ n <=? a) eqn:C.
    * apply Z.leb_le in C. apply IH; [lia|lia|lia].
    * apply Z.leb_gt in C. apply IH; [lia|lia|lia].
Qed.

Lemma iroot_spec n a : 0 < n -> 0 < a ->
  let r := iroot (Z.to_N n) a in 0 <= r /\ r ^ n <= a < (r + 1) ^ n.
Proof.
intros Hn Ha. unfold iroot. destruct (a <=? 0) eqn:E; [apply Z.leb_le in E; lia|].
rewrite Z2N.id by lia.
pose proof (Z.log2_spec a Ha) as [L1 L2]. pose proof (Z.log2_nonneg a) as L0.
set (l := Z.log2 a) in *.
assert (Hq : 0 <= l / n) by (apply Z.div_pos; lia).
unfold pow2. rewrite Z2N.id by lia.
apply iroot_fuel_spec; try lia.
- split.
  + rewrite Z.pow_0_l by lia. lia.
  + rewrite <- Z.pow_mul_r by lia.
    apply Z.lt_le_trans with (2 ^ (l + 1)); [replace (l + 1) with (Z.succ l) by lia; exact L2|].
    apply Z.pow_le_mono_r; [lia|].
    pose proof (Z.div_mod l n ltac:(lia)). pose proof (Z.mod_pos_bound l n Hn). nia.
- rewrite Nat2Z.inj_succ, Z2Nat.id by lia.
  apply Z.le_trans with (2 ^ (l / n + 1)); [lia|].
  apply Z.pow_le_mono_r; [lia|].
  assert (l / n <= l) by (apply Z.div_le_upper_bound; nia). lia.
Qed.

(* the exponent chosen by root_approx: a multiple of n, at least dn a *)
Lemma pad_spec (k0 n : N) : (0 < n)%N ->
  let k := (if (k0 mod n =? 0)%N then k0 else k0 + (n - k0 mod n))%N in
  (k0 <= k)%N /\ (k = k / n * n)%N.
Proof.
intros Hn k. pose proof (N.div_mod k0 n ltac:(lia)) as D. pose proof (N.mod_lt k0 n ltac:(lia)) as M.
subst k. destruct (k0 mod n =? 0)%N eqn:E.
- apply N.eqb_eq in E. split; [lia|]. rewrite E, N.add_0_r in D. lia.
- apply N.eqb_neq in E. split; [lia|].
  assert (H : (k0 + (n - k0 mod n) = (k0 / n + 1) * n)%N) by nia.
  rewrite H, N.div_mul by lia. lia.
Qed.

(* FLOOR: result = normalisation of r / 2^e with (r / 2^e)^n <= a, i.e. r^n * 2^(dn a) <= da a * 2^(e n);
   CEIL:  result = normalisation of r / 2^e with a <= (r / 2^e)^n;   exact flag => equality.
   (dy_normalize keeps the denoted value: ScalarProofs.dy_normalize_spec.) *)
Theorem dy_root_approx_floor a n prec : 0 < da a -> (0 < n)%N ->
  exists r e, fst (dy_root_approx a n prec false) = dy_normalize (mkDy r e) /\ 0 <= r /\
    r ^ Z.of_N n * pow2 (dn a) <= da a * pow2 (e * n) /\
    (snd (dy_root_approx a n prec false) = true -> r ^ Z.of_N n * pow2 (dn a) = da a * pow2 (e * n)).
Proof.
intros Ha Hn. unfold dy_root_approx. destruct (da a =? 0) eqn:E0; [apply Z.eqb_eq in E0; lia|].
set (k0 := if (dn a <? prec)%N then prec else dn a).
assert (Hk0 : (dn a <= k0)%N) by (subst k0; destruct (dn a <? prec)%N eqn:E; [apply N.ltb_lt in E|]; lia).
pose proof (pad_spec k0 n Hn) as [K1 K2]. cbn zeta in K1, K2.
set (k := (if (k0 mod n =? 0)%N then k0 else k0 + (n - k0 mod n))%N) in *.
set (x := da a * pow2 (k - dn a)).
assert (Hx : 0 < x) by (subst x; pose proof (pow2_pos (k - dn a)); nia).
pose proof (iroot_spec (Z.of_N n) x ltac:(lia) Hx) as [R0 [R1 R2]]. rewrite N2Z.id in *.
set (r := iroot n x) in *.
assert (P : pow2 (k / n * n) = pow2 (k - dn a) * pow2 (dn a)).
{ rewrite <- K2. rewrite <- pow2_add. f_equal. lia. }
exists r, (k / n)%N. cbn [andb negb fst snd]. split; [reflexivity|]. split; [exact R0|]. split.
- rewrite P. subst x. pose proof (pow2_pos (dn a)). nia.
- intros Hex. apply Z.eqb_eq in Hex. rewrite P, Hex. subst x. ring.
Qed.

Theorem dy_root_approx_ceil a n prec : 0 < da a -> (0 < n)%N ->
  exists r e, fst (dy_root_approx a n prec true) = dy_normalize (mkDy r e) /\ 0 <= r /\
    da a * pow2 (e * n) <= r ^ Z.of_N n * pow2 (dn a).
Proof.
intros Ha Hn. unfold dy_root_approx. destruct (da a =? 0) eqn:E0; [apply Z.eqb_eq in E0; lia|].
set (k0 := if (dn a <? prec)%N then prec else dn a).
assert (Hk0 : (dn a <= k0)%N) by (subst k0; destruct (dn a <? prec)%N eqn:E; [apply N.ltb_lt in E|]; lia).
pose proof (pad_spec k0 n Hn) as [K1 K2]. cbn zeta in K1, K2.
set (k := (if (k0 mod n =? 0)%N then k0 else k0 + (n - k0 mod n))%N) in *.
set (x := da a * pow2 (k - dn a)).
assert (Hx : 0 < x) by (subst x; pose proof (pow2_pos (k - dn a)); nia).
pose proof (iroot_spec (Z.of_N n) x ltac:(lia) Hx) as [R0 [R1 R2]]. rewrite N2Z.id in *.
set (r := iroot n x) in *.
assert (P : pow2 (k / n * n) = pow2 (k - dn a) * pow2 (dn a)).
{ rewrite <- K2. rewrite <- pow2_add. f_equal. lia. }
pose proof (pow2_pos (dn a)) as Hp.
destruct (r ^ Z.of_N n =? x) eqn:Ex; cbn [andb negb fst].
- apply Z.eqb_eq in Ex. exists r, (k / n)%N. split; [reflexivity|]. split; [exact R0|].
  rewrite P, Ex. subst x. nia.
- exists (r + 1), (k / n)%N. split; [reflexivity|]. split; [lia|].
  rewrite P. subst x. nia.
Qed.

(* zero is its own root *)
Theorem dy_root_approx_zero a n prec c : da a = 0 -> dy_root_approx a n prec c = (mkDy (da a) (dn a), true).
Proof. intros H. unfold dy_root_approx. rewrite H. reflexivity. Qed.
