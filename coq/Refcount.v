(* C19 (part): reference counting of rings, variable databases, variable orders and polynomial contexts
   as a state machine.  Mirrors lp_*_attach / lp_*_detach / lp_*_new:
     - every object has a counter; `new` constructs with counter 0 and attaches once;
     - attaching a context also attaches its ring, variable db and order (its "kids"), detaching a context
       detaches them, then decrements, and destroys the object when the counter reaches 0
       (polynomial_context.c); leaf objects (ring, db, order) have no kids.
   Objects are numbered in creation order; kids must exist (so they have smaller numbers).
   Executable, stdlib only; proofs are in RefcountProofs.v. *)
From Coq Require Import Arith List Bool.
Import ListNotations.

Record rstate := {
  nxt : nat;                   (* number of objects created so far *)
  cnt : nat -> nat;            (* ref_count field *)
  live : nat -> bool;          (* not yet destroyed (memory still allocated) *)
  kids : nat -> list nat;      (* objects a context points to (with multiplicity) *)
}.

Definition upd {A} (f : nat -> A) (i : nat) (v : A) : nat -> A := fun j => if Nat.eqb j i then v else f j.

Definition init : rstate := {| nxt := 0; cnt := fun _ => 0; live := fun _ => false; kids := fun _ => [] |}.

(* ++ref_count on a leaf (lp_int_ring_attach, lp_variable_db_attach, lp_variable_order_attach) *)
Definition inc (s : rstate) (i : nat) : rstate :=
  {| nxt := nxt s; cnt := upd (cnt s) i (S (cnt s i)); live := live s; kids := kids s |}.
(* --ref_count, destroy at 0 *)
Definition dec (s : rstate) (i : nat) : rstate :=
  let c := pred (cnt s i) in
  {| nxt := nxt s; cnt := upd (cnt s) i c; live := if Nat.eqb c 0 then upd (live s) i false else live s; kids := kids s |}.

(* lp_polynomial_context_attach: attach the kids, then ++ref_count *)
Definition attach (s : rstate) (i : nat) : rstate := inc (fold_left inc (kids s i) s) i.
(* lp_polynomial_context_detach: detach the kids, then --ref_count and destroy at 0 *)
Definition detach (s : rstate) (i : nat) : rstate := dec (fold_left dec (kids s i) s) i.
(* lp_*_new: construct with ref_count 0, then attach *)
Definition create (s : rstate) (ks : list nat) : rstate :=
  let i := nxt s in
  attach {| nxt := S i; cnt := upd (cnt s) i 0; live := upd (live s) i true; kids := upd (kids s) i ks |} i.

Inductive rop := New (ks : list nat) | Attach (i : nat) | Detach (i : nat).

(* ghost state: holds u i = number of outstanding references to i held by users (the creator, explicit
   attaches, polynomials attached to a context, ...) *)
Definition holds := nat -> nat.

(* an operation is permitted (the API contract: only holders call detach, only live objects are used,
   contexts are created over live leaf objects) *)
Definition permitted (s : rstate) (h : holds) (o : rop) : bool :=
  match o with
  | New ks => forallb (fun k => Nat.ltb k (nxt s) && live s k && match kids s k with [] => true | _ => false end) ks
  | Attach i => Nat.ltb i (nxt s) && live s i
  | Detach i => Nat.ltb i (nxt s) && Nat.ltb 0 (h i)
  end.

Definition step (sh : rstate * holds) (o : rop) : rstate * holds :=
  let '(s, h) := sh in
  if permitted s h o then
    match o with
    | New ks => (create s ks, upd h (nxt s) 1)
    | Attach i => (attach s i, upd h i (S (h i)))
    | Detach i => (detach s i, upd h i (pred (h i)))
    end
  else sh.   (* calls outside the contract are not part of the modelled histories *)

Definition run (ops : list rop) : rstate * holds := fold_left step ops (init, fun _ => 0).

(* number of live objects among the first n *)
Fixpoint live_count (s : rstate) (n : nat) : nat :=
  match n with O => 0 | S m => (if live s m then 1 else 0) + live_count s m end.
