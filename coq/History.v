(* Regression memory (DESIGN 2.4): the pre-repair versions of functions whose defects were found by
   this development, each with a machine-checked refutation of the property on the faithful model of
   the pinned code.  The witnesses are also kept in /verif/corpus and replayed on every run. *)
From Coq Require Import ZArith List Bool.
From LP Require Import Scalar.
Local Open Scope Z_scope.

(* dyadic_rational_neg of the pinned tree: only the numerator is written *)
Definition dy_neg_prefix (al : alias) (dst a : dyadic) : dyadic :=
  set_a dst (- da (rdA al dst a)).

(* C17/C19: the result depends on the previous contents of the output operand:
   -(1/2) written into a fresh output (0/2^0) gives -1 *)
Theorem C17_dy_neg_prefix_refuted :
  exists dst1 dst2 a, dy_neg_prefix NoAlias dst1 a <> dy_neg_prefix NoAlias dst2 a.
Proof. exists (mkDy 0 0), (mkDy 5 3), (mkDy 1 1). vm_compute. discriminate. Qed.

(* dyadic_rational_mul_2exp of the pinned tree: the shift uses the OUTPUT's old exponent *)
Definition dy_mul_2exp_prefix (al : alias) (dst a : dyadic) (n : N) : dyadic :=
  let d1 := set_a dst (da (rdA al dst a)) in
  let a1 := rdA al d1 a in
  if (n <=? dn a1)%N then set_n d1 (dn a1 - n)
  else
    let d2 := set_a d1 (da a1 * pow2 (n - dn d1)) in
    set_n d2 0%N.

(* 3/2 * 2^4 into an output holding 5/8 gives 6, into a fresh output 48 *)
Theorem C17_dy_mul_2exp_prefix_refuted :
  exists dst1 dst2 a n, dy_mul_2exp_prefix NoAlias dst1 a n <> dy_mul_2exp_prefix NoAlias dst2 a n.
Proof. exists (mkDy 0 0), (mkDy 5 3), (mkDy 3 1), 4%N. vm_compute. discriminate. Qed.

(* dyadic_rational_root_approx of the pinned tree: k += k % n does not make k a multiple of n *)
Definition dy_root_approx_prefix (a : dyadic) (n prec : N) (ceil : bool) : dyadic * bool :=
  if da a =? 0 then (mkDy (da a) (dn a), true)
  else
    let k0 := if (dn a <? prec)%N then prec else dn a in
    let k := (k0 + k0 mod n)%N in
    let x := da a * pow2 (k - dn a) in
    let r := iroot n x in
    let exact := Z.pow r (Z.of_N n) =? x in
    let r' := if ceil && negb exact then r + 1 else r in
    (dy_normalize (mkDy r' (k / n)%N), exact).

(* "floor" cube root of 3/2 at precision 5 is 5/4, but (5/4)^3 = 125/64 > 3/2 *)
Theorem C07_root_approx_prefix_refuted :
  let r := fst (dy_root_approx_prefix (mkDy 3 1) 3 5 false) in
  r = mkDy 5 2 /\ (da r ^ 3 * pow2 1 >? 3 * pow2 (3 * dn r)) = true.
Proof. vm_compute. split; reflexivity. Qed.
