(* C11 / C12 top level: acceptance by the executable checkers RootCheck.accept_roots, FeasCheck.accept_feasible and
   FeasCheck.accept_root_constraint implies exactness over every real closed field. *)
From Coq Require Import ZArith NArith List Bool Lia.
From LP Require Import Scalar UPoly MPoly RefAlg FeasSweep FeasSweepProofs FeasSweepNat RootCheck FeasCheck.
Set Warnings "-notation-overridden,-ambiguous-paths".
From mathcomp Require Import all_ssreflect all_algebra all_field all_real_closed.
From mathcomp Require Import ssrZ zify ring.
Set Warnings "notation-overridden,ambiguous-paths".
From LP Require Import UPolySpec ScalarProofs GcdSpec SylvesterProofs RefAlgSpec RefAlgLoops RefAlgOps RefAlgDet RefAlgAnn RefAlgArith RefAlgSqfree RefAlgFinal RefAlgRoots RefAlgRat RefAlgPow RefAlgCmp.
From LP Require RootIsoProofs RefAlgValid MPolySpec BoundsProofs.
From LP Require Import FeasSweepRcf.
From LP Require RootCheckAlg.
From LP Require Import RootCheckBase.
Import GRing.Theory Num.Theory Num.Def Order.TTheory.
Set Implicit Arguments.
Unset Strict Implicit.
Unset Printing Implicit Defensive.
Local Open Scope ring_scope.

Local Notation updR := RootCheckBase.upd.

(* ================================================================== generalities *)
Section Gen.
Variable R : rcfType.
Local Notation zr := (@zr R).
Local Notation pr := (@pr R).
Local Notation qr := (@qr R).

(* a non-zero polynomial has a non-root *)
Lemma poly_nz_val (Q : {poly R}) : Q != 0 -> exists t, Q.[t] != 0.
Proof.
move=> Q0; exists (cauchy_bound Q); apply/negP => /eqP H.
have := cauchy_boundP Q0 H; rewrite gtr0_norm ?ltxx //; exact: cauchy_bound_gt0.
Qed.

Lemma poly_all0 (Q : {poly R}) : (forall t, Q.[t] = 0) -> Q = 0.
Proof.
move=> H; apply/eqP; apply/negPn/negP => /poly_nz_val [t]; by rewrite H eqxx.
Qed.

Lemma zr_zsg (x : R) : zr (zsg x) = sgr x.
Proof.
rewrite /zsg; case: (ltgtP x 0) => H.
- by rewrite ltr0_sgz // ltr0_sg //= /RefAlgSpec.zr /= mulrN1z.
- by rewrite gtr0_sgz // gtr0_sg //=.
- by rewrite H sgz0 sgr0 /= zr0.
Qed.

Lemma zsg_of (s : Z) (x : R) : zr s = sgr x -> s = zsg x.
Proof. by rewrite -zr_zsg => /zr_inj. Qed.

Lemma zsg_pmul (M x : R) : 0 < M -> zsg (M * x) = zsg x.
Proof. by move=> M0; rewrite /zsg sgzM gtr0_sgz // mul1r. Qed.

Lemma nth_map_sgn (l : seq Z) k : nth Z0 [seq Z.sgn i | i <- l] k = Z.sgn (nth Z0 l k).
Proof. by elim: l k => [|c l IH] [|k] //=. Qed.

Lemma zsg0 : zsg (0 : R) = Z0.
Proof. by rewrite /zsg sgz0. Qed.

End Gen.

(* ================================================================== (A) the root checker *)
Section Roots.
Variable R : rcfType.
Local Notation zr := (@zr R).
Local Notation pr := (@pr R).
Local Notation qr := (@qr R).
Local Notation rn_denotes := (@rn_denotes R).
Local Notation dens := (@dens R).
Local Notation spec_poly := (@RootCheckAlg.spec_poly R).

Lemma accept_roots_inv fuel a y p rs : accept_roots fuel a y p rs = Accept ->
  [/\ mp_wf p, forallb rn_valid rs, forallb (fun vr : MPoly.var * rnum => rn_valid vr.2) a,
      existsb (fun vr : MPoly.var * rnum => N.eqb vr.1 y) a = false
    & match irrationals (norm_asg a) with
      | [::] => accept_rational fuel y (subst_rationals (norm_asg a) p) (List.map rn_norm rs) = Accept
      | [:: (x, alpha)] =>
        accept_one_alg fuel x y alpha (subst_rationals (norm_asg a) p) (List.map rn_norm rs) = Accept
      | _ => Logic.False
      end].
Proof.
rewrite /accept_roots; case: (mp_wf p) => //=; case: (forallb rn_valid rs) => //=.
case: (forallb _ a) => //=; case: (existsb _ a) => //=.
by case: (irrationals _) => [|[x alpha] [|? ?]] //.
Qed.

Lemma norm_asg_denotes (a : asg) (rho : MPoly.var -> R) :
  (forall v r, List.In (v, r) a -> rn_denotes (rn_norm r) (rho v)) -> asg_denotes (norm_asg a) rho.
Proof.
move=> Ha v r /List.in_map_iff [[v' r'] [[<- <-] Hin]] /=; exact: Ha.
Qed.

Lemma norm_asg_unassigned (a : asg) (y : MPoly.var) :
  existsb (fun vr : MPoly.var * rnum => N.eqb vr.1 y) a = false -> forall r, ~ List.In (y, r) (norm_asg a).
Proof.
move=> He r /List.in_map_iff [[v' r'] [[Ev _] Hin]].
have : existsb (fun vr : MPoly.var * rnum => N.eqb vr.1 y) a = true.
  by apply/List.existsb_exists; exists (v', r'); split=> //=; apply/N.eqb_eq.
by rewrite He.
Qed.

Lemma valid_norm_denote (rs : seq rnum) : forallb rn_valid rs ->
  forall r, List.In r (List.map rn_norm rs) -> exists v : R, rn_denotes r v.
Proof.
move=> /List.forallb_forall H r /List.in_map_iff [r' [<- /H Hv]]; exact: rn_valid_denotes.
Qed.

Lemma sgr_pmul (M x : R) : 0 < M -> sgr (M * x) = sgr x.
Proof. by move=> M0; rewrite sgrM gtr0_sg // mul1r. Qed.

(* the informative statement: the specialised polynomial Q (up to a positive constant), its roots, the oracles *)
Theorem accept_roots_full fuel a y p rs (rho : MPoly.var -> R) :
  (forall v r, List.In (v, r) a -> rn_denotes (rn_norm r) (rho v)) ->
  accept_roots fuel a y p rs = Accept ->
  exists (Q : {poly R}) (M : R) (vs : seq R),
    [/\ 0 < M, forall t, Q.[t] = M * mp_evalR (updR rho y t) p,
        forall cs, coeff_signs fuel a y p = Some cs ->
          (size Q <= size cs)%N /\ forall k, zr (nth Z0 cs k) = sgr Q`_k,
        forall q s, qpos q -> sign_at fuel a y p q = Some s -> zr s = sgr Q.[qr q]
      & [/\ dens (List.map rn_norm rs) vs, sorted <%R vs
          & (Q = 0 /\ vs = [::]) \/ (Q != 0 /\ forall t, (t \in vs) = root Q t)]].
Proof.
move=> Ha /accept_roots_inv [wp Vrs Va Hy Hacc].
have Da := norm_asg_denotes Ha; have Uy := norm_asg_unassigned Hy.
have Hrs := valid_norm_denote Vrs.
have [M M0 HM] := subst_rationals_upd wp Da Uy.
have wp1 := subst_rationals_wf (norm_asg a) wp.
move: Hacc HM wp1; rewrite /coeff_signs /sign_at.
set a' := norm_asg a in Da Uy *; set p1 := subst_rationals a' p => Hacc HM wp1.
case Eirr: (irrationals a') Hacc => [|[x alpha] [|? ?]] // Hacc.
- (* every assigned value rational *)
  have Ho : only_vars [:: y] p1 by move: Hacc; rewrite /accept_rational; case: (only_vars _ _).
  pose Q : {poly R} := pr (mp_to_upoly y p1).
  have Hev t : mp_evalR (updR rho y t) p1 = Q.[t] by rewrite (upoly_view _ wp1 Ho) upd_same.
  have [vs [Hd Hs Hcase]] := accept_rational_exact rho wp1 Hrs Hacc.
  exists Q, M, vs; split=> //.
  + by move=> t; rewrite -Hev HM.
  + rewrite Ho => cs [<-]; rewrite List_map_map /Q /RefAlgSpec.pr; set l := mp_to_upoly y p1.
    rewrite size_map; split; first by rewrite (leq_trans (size_poly _ _)) // size_Poly.
    by move=> k; rewrite coef_map coef_Poly zr_sgn; congr zr; exact: nth_map_sgn.
  + move=> q s Hq; case Ho2: (only_vars _ _) => // -[<-].
    have Eq : updR rho y (qr q) y = qr q by rewrite upd_same.
    have [E2 w2 _ _] := subst_rat_spec wp1 Hq Eq.
    have := @const_view R (updR rho y (qr q)) _ w2 (proj1 (only_vars_in _ _) Ho2).
    rewrite -mp_evalR_B E2 Hev -zr_sgn => <-; rewrite sgr_pmul // exprn_gt0 //; exact: zr_gt0.
  + split=> //; case: Hcase => [[H0 ->]|[[t0 Ht] Hin]]; [left|right].
      by split=> //; apply: poly_all0 => t; rewrite -Hev.
    split; first by apply: contraNneq Ht => E; rewrite Hev E horner0.
    by move=> t; rewrite Hin Hev rootE.
- (* one irrational value *)
  have [Ho xy] : only_vars [:: x; y] p1 /\ x <> y.
    move: Hacc; rewrite /accept_one_alg; case: (only_vars _ _) => //=.
    by case E: (N.eqb x y) => //= _; split=> //; apply/N.eqb_neq.
  have Hacc' : accept_bv fuel alpha (bv_of x y p1) (List.map rn_norm rs) = Accept.
    by move: Hacc; rewrite /accept_one_alg Ho; case E: (N.eqb x y) => //; move/N.eqb_eq: E.
  have Halpha : rn_denotes alpha (rho x).
    apply: Da; have : List.In (x, alpha) (irrationals a') by rewrite Eirr; left.
    by rewrite /irrationals => /List.filter_In [].
  pose By := bv_of x y p1; pose Q : {poly R} := spec_poly By (rho x).
  have Hev t : mp_evalR (updR rho y t) p1 = Q.[t].
    rewrite (bv_view _ wp1 Ho xy) upd_same (upd_other _ _ xy) /Q RootCheckAlg.spec_polyE.
    by rewrite RootCheckAlg.horner_sp.
  have [vs [Hd Hs Hcase]] := RootCheckAlg.accept_bv_exact (@sign_alg_spec R) Halpha Hrs Hacc'.
  exists Q, M, vs; split=> //.
  + by move=> t; rewrite -Hev HM.
  + rewrite Ho; have -> /= : negb (N.eqb x y) = true by apply/negP => /N.eqb_eq.
    move=> cs Hcs.
    have Hcs' : all_some (List.map (fun c => sign_alg fuel c alpha) By) = Some cs.
      by rewrite /By /bv_of List.map_map.
    have [Hsz Hn] := RootCheckAlg.all_some_nth Z0 Hcs'.
    rewrite !List_map_map size_map in Hsz Hn.
    have Hco k : Q`_k = (pr (nth [::] By k)).[rho x].
      by rewrite /Q RootCheckAlg.spec_polyE RootCheckAlg.coef_sp.
    split.
      apply/leq_sizeP => k Hk; rewrite Hco nth_default ?pr_nil ?horner0 //.
      by rewrite -Hsz.
    move=> k; rewrite Hco; case: (ltnP k (size By)) => Hk.
      by have := Hn k Hk; rewrite (nth_map [::]) // => /(sign_alg_spec Halpha).
    by rewrite !nth_default ?Hsz // pr_nil horner0 sgr0 zr0.
  + move=> q s Hq; case Ho2: (only_vars _ _) => // Hs'.
    have Eq : updR rho y (qr q) y = qr q by rewrite upd_same.
    have [E2 w2 _ _] := subst_rat_spec wp1 Hq Eq.
    rewrite (sign_alg_spec Halpha Hs') pr_pnorm.
    have := upoly_view (updR rho y (qr q)) w2 Ho2; rewrite (upd_other _ _ xy) => <-.
    by rewrite E2 Hev sgr_pmul // exprn_gt0 //; exact: zr_gt0.
Qed.

Lemma spec_polynomial fuel a y p rs (rho : MPoly.var -> R) :
  (forall v r, List.In (v, r) a -> rn_denotes (rn_norm r) (rho v)) ->
  accept_roots fuel a y p rs = Accept ->
  exists (Q : {poly R}) (M : R), 0 < M /\ (forall t, Q.[t] = M * mp_evalR (updR rho y t) p) /\
    (forall cs, coeff_signs fuel a y p = Some cs ->
       (size Q <= size cs)%N /\ forall k, zr (nth Z0 cs k) = Num.sg Q`_k) /\
    (forall q s, qpos q -> sign_at fuel a y p q = Some s -> zr s = Num.sg Q.[qr q]).
Proof.
move=> Ha Hacc; have [Q [M [vs [M0 HQ Hcs Hsg _]]]] := accept_roots_full Ha Hacc.
by exists Q, M.
Qed.

Theorem accept_roots_exact (fuel : nat) (a : asg) (y : MPoly.var) (p : mpoly) (rs : seq rnum) (rho : MPoly.var -> R) :
  (forall v r, List.In (v, r) a -> rn_denotes (rn_norm r) (rho v)) ->
  accept_roots fuel a y p rs = Accept ->
  exists vs : seq R,
    [/\ dens (List.map rn_norm rs) vs, sorted <%R vs
      & ((forall t, mp_evalR (updR rho y t) p = 0) /\ vs = [::]) \/
        ((exists t, mp_evalR (updR rho y t) p != 0) /\
         forall t, (t \in vs) = (mp_evalR (updR rho y t) p == 0)) ].
Proof.
move=> Ha Hacc; have [Q [M [vs [M0 HQ _ _ [Hd Hs Hcase]]]]] := accept_roots_full Ha Hacc.
have Mn : M != 0 by rewrite gt_eqF.
exists vs; split=> //.
case: Hcase => [[Q0 ->]|[Q0 Hin]]; [left|right].
  split=> // t; have /eqP := HQ t; rewrite Q0 horner0 eq_sym mulf_eq0 (negbTE Mn) /=.
  by move/eqP.
split.
  have [t Ht] := poly_nz_val Q0; exists t; move: Ht; rewrite HQ mulf_eq0 negb_or.
  by case/andP.
by move=> t; rewrite Hin rootE HQ mulf_eq0 (negbTE Mn).
Qed.

End Roots.

(* ================================================================== (B) the feasible-set checkers *)
Lemma ext_eqb_eq (a b : FeasSweep.ext Z) : ext_eqb a b = true -> a = b.
Proof. by case: a b => [|x|] [|z|] //= /Z.eqb_eq ->. Qed.

Lemma iv_eqb_eq (i j : FeasSweep.interval Z) : iv_eqb i j = true -> i = j.
Proof.
case: i j => [a|a ao b bo] [a'|a' ao' b' bo'] //=; first by move/ext_eqb_eq => ->.
by move=> /andP[/andP[/andP[/ext_eqb_eq -> /Bool.eqb_prop ->] /ext_eqb_eq ->] /Bool.eqb_prop ->].
Qed.

Lemma set_eqb_eq (s t : seq (FeasSweep.interval Z)) : set_eqb s t = true -> s = t.
Proof. by elim: s t => [|i s IH] [|j t] //= /andP[/iv_eqb_eq -> /IH ->]. Qed.

Section Feas.
Variable R : rcfType.
Local Notation zr := (@zr R).
Local Notation pr := (@pr R).
Local Notation qr := (@qr R).
Local Notation rn_denotes := (@rn_denotes R).
Local Notation dens := (@dens R).

(* the real number denoted by the root of rank i *)
Definition phi (vs : seq R) (i : Z) : R := nth 0 vs (Z.to_nat i).

Lemma map_phi_ranks (vs : seq R) : List.map (phi vs) (ranks (size vs)) = vs.
Proof.
rewrite /ranks List.map_map List_map_map List_seq_iota.
have -> : [seq phi vs (Z.of_nat i) | i <- iota 0 (size vs)] = mkseq (nth 0 vs) (size vs).
  by apply: eq_map => i; rewrite /phi Nat2Z.id.
exact: mkseq_nth.
Qed.

Lemma phi_mono (vs : seq R) : sorted <%R vs ->
  forall a b : Z, List.In a (ranks (size vs)) -> List.In b (ranks (size vs)) ->
  cmpR (phi vs a) (phi vs b) = zcmp a b.
Proof.
move=> Hs a b /List.in_map_iff [i [<- /List.in_seq Hi]] /List.in_map_iff [j [<- /List.in_seq Hj]].
rewrite /phi !Nat2Z.id /cmpR /zcmp.
have Hi' : i \in [pred n | (n < size vs)%N] by rewrite inE; apply/ssrnat.ltP; lia.
have Hj' : j \in [pred n | (n < size vs)%N] by rewrite inE; apply/ssrnat.ltP; lia.
rewrite (lt_sorted_ltn_nth 0 Hs) // nth_uniq //; last exact: lt_sorted_uniq.
case: (ltngtP i j) => H; symmetry.
- by apply/Z.compare_lt_iff; lia.
- by apply/Z.compare_gt_iff; lia.
- by apply/Z.compare_eq_iff; lia.
Qed.

Lemma dens_size (rs : seq rnum) (vs : seq R) : dens rs vs -> size rs = size vs.
Proof. by elim: rs vs => [|r rs IH] [|v vs] //= [_ /IH ->]. Qed.

(* the sample points separate the consecutive roots *)
Lemma separates_spec (rs : seq rnum) (mids : seq (Z * Z)) (vs : seq R) :
  dens rs vs -> separates rs mids ->
  forall i, (i.+1 < size vs)%N ->
  [/\ (i < size mids)%N, qpos (nth (Z0, Zpos xH) mids i)
    & nth 0 vs i < qr (nth (Z0, Zpos xH) mids i) < nth 0 vs i.+1].
Proof.
elim: rs mids vs => [|r rs IH] mids [|v vs] //.
case: rs IH => [|r' rs] IH; case: vs => [|v' vs] //; first by case=> _ [].
case: mids => [|q mids] // [Hr Hd] /= /andP[/andP[/andP[Hq Hlt] Hgt] Hsep].
have Hq' : qpos q by move: Hq; rewrite /q_is_canon => /andP[/Z.ltb_lt].
case=> [|i] Hi; last exact: (IH mids (v' :: vs) Hd Hsep i).
split=> //=; case: Hd => Hr' _.
by rewrite -(rn_cmp_q_lt Hr Hq') -(rn_cmp_q_gt Hr' Hq') Hlt Hgt.
Qed.

(* the degree and the two coefficient signs read off the exact signs of all coefficients *)
Lemma degree_of_signs (cs : seq Z) (Q : {poly R}) :
  (forall k, zr (nth Z0 cs k) = sgr Q`_k) ->
  let d := match last_nonzero cs 0 None with Some d => d | None => 0%N end in
  [/\ d = (size Q).-1, nth Z0 cs 0 = zsg Q`_0 & nth Z0 cs d = zsg (lead_coef Q)].
Proof.
move=> H d.
have Hs k : Z.eqb (nth Z0 cs k) Z0 = (Q`_(0 + k) == 0) by rewrite -(zr_eq0 R) H sgr_eq0.
have Ed : d = (size Q).-1.
  rewrite /d; have := @RootCheckAlg.lnzP R cs (fun k => Q`_k) 0%N None Hs.
  case: (last_nonzero _ _ _) => [e|] Hl.
    case: Hl => // [[]|[_ ce Hz]] //.
    suff -> : size Q = e.+1 by [].
    apply/eqP; rewrite eqn_leq; apply/andP; split; first by apply/leq_sizeP => k Hk; exact: Hz.
    exact: coef_neq0_size.
  have [_ Hz] := Hl (fun d' => ltac:(done)).
  have -> : Q = 0 by apply/polyP => k; rewrite coef0 Hz.
  by rewrite size_poly0.
split=> //; first exact: zsg_of.
by rewrite lead_coefE -Ed; exact: zsg_of.
Qed.

(* the sweep on the exact data of a polynomial (possibly zero) *)
Theorem poly_sweep (Q : {poly R}) (vs : seq R) (mids : nat -> R) (sm : nat -> Z) sc negated :
  sorted <%R vs ->
  (Q = 0 /\ vs = [::]) \/ (Q != 0 /\ forall t, (t \in vs) = root Q t) ->
  (forall i, (i.+1 < size vs)%N -> nth 0 vs i < mids i < nth 0 vs i.+1 /\ sm i = zsg Q.[mids i]) ->
  let res := constraint_feasible_set R (@cmpR R) vs (size Q).-1 (zsg Q`_0) (zsg (lead_coef Q)) sm sc negated in
  (forall v : R, set_contains R (@cmpR R) res v = xorb negated (sc_consistent sc (zsg Q.[v]))) /\
  set_nf R (@cmpR R) res = true.
Proof.
move=> srt [[-> ->]|[pn0 Hroot]] midsP.
  apply: (@constraint_feasible_set_exact R (@cmpR R) (@cmpR_total_order R) [::] _ _ _ _ sc negated
            (fun v => zsg (0 : {poly R}).[v]) (fun k => Z0)).
  - exact: increasing_sorted.
  - by move=> _ v; rewrite horner0 coef0.
  - by rewrite size_poly0.
have rootE x : root Q x = (x \in vs) by rewrite Hroot.
have [C1 C2 C3 C4] := poly_sign_cells_sample pn0 srt rootE.
apply: (@constraint_feasible_set_exact R (@cmpR R) (@cmpR_total_order R) vs _ _ _ _ sc negated
          (fun v => zsg Q.[v]) (fun k => Zint (cell_sign Q vs k))).
- exact: increasing_sorted.
- move=> d0 v; have sp : (size Q <= 1)%N by rewrite -subn_eq0 subn1 d0.
  by rewrite {1}(size1_polyC sp) hornerC.
- move=> _; split; [|split; [|split; [|split]]].
  + by move=> r /InE; rewrite -rootE /zsg => /eqP ->; rewrite sgz0.
  + by move=> v /InE /negP nv; rewrite rankE /zsg C1.
  + by rewrite lengthE C3.
  + move=> _; rewrite C4 -signr_odd Nat_oddE; case: (odd _).
      by rewrite expr1 mulN1r ZintN.
    by rewrite expr0 mul1r.
  + move=> i; rewrite !Nat.add_1_r lengthE => /ssrnat.ltP ilt.
    have [Hm ->] := midsP i ilt.
    have [lo hi] := mid_bounds srt ilt Hm.
    by rewrite /zsg C1 ?(rank_between (ltnW ilt) lo hi) // (notin_between lo hi).
Qed.

(* what an accepted oracle contains *)
Lemma sweep_oracle_inv fuel a y p mids d c0 lc ms :
  sweep_oracle fuel a y p mids = Some (d, c0, lc, ms) ->
  exists cs, [/\ coeff_signs fuel a y p = Some cs,
                 d = match last_nonzero cs 0 None with Some d => d | None => 0%N end,
                 c0 = nth Z0 cs 0, lc = nth Z0 cs d
               & all_some (List.map (sign_at fuel a y p) mids) = Some ms].
Proof.
rewrite /sweep_oracle; case: (coeff_signs _ _ _ _) => [cs|] //.
case: (all_some _) => [ms'|] // [<- <- <- <-]; exists cs; split=> //; exact: List_nth_nth.
Qed.

Lemma zsg_eval (Q : {poly R}) (M : R) (rho : MPoly.var -> R) y p :
  0 < M -> (forall t, Q.[t] = M * mp_evalR (updR rho y t) p) ->
  forall v, zsg (mp_evalR (updR rho y v) p) = zsg Q.[v].
Proof. by move=> M0 HQ v; rewrite HQ zsg_pmul. Qed.

Theorem accept_feasible_exact fuel a y p rs mids sc negated (S : seq (FeasSweep.interval Z))
    (rho : MPoly.var -> R) :
  (forall v r, List.In (v, r) a -> rn_denotes (rn_norm r) (rho v)) ->
  accept_feasible fuel a y p rs mids sc negated S = Accept ->
  exists vs : seq R, dens (List.map rn_norm rs) vs /\ sorted <%R vs /\
    let SR := List.map (map_iv Z R (phi vs)) S in
    (forall v : R, set_contains R (@cmpR R) SR v =
                   xorb negated (sc_consistent sc (zsg (mp_evalR (updR rho y v) p)))) /\
    set_nf R (@cmpR R) SR = true.
Proof.
move=> Ha; rewrite /accept_feasible; case Hacc: (accept_roots _ _ _ _ _) => //.
case Hsep: (separates _ _) => //=.
case Ho: (sweep_oracle _ _ _ _ _) => [[[[d c0] lc] ms]|] //.
rewrite /feasible_matches; case Heq: (set_eqb _ _) => // _.
have [Q [M [vs [M0 HQ Hcs Hsg [Hd Hs Hcase]]]]] := accept_roots_full Ha Hacc.
have [cs [Ecs Ed Ec0 Elc Ems]] := sweep_oracle_inv Ho.
have [_ Hco] := Hcs _ Ecs.
have [Dd Dc0 Dlc] := degree_of_signs Hco; rewrite -Ed in Dd Dlc.
have Hn : length rs = size vs by rewrite -(dens_size Hd) List_map_map size_map List_length_size.
exists vs; split=> //; split=> //; set SR := List.map _ S.
have ESR : SR = constraint_feasible_set R (@cmpR R) vs (size Q).-1 (zsg Q`_0) (zsg (lead_coef Q))
                  (fun i => List.nth i ms Z0) sc negated.
  rewrite /SR (set_eqb_eq Heq) /z_constraint_feasible_set Hn.
  rewrite (constraint_feasible_set_map Z R zcmp (@cmpR R) (phi vs) _ (phi_mono Hs)) map_phi_ranks.
  by rewrite Dd Ec0 Dc0 Elc Dlc.
rewrite ESR.
pose mid i : R := qr (nth (Z0, Zpos xH) mids i).
have Hmid i : (i.+1 < size vs)%N ->
    nth 0 vs i < mid i < nth 0 vs i.+1 /\ List.nth i ms Z0 = zsg Q.[mid i].
  move=> Hi; have [Hi' Hq Hb] := separates_spec Hd Hsep Hi; split=> //.
  apply: zsg_of; apply: Hsg => //.
  have [Hsz Hnth] := RootCheckAlg.all_some_nth Z0 Ems.
  rewrite List_map_map size_map in Hsz Hnth.
  by have := Hnth i Hi'; rewrite (nth_map (Z0, Zpos xH)) // List_nth_nth.
have [H1 H2] := @poly_sweep Q vs mid (fun i => List.nth i ms Z0) sc negated Hs Hcase Hmid.
by split=> // v; rewrite H1 (zsg_eval M0 HQ).
Qed.

Theorem accept_root_constraint_exact fuel a y p rs k sc negated (S : seq (FeasSweep.interval Z))
    (rho : MPoly.var -> R) :
  (forall v r, List.In (v, r) a -> rn_denotes (rn_norm r) (rho v)) ->
  accept_root_constraint fuel a y p rs k sc negated S = Accept ->
  exists vs : seq R, dens (List.map rn_norm rs) vs /\ sorted <%R vs /\
    (((forall t, mp_evalR (updR rho y t) p = 0) /\ vs = [::]) \/
     ((exists t, mp_evalR (updR rho y t) p != 0) /\
      forall t, (t \in vs) = (mp_evalR (updR rho y t) p == 0))) /\
    let SR := List.map (map_iv Z R (phi vs)) S in
    (forall v : R, set_contains R (@cmpR R) SR v =
                   xorb negated (root_constraint_evaluate R (@cmpR R) vs k sc v)) /\
    set_nf R (@cmpR R) SR = true.
Proof.
move=> Ha; rewrite /accept_root_constraint; case Hacc: (accept_roots _ _ _ _ _) => //.
case Ho: (sweep_oracle _ _ _ _ _) => [[[[d c0] lc] ms]|] //.
rewrite /root_constraint_matches; case Heq: (set_eqb _ _) => // _.
have [Q [M [vs [M0 HQ Hcs Hsg [Hd Hs Hcase]]]]] := accept_roots_full Ha Hacc.
have [cs [Ecs Ed Ec0 Elc Ems]] := sweep_oracle_inv Ho.
have [_ Hco] := Hcs _ Ecs.
have [Dd Dc0 Dlc] := degree_of_signs Hco; rewrite -Ed in Dd Dlc.
have Hn : length rs = size vs by rewrite -(dens_size Hd) List_map_map size_map List_length_size.
have Mn : M != 0 by rewrite gt_eqF.
exists vs; split=> //; split=> //; split.
  case: Hcase => [[Q0 ->]|[Q0 Hin]]; [left|right].
    split=> // t; have /eqP := HQ t; rewrite Q0 horner0 eq_sym mulf_eq0 (negbTE Mn) /=.
    by move/eqP.
  split.
    have [t Ht] := poly_nz_val Q0; exists t; move: Ht; rewrite HQ mulf_eq0 negb_or.
    by case/andP.
  by move=> t; rewrite Hin rootE HQ mulf_eq0 (negbTE Mn).
set SR := List.map _ S.
have ESR : SR = root_constraint_feasible_set R (@cmpR R) vs d k sc negated.
  rewrite /SR (set_eqb_eq Heq) /z_root_constraint_feasible_set Hn.
  by rewrite (root_constraint_feasible_set_map Z R zcmp (@cmpR R) (phi vs) _ (phi_mono Hs)) map_phi_ranks.
rewrite ESR.
apply: (@root_constraint_feasible_set_exact R (@cmpR R) (@cmpR_total_order R)).
  exact: increasing_sorted.
move=> d0; case: Hcase => [[_ ->]|[Q0 Hin]] //.
have sp : (size Q <= 1)%N by rewrite -subn_eq0 subn1 -Dd d0.
case: (vs) Hin => [|v vs'] // /(_ v); rewrite mem_head (size1_polyC sp) rootC => /esym c0'.
by move: Q0; rewrite (size1_polyC sp) polyC_eq0 c0'.
Qed.

End Feas.

Print Assumptions accept_roots_full.
Print Assumptions spec_polynomial.
Print Assumptions accept_roots_exact.
Print Assumptions accept_feasible_exact.
Print Assumptions accept_root_constraint_exact.
