(* Property C02 - the univariate division loop of Division.v Part I against MathComp's {poly Z}
   (Poly l is the denotation of the coefficient list l, see UPolySpec.v).
   Congruence of polynomials modulo the ring:  peqM M a b := exists T, a = b + M *: T   (M = 0 for lp_Z, where
   it is equality; M > 0 for Z_M, where it is equality in Z_M[x]). *)
From Coq Require Import ZArith Lia.
From LP Require Import Scalar ScalarProofs UPoly Division DivisionUList.
Set Warnings "-notation-overridden,-ambiguous-paths".
From mathcomp Require Import all_ssreflect all_algebra.
From mathcomp Require Import ssrZ zify.
Set Warnings "notation-overridden,ambiguous-paths".
From LP Require Import UPolySpec.
Import GRing.Theory.
Set Implicit Arguments.
Unset Strict Implicit.
Unset Printing Implicit Defensive.
Local Open Scope ring_scope.

Lemma List_nth_seq (l : seq Z) i : List.nth i l 0 = nth 0 l i.
Proof. by elim: l i => [|a l IH] [|i] //=. Qed.

Lemma coef_PolyL (l : seq Z) i : (Poly l)`_i = List.nth i l 0.
Proof. by rewrite coef_Poly List_nth_seq. Qed.

Lemma List_length_size (l : seq Z) : List.length l = size l.
Proof. by []. Qed.

(* ------------------------------------------------------------------ congruence of polynomials *)
Definition peqM (M : Z) (a b : {poly Z}) : Prop := exists T : {poly Z}, a = b + M *: T.

Lemma peqM_refl M a : peqM M a a.
Proof. by exists 0; rewrite scaler0 addr0. Qed.
Lemma peqM_of_eq M a b : a = b -> peqM M a b.
Proof. by move=> ->; apply: peqM_refl. Qed.
Lemma peqM_sym M a b : peqM M a b -> peqM M b a.
Proof. by case=> T ->; exists (- T); rewrite scalerN addrK. Qed.
Lemma peqM_trans M a b c : peqM M a b -> peqM M b c -> peqM M a c.
Proof. by case=> T -> [U ->]; exists (U + T); rewrite scalerDr addrA. Qed.
Lemma peqM_add M a b a' b' : peqM M a a' -> peqM M b b' -> peqM M (a + b) (a' + b').
Proof. by case=> T -> [U ->]; exists (T + U); rewrite scalerDr addrACA. Qed.
Lemma peqM_opp M a a' : peqM M a a' -> peqM M (- a) (- a').
Proof. by case=> T ->; exists (- T); rewrite scalerN opprD. Qed.
Lemma peqM_sub M a b a' b' : peqM M a a' -> peqM M b b' -> peqM M (a - b) (a' - b').
Proof. by move=> H1 H2; apply: peqM_add => //; apply: peqM_opp. Qed.
Lemma peqM_mul M a b a' b' : peqM M a a' -> peqM M b b' -> peqM M (a * b) (a' * b').
Proof.
case=> T -> [U ->]; exists (a' * U + T * b' + M *: (T * U)).
rewrite mulrDl !mulrDr -!addrA; congr (_ + _).
by rewrite !scalerDr -!scalerAr -!scalerAl scalerA !addrA.
Qed.
Lemma peqM_scale M c a a' : peqM M a a' -> peqM M (c *: a) (c *: a').
Proof. by case=> T ->; exists (c *: T); rewrite scalerDr !scalerA mulrC. Qed.
Lemma peqM_scale_l M c c' a : eqm M c c' -> peqM M (c *: a) (c' *: a).
Proof.
case=> t ->; exists (t *: a).
by rewrite scalerA -scalerDl.
Qed.
Lemma peqM0 a b : peqM 0 a b <-> a = b.
Proof. by split=> [[T ->]|->]; [rewrite scale0r addr0|apply: peqM_refl]. Qed.

Lemma peqM_coef M a b i : peqM M a b -> eqm M a`_i b`_i.
Proof. by case=> T ->; exists T`_i; rewrite coefD coefZ. Qed.

(* coefficient-wise congruence gives a polynomial witness *)
Lemma peqM_of_coef M (a b : {poly Z}) : (forall i, eqm M a`_i b`_i) -> peqM M a b.
Proof.
move=> H.
case: (Z.eq_dec M 0) => [M0|Mn0].
  subst M; apply/peqM0/polyP => i; exact/eqm_0.
exists (\poly_(i < maxn (size a) (size b)) Z.div (a`_i - b`_i) M).
apply/polyP => i; rewrite coefD coefZ coef_poly.
case: ltnP => Hi.
  case: (H i) => t Ht; rewrite Ht.
  by move: (@div_cancel b`_i M t Mn0) => E; lia.
move: Hi; rewrite geq_max => /andP [Ha Hb].
by rewrite !nth_default //; lia.
Qed.

(* ------------------------------------------------------------------ buffers as polynomials *)
Lemma Poly_list_set (l : seq Z) j v : (j < size l)%N ->
  Poly (list_set l j v) = Poly l + (v - List.nth j l 0) *: 'X^j.
Proof.
move=> Hj; apply/polyP => i; rewrite coefD coefZ coefXn !coef_PolyL nth_list_set; last exact/ltP.
case: (Nat.eqb_spec i j) => [->|Hne]; first by rewrite eqxx; lia.
have -> : (i == j) = false by apply/eqP.
by rewrite mulr0 addr0.
Qed.

Lemma ZpowE (a : Z) (j : nat) : a ^+ j = Z.pow a (Z.of_nat j).
Proof.
elim: j => [|j IH]; first by rewrite expr0.
by rewrite exprS IH Nat2Z.inj_succ Z.pow_succ_r //; lia.
Qed.

Section Loop.
Variable K : ring.
Hypothesis HK : Kok K.
Variable exact : bool.
Variable q : seq Z.
Variables (qd cap Ntot : nat) (lcq : Z).
Variable P0 : {poly Z}.
Hypothesis Hq_len : size q = qd.+1.
Hypothesis Hlcq : lcq = List.nth qd q 0.
Hypothesis Hcap : cap = (qd + Ntot)%N.
Hypothesis HN : (0 < Ntot)%N.

Let M := modK K.
Let Qp : {poly Z} := Poly q.
Let a : Z := if exact then 1 else lcq.

Definition Inv (n : nat) (dv rm : dense) : Prop :=
  [/\ buf_ok K cap rm, buf_ok K Ntot dv,
      (forall i, (i < n)%N -> List.nth i (dcoef dv) 0 = 0),
      peqM M (a ^+ Ntot *: P0) (Poly (dcoef dv) * Qp + a ^+ n *: Poly (dcoef rm)) &
      (forall i, (qd + n <= i)%N -> eqm M (List.nth i (dcoef rm) 0) 0)].

Lemma sub_mult_peq b m j : (size q + j <= cap)%N -> buf_ok K cap b ->
  peqM M (Poly (dcoef (dense_sub_mult K b q m j))) (Poly (dcoef b) - m *: (Qp * 'X^j)).
Proof.
move=> Hq Hb; apply: peqM_of_coef => i.
rewrite coefB coefZ -Poly_pshift !coef_PolyL.
by apply: dense_sub_mult_nth Hb => //; apply/leP.
Qed.

Lemma mult_c_peq b c : buf_ok K cap b -> peqM M (Poly (dcoef (dense_mult_c K b c))) (c *: Poly (dcoef b)).
Proof.
move=> Hb; apply: peqM_of_coef => i; rewrite coefZ !coef_PolyL.
exact: dense_mult_c_nth Hb.
Qed.

Lemma Qp_coef i : Qp`_i = if (i <= qd)%N then List.nth i q 0 else 0.
Proof.
rewrite /Qp coef_PolyL; case: leqP => // Hi.
by apply: List.nth_overflow; rewrite List_length_size Hq_len; apply/leP.
Qed.

Lemma step_inv j dv rm rm' m c : (j < Ntot)%N -> Inv j.+1 dv rm -> buf_ok K cap rm' ->
  peqM M (Poly (dcoef rm')) (a *: Poly (dcoef rm) - m *: (Qp * 'X^j)) ->
  eqm M c (m * a ^+ j) ->
  eqm M (a * List.nth (qd + j) (dcoef rm) 0) (m * lcq) ->
  Inv j (dense_touch (mkDense (list_set (dcoef dv) j c) (dsize dv)) j) rm'.
Proof.
move=> Hj [Hrm Hdv Hlow Heq Hel] Hrm' Hstep Hc Hk.
case: (Hdv) => Hdl [Hds Hdz].
have Hjl : (j < size (dcoef dv))%N by rewrite -List_length_size Hdl.
split => //.
- (* the quotient buffer *)
  rewrite /dense_touch /=; case: Nat.leb_spec => Hle; split; rewrite /= ?length_list_set //.
  + split; first exact/leP.
    move=> i Hi; rewrite nth_list_set; last exact/ltP.
    case: Nat.eqb_spec => [E|_]; first by lia.
    by apply: Hdz; lia.
  + split=> // i Hi; rewrite nth_list_set; last exact/ltP.
    case: Nat.eqb_spec => [E|_]; first by lia.
    exact: Hdz.
- move=> i Hi; rewrite /dense_touch /=.
  have -> : dcoef (if (dsize dv <=? j)%nat then mkDense (list_set (dcoef dv) j c) j.+1
                   else mkDense (list_set (dcoef dv) j c) (dsize dv)) = list_set (dcoef dv) j c by case: (_ <=? _)%nat.
  rewrite nth_list_set; last exact/ltP.
  case: Nat.eqb_spec => [E|_]; first by move: Hi; rewrite E ltnn.
  by apply: Hlow; rewrite ltnS ltnW.
- (* the identity *)
  have -> : dcoef (dense_touch (mkDense (list_set (dcoef dv) j c) (dsize dv)) j) = list_set (dcoef dv) j c.
    by rewrite /dense_touch /=; case: (_ <=? _)%nat.
  rewrite Poly_list_set // (Hlow j (ltnSn j)) subr0.
  apply: peqM_trans Heq _; apply: peqM_sym.
  have Halg : (Poly (dcoef dv) + (m * a ^+ j) *: 'X^j) * Qp + a ^+ j *: (a *: Poly (dcoef rm) - m *: (Qp * 'X^j))
              = Poly (dcoef dv) * Qp + a ^+ j.+1 *: Poly (dcoef rm).
    rewrite mulrDl -scalerAl scalerBr !scalerA [a ^+ j * m]mulrC [Qp * 'X^j]mulrC -exprSr.
    by rewrite -addrA [X in _ + X]addrC subrK.
  rewrite -Halg; apply: peqM_add; last exact: peqM_scale.
  by apply: peqM_mul; [apply: peqM_add; [exact: peqM_refl|exact: peqM_scale_l]|exact: peqM_refl].
- (* eliminated coefficients *)
  move=> i Hi; have := peqM_coef i Hstep.
  rewrite coefB !coefZ coefMXn Qp_coef !coef_PolyL.
  have -> : (i < j)%N = false by apply/negbTE; rewrite -leqNgt; apply: leq_trans Hi; rewrite leq_addl.
  move=> Hi'; apply: eqm_trans Hi' _.
  case: (ltngtP i (qd + j)%N) Hi => // [Hgt|E] _.
  + have -> : (i - j <= qd)%N = false by apply/negbTE; rewrite -ltnNge ltn_subRL addnC.
    have H0 := Hel i; rewrite addnS in H0; move/(_ Hgt) in H0.
    by case: H0 => t Ht; exists (a * t); rewrite Ht; lia.
  + rewrite E addnK leqnn -Hlcq.
    by case: Hk => t Ht; exists t; lia.
Qed.

Lemma a_exact : exact -> a = 1.
Proof. by rewrite /a => ->. Qed.

Lemma loop_skip j dv rm : exact = true -> List.nth (qd + j) (dcoef rm) 0 = 0 ->
  udiv_loop K exact q qd lcq j.+1 dv rm = udiv_loop K exact q qd lcq j dv rm.
Proof. by move=> E Ek /=; rewrite E Ek. Qed.

Lemma loop_exact j dv rm : exact = true -> List.nth (qd + j) (dcoef rm) 0 <> 0 ->
  udiv_loop K exact q qd lcq j.+1 dv rm =
  match udiv_coeff K (List.nth (qd + j) (dcoef rm) 0) lcq with
  | None => None
  | Some m =>
    udiv_loop K exact q qd lcq j
      (dense_touch (mkDense (list_set (dcoef dv) j m) (dsize dv)) j)
      (if Z.eqb (int_sgn K m) 0 then rm else dense_sub_mult K rm q m j)
  end.
Proof. by move=> E /Z.eqb_neq Ek /=; rewrite E Ek. Qed.

Lemma loop_pseudo j dv rm : exact = false ->
  udiv_loop K exact q qd lcq j.+1 dv rm =
  let m := List.nth (qd + j) (dcoef rm) 0 in
  let rm1 := dense_mult_c K rm lcq in
  udiv_loop K exact q qd lcq j
    (dense_touch (mkDense (list_set (dcoef dv) j
       (if Z.eqb m 0 then m else int_mul K m (int_pow K lcq (N.of_nat j)))) (dsize dv)) j)
    (if Z.eqb (int_sgn K m) 0 then rm1 else dense_sub_mult K rm1 q m j).
Proof. by move=> E /=; rewrite E. Qed.

Lemma udiv_loop_inv : forall n dv rm dv' rm', (n <= Ntot)%N -> Inv n dv rm ->
  udiv_loop K exact q qd lcq n dv rm = Some (dv', rm') -> Inv 0 dv' rm'.
Proof.
elim=> [|j IH] dv rm dv' rm' Hn HI; first by case=> <- <-.
case: (HI) => Hrm Hdv Hlow Heq Hel.
have Hqcap : (size q + j <= cap)%N by rewrite Hq_len Hcap addSn -addnS leq_add2l.
have Hcap0 : (0 < cap)%coq_nat by apply/ltP; rewrite Hcap addn_gt0 HN orbT.
set ak := List.nth (qd + j) (dcoef rm) 0.
have [Eex|Eex] : exact = true \/ exact = false by case: exact; auto.
- (* exact division *)
  have Ea : a = 1 by apply: a_exact; rewrite Eex.
  case: (Z.eq_dec ak 0) => [Ek|Hk].
  + (* the coefficient is already zero: skipped *)
    rewrite loop_skip //; apply: IH; first exact: ltnW.
    split=> //.
    * by move=> i Hi; apply: Hlow; rewrite ltnS ltnW.
    * by move: Heq; rewrite Ea !expr1n.
    * move=> i; rewrite leq_eqVlt => /orP [/eqP <-|Hi]; first by rewrite -/ak Ek; apply: eqm_refl.
      by apply: Hel; rewrite addnS.
  + rewrite loop_exact // -/ak.
    case Em: (udiv_coeff K ak lcq) => [m|] //.
    apply: IH; first exact: ltnW.
    have Hm := udiv_coeff_spec K HK _ _ _ Em.
    apply: (@step_inv j dv rm _ m m) => //.
    * by case: Z.eqb_spec => _ //; apply: dense_sub_mult_ok => //; apply/leP.
    * rewrite Ea scale1r; case: Z.eqb_spec => [E0|_]; last exact: sub_mult_peq.
      have Hm0 : eqm M m 0 by apply/(ring_norm_zero K _ HK)/int_sgn_zero/Z.eqb_eq.
      apply: peqM_sym; rewrite -[X in peqM _ _ X]subr0; apply: peqM_sub; first exact: peqM_refl.
      by rewrite -[X in peqM _ _ X](scale0r (Qp * 'X^j)); apply: peqM_scale_l.
    * by rewrite Ea expr1n; apply: eqm_of_eq; lia.
    * by rewrite Ea; case: Hm => t Ht; exists (- t); lia.
- (* pseudo division *)
  have Ea : a = lcq by rewrite /a Eex.
  rewrite loop_pseudo // -/ak /=.
  apply: IH; first exact: ltnW.
  have Hrm1 := dense_mult_c_ok K HK cap rm lcq Hrm.
  apply: (@step_inv j dv rm _ ak) => //.
  + by case: Z.eqb_spec => _ //; apply: dense_sub_mult_ok => //; apply/leP.
  + rewrite Ea; case: Z.eqb_spec => [E0|_].
    * have Hm0 : eqm M ak 0 by apply/(ring_norm_zero K _ HK)/int_sgn_zero/Z.eqb_eq.
      apply: peqM_trans (mult_c_peq lcq Hrm) _.
      apply: peqM_sym; rewrite -[X in peqM _ _ X]subr0; apply: peqM_sub; first exact: peqM_refl.
      by rewrite -[X in peqM _ _ X](scale0r (Qp * 'X^j)); apply: peqM_scale_l.
    * apply: peqM_trans (sub_mult_peq ak Hqcap Hrm1) _.
      by apply: peqM_sub; [exact: mult_c_peq|exact: peqM_refl].
  + rewrite Ea; case: Z.eqb_spec => [->|_]; first by apply: eqm_of_eq; lia.
    apply: eqm_trans (int_mul_eqm K HK _ _) _.
    rewrite ZpowE -nat_N_Z.
    by apply: eqm_mul; [exact: eqm_refl|exact: int_pow_eqm].
  + by rewrite Ea; apply: eqm_of_eq; rewrite -/ak; lia.
Qed.
End Loop.

(* ------------------------------------------------------------------ the division loop: final statement *)
Lemma dense_out_peq K (HK : Kok K) cap b : buf_ok K cap b ->
  peqM (modK K) (Poly (dense_out K b)) (Poly (dcoef b)).
Proof.
move=> Hb; rewrite /dense_out Poly_pnorm; apply: peqM_of_coef => i; rewrite !coef_PolyL.
exact: dense_out_nth Hb.
Qed.

Lemma pnorm_idem (l : seq Z) : pnorm (pnorm l) = pnorm l.
Proof. by rewrite -[in LHS]polyseq_Poly_pnorm Poly_pnorm polyseq_Poly_pnorm. Qed.

Lemma Poly_repeat0 n : Poly (List.repeat (0 : Z) n) = 0.
Proof. by elim: n => [|n IH] //=; rewrite IH cons_poly_def mul0r add0r. Qed.

Lemma Poly_udense_of p : Poly (udense_of p) = Poly p.
Proof. by case: p => //=; rewrite cons_poly_def mul0r add0r. Qed.

Lemma udeg_size (q : seq Z) : q <> [::] -> size q = (udeg q).+1.
Proof. by case: q => // c q _; rewrite /udeg /= Nat.sub_0_r. Qed.

Lemma last_nth_udeg (q : seq Z) : q <> [::] -> List.last q 0 = List.nth (udeg q) q 0.
Proof.
by case: q => // c q _; rewrite List_last_nth List_nth_seq /udeg /= Nat.sub_0_r.
Qed.

Theorem udiv_general_spec K (HK : Kok K) exact (p q d r : seq Z) :
  pnorm q = q -> udiv_general K exact p q = Some (d, r) ->
  peqM (modK K) ((if exact then 1 else List.last q 0) ^+ (udeg p - udeg q).+1 *: Poly p)
                (Poly d * Poly q + Poly r)
  /\ (size (Poly r) < size (Poly q))%N.
Proof.
move=> Hnq; rewrite /udiv_general.
case Eq: q => [|c q'] //; rewrite -Eq.
have Hq0 : q <> [::] by rewrite Eq.
case: Nat.ltb_spec => // Hdeg.
set N := (udeg p - udeg q).+1.
have HN : N = (udeg p - udeg q).+1 by [].
clearbody N.
case El: udiv_loop => [[dv' rm']|] // [<- <-].
have Hle : (udeg q <= udeg p)%N by apply/leP.
have HI : Inv K exact q (udeg q) (udeg p).+1 N (List.last q 0) (Poly p) N
            (mkDense (List.repeat 0 N) 1) (mkDense (udense_of p) (udeg p).+1).
  split.
  - split; first by rewrite /= udeg_length.
    split=> //= i Hi; rewrite List.nth_overflow ?udeg_length //; exact: eqm_refl.
  - split; first by rewrite /= List.repeat_length.
    split=> [|i _] /=; first by apply/ltP; rewrite HN.
    by rewrite List.nth_repeat; apply: eqm_refl.
  - by move=> i _ /=; rewrite List.nth_repeat.
  - by rewrite /= Poly_repeat0 mul0r add0r Poly_udense_of; apply: peqM_refl.
  - move=> i Hi /=; rewrite List.nth_overflow; first exact: eqm_refl.
    by rewrite udeg_length; apply/leP; move: Hi; rewrite HN addnS subnKC.
have := @udiv_loop_inv K HK exact q (udeg q) (udeg p).+1 N (List.last q 0) (Poly p)
          (udeg_size Hq0) (last_nth_udeg Hq0) _ _ N _ _ dv' rm' (leqnn N) HI El.
rewrite {1 2}HN addnS subnKC // => /(_ erefl (ltn0Sn _)) [Hrm Hdv _ Heq Hel].
split.
- apply: peqM_trans Heq _; rewrite expr0 scale1r.
  apply: peqM_add; last by apply: peqM_sym; exact: dense_out_peq Hrm.
  by apply: peqM_mul; [apply: peqM_sym; exact: dense_out_peq Hdv|exact: peqM_refl].
- rewrite !size_Poly_pnorm Hnq /dense_out pnorm_idem -/(dense_out K rm').
  have Hl : (List.length (dense_out K rm') <= udeg q)%coq_nat.
    by apply: (dense_out_length K HK _ rm' (udeg q) Hrm) => i Hi; apply: Hel; rewrite addn0; apply/leP.
  by have := udeg_size Hq0; rewrite -List_length_size => ->; rewrite ltnS; apply/leP.
Qed.

(* ------------------------------------------------------------------ corollaries: Z[x] and Z_M[x] *)
Lemma plc_last (q : seq Z) : pnorm q = q -> plc q = List.last q 0.
Proof. by rewrite /plc => ->. Qed.

Theorem udiv_pseudo_Z (p q d r : seq Z) : pnorm q = q -> udiv_pseudo None p q = Some (d, r) ->
  plc q ^+ (udeg p - udeg q).+1 *: Poly p = Poly d * Poly q + Poly r /\ (size (Poly r) < size (Poly q))%N.
Proof.
move=> Hq H; have [/peqM0 E S] := @udiv_general_spec None I false p q d r Hq H.
by rewrite plc_last.
Qed.

Theorem udiv_exact_Z (p q d r : seq Z) : pnorm q = q -> udiv_general None true p q = Some (d, r) ->
  Poly p = Poly d * Poly q + Poly r /\ (size (Poly r) < size (Poly q))%N.
Proof.
move=> Hq H; have [/peqM0 E S] := @udiv_general_spec None I true p q d r Hq H.
by move: E; rewrite expr1n scale1r.
Qed.

Theorem udiv_pseudo_ZM (M : Z) (p q d r : seq Z) : Z.lt 0 M -> pnorm q = q -> udiv_pseudo (Some M) p q = Some (d, r) ->
  peqM M (plc q ^+ (udeg p - udeg q).+1 *: Poly p) (Poly d * Poly q + Poly r) /\ (size (Poly r) < size (Poly q))%N.
Proof.
move=> HM Hq H; have [E S] := @udiv_general_spec (Some M) HM false p q d r Hq H.
by rewrite plc_last.
Qed.

Theorem udiv_exact_ZM (M : Z) (p q d r : seq Z) : Z.lt 0 M -> pnorm q = q -> udiv_general (Some M) true p q = Some (d, r) ->
  peqM M (Poly p) (Poly d * Poly q + Poly r) /\ (size (Poly r) < size (Poly q))%N.
Proof.
move=> HM Hq H; have [E S] := @udiv_general_spec (Some M) HM true p q d r Hq H.
by move: E; rewrite expr1n scale1r.
Qed.

(* the entry point lp_upolynomial_div_rem_exact, both branches (deg p < deg q: quotient 0, remainder p) *)
Theorem udiv_rem_exact_spec K (HK : Kok K) (p q d r : seq Z) : pnorm q = q ->
  udiv_rem_exact K p q = Some (d, r) ->
  peqM (modK K) (Poly p) (Poly d * Poly q + Poly r) /\ (size (Poly r) < size (Poly q))%N.
Proof.
move=> Hq; rewrite /udiv_rem_exact; case Eq: q => [|c q'] //; rewrite -Eq.
have Hq0 : q <> [::] by rewrite Eq.
case: Nat.leb_spec => Hd.
  move=> H; have [E S] := @udiv_general_spec K HK true p q d r Hq H.
  by move: E; rewrite expr1n scale1r.
case=> <- <-; split; first by rewrite mul0r add0r; apply: peqM_refl.
rewrite (size_Poly_pnorm q) Hq.
apply: leq_ltn_trans (size_Poly p) _.
have := udeg_size Hq0; rewrite -List_length_size => ->.
case: p Hd => [|a p'] //= Hd; rewrite ltnS.
by move: Hd; rewrite /udeg /= Nat.sub_0_r => /ltP.
Qed.

(* ------------------------------------------------------------------ lp_upolynomial_divides over Z (repaired) *)
Lemma Poly_divc (adj : Z) (d : seq Z) :
  List.forallb (fun c => int_divides None false adj c) d ->
  Poly d = adj *: Poly [seq Z.div c adj | c <- d].
Proof.
elim: d => [|c d IH] /=; first by rewrite scaler0.
case/andP=> /int_divides_Z_spec [k Hk] /IH ->.
rewrite !cons_poly_def scalerDr -scalerAl; congr (_ + _).
rewrite -mul_polyC -polyCM; congr (_%:P).
rewrite Hk; case: (Z.eq_dec adj 0) => [->|Hn]; first by rewrite Z.mul_0_r; lia.
by rewrite Z.div_mul //; lia.
Qed.

Lemma scaler_inj (c : Z) (u v : {poly Z}) : c != 0 -> c *: u = c *: v -> u = v.
Proof.
move=> Hc; rewrite -!mul_polyC => /mulfI; apply.
by rewrite polyC_eq0.
Qed.

Lemma last_canon_neq0 (p : seq Z) : pnorm p = p -> p <> [::] -> List.last p 0 != 0.
Proof.
move=> Hp Hp0; have := last_pnorm_neq0 p; rewrite Hp.
case: p Hp0 {Hp} => // a p _.
by rewrite List_last_nth /= (last_nth 0) /=.
Qed.

Theorem udivides_Z_sound (p q : seq Z) : pnorm p = p ->
  udivides None false p q = Some true -> exists d : {poly Z}, Poly q = d * Poly p.
Proof.
move=> Hp; rewrite /udivides.
case Ep: p => [|a p'] //; rewrite -Ep.
have Hp0 : p <> [::] by rewrite Ep.
case Eq: q => [|b q']; first by exists 0; rewrite mul0r.
rewrite -Eq.
set adj := int_pow None _ _.
have Eadj : adj = List.last p 0 ^+ (udeg q - udeg p).+1 by rewrite /adj /int_pow nat_N_Z -ZpowE.
clearbody adj.
case: (_ <? _)%nat => //; case: (_ <? _)%nat => //; case: (negb _) => //.
case Ed: udiv_pseudo => [[d r]|] //; case=> /andP [/pis_zeroP Hr Hall].
have [E _] := udiv_pseudo_Z Hp Ed.
move: E; rewrite Hr addr0 plc_last // (Poly_divc Hall) -scalerAl Eadj => /scaler_inj E.
eexists; apply: E.
by apply: expf_neq0; apply: last_canon_neq0.
Qed.

(* ------------------------------------------------------------------ completeness of the repaired predicate over Z *)
Lemma udiv_loop_pseudo_total K q qd lcq : forall n dv rm, exists res, udiv_loop K false q qd lcq n dv rm = Some res.
Proof. by elim=> [|n IH] dv rm /=; [eexists|apply: IH]. Qed.

Lemma ulow_spec (l : seq Z) : (exists i, List.nth i l 0 <> 0) ->
  [/\ forall i, (i < (ulow l).1)%N -> List.nth i l 0 = 0, List.nth (ulow l).1 l 0 = (ulow l).2 & (ulow l).2 <> 0].
Proof.
elim: l => [|c l IH] [i Hi]; first by case: i Hi.
rewrite /=; case: Z.eqb_spec => [Ec|Hc]; last by split.
have Hl : exists i, List.nth i l 0 <> 0.
  by case: i Hi => [|i] /= Hi; [rewrite Ec in Hi|exists i].
case: l IH Hl {Hi} => [|b l] IH Hl; first by case: Hl => [[|j]].
case: (IH Hl); case: (ulow (b :: l)) => v a /= H1 H2 H3; split=> //.
by case=> [|j] //= Hj; apply: H1.
Qed.

Lemma canon_has_nonzero (l : seq Z) : pnorm l = l -> l <> [::] -> exists i, List.nth i l 0 <> 0.
Proof.
move=> Hl Hl0; exists (udeg l); rewrite -last_nth_udeg //.
by apply/eqP; apply: last_canon_neq0.
Qed.

(* lowest terms of a product in an integral domain *)
Lemma low_coef_mul (D P : {poly Z}) vd vp :
  (forall i, (i < vd)%N -> D`_i = 0) -> (forall i, (i < vp)%N -> P`_i = 0) ->
  (forall i, (i < vd + vp)%N -> (D * P)`_i = 0) /\ (D * P)`_(vd + vp) = D`_vd * P`_vp.
Proof.
move=> HD HP; split.
- move=> i Hi; rewrite coefM; apply: big1 => j _.
  case: (ltnP j vd) => Hj; first by rewrite HD // mul0r.
  by rewrite HP ?mulr0 //; move: (ltn_ord j); lia.
- have Hvd : (vd < (vd + vp).+1)%N by lia.
  rewrite coefM (bigD1 (Ordinal Hvd)) //= addKn.
  rewrite big1 ?addr0 // => j Hj.
  case: (ltngtP j vd) => Hjv; first by rewrite HD // mul0r.
  + by rewrite HP ?mulr0 //; move: (ltn_ord j); lia.
  + by case/negP: Hj; apply/eqP/val_inj.
Qed.

Lemma canon_size (l : seq Z) : pnorm l = l -> l <> [::] -> size (Poly l) = (udeg l).+1.
Proof. by move=> Hl Hl0; rewrite size_Poly_pnorm Hl List_length_size udeg_size. Qed.

Theorem udivides_Z_complete (p q : seq Z) : pnorm p = p -> pnorm q = q -> p <> [::] ->
  (exists d : {poly Z}, Poly q = d * Poly p) -> udivides None false p q = Some true.
Proof.
move=> Hp Hq Hp0 [D0 HD]; rewrite /udivides.
case Ep: p => [|a p'] //; rewrite -Ep.
case Eq: q => [|b q'] //; rewrite -Eq.
have Hq0 : q <> [::] by rewrite Eq.
set adj := int_pow None _ _.
have Eadj : adj = List.last p 0 ^+ (udeg q - udeg p).+1 by rewrite /adj /int_pow nat_N_Z -ZpowE.
clearbody adj.
have Hsp := canon_size Hp Hp0; have Hsq := canon_size Hq Hq0.
have HP0 : Poly p != 0 by rewrite -size_poly_eq0 Hsp.
have HQ0 : Poly q != 0 by rewrite -size_poly_eq0 Hsq.
have HD0 : D0 != 0 by apply: contraNneq HQ0 => E0; rewrite HD E0 mul0r.
(* degrees *)
have Hdeg : (udeg p <= udeg q)%N.
  have := size_mul HD0 HP0; rewrite -HD Hsq Hsp addnS /= => E.
  have H0 : (0 < size D0)%N by rewrite size_poly_gt0.
  by move: H0 E; move: (size D0) (udeg p) (udeg q) => n1 n2 n3; lia.
case: Nat.ltb_spec => [Hlt|_]; first by move/leP: Hdeg; lia.
(* lowest terms *)
have [Hp1 Hp2 Hp3] := ulow_spec (canon_has_nonzero Hp Hp0).
have [Hq1 Hq2 Hq3] := ulow_spec (canon_has_nonzero Hq Hq0).
have HexD : exists i, D0`_i != 0 by exists (size D0).-1; rewrite -lead_coefE lead_coef_eq0.
case: (ex_minnP HexD) => vd Hvd Hmin.
have HDlow : forall i, (i < vd)%N -> D0`_i = 0.
  by move=> i Hi; apply/eqP/negPn/negP => /Hmin; rewrite leqNgt Hi.
have HPlow : forall i, (i < (ulow p).1)%N -> (Poly p)`_i = 0 by move=> i Hi; rewrite coef_PolyL Hp1.
have [HQlow HQv] := low_coef_mul HDlow HPlow.
rewrite -HD in HQlow HQv.
have Hv : (ulow q).1 = (vd + (ulow p).1)%N.
  case: (ltngtP (ulow q).1 (vd + (ulow p).1)%N) => // Hc.
  - by move: (HQlow _ Hc); rewrite coef_PolyL Hq2 => /Hq3.
  - move: HQv; rewrite !coef_PolyL Hq1 // Hp2 => /esym/eqP; rewrite mulf_eq0 (negbTE Hvd) /=.
    by move/eqP/Hp3.
case: Nat.ltb_spec => [Hlt|_]; first by move: Hlt; rewrite Hv; lia.
have Hdiv : int_divides None false (ulow p).2 (ulow q).2.
  apply/int_divides_Z_spec; exists D0`_vd.
  by move: HQv; rewrite -Hv !coef_PolyL Hq2 Hp2.
rewrite Hdiv /=.
(* the pseudo-division answers, with remainder 0 and a quotient divisible by lc^N *)
case Ed: (udiv_pseudo None q p) => [[d r]|]; last first.
  move: Ed; rewrite /udiv_pseudo /udiv_general Ep -Ep.
  case: Nat.ltb_spec => [Hlt|_]; first by move/leP: Hdeg; lia.
  by case: (udiv_loop_pseudo_total None p (udeg p) (List.last p 0) (udeg q - udeg p).+1
             (mkDense (List.repeat 0 (udeg q - udeg p).+1) 1) (mkDense (udense_of q) (udeg q).+1)) => [[dv' rm'] ->].
have [E S] := udiv_pseudo_Z Hp Ed.
move: E; rewrite plc_last // -Eadj HD => E.
have EX : (adj *: D0 - Poly d) * Poly p = Poly r by rewrite mulrBl -scalerAl E addrC addKr.
have X0 : adj *: D0 - Poly d = 0.
  apply/eqP/negPn/negP => HX; move: S; rewrite -EX size_mul // ltnNge => /negP; apply.
  set X := adj *: D0 - Poly d in HX *.
  have H0 : (0 < size X)%N by rewrite size_poly_gt0.
  by move: H0; move: (size (Poly p)) (size X) => n1 n2; lia.
have Er : Poly r = 0 by rewrite -EX X0 mul0r.
have Edd : Poly d = adj *: D0 by apply/esym/eqP; rewrite -subr_eq0 X0.
congr Some; apply/andP; split; first exact/pis_zeroP.
apply/List.forallb_forall => c /(List.In_nth _ _ 0) [i [_ <-]].
apply/int_divides_Z_spec; exists D0`_i.
by rewrite -coef_PolyL Edd coefZ; lia.
Qed.

Theorem udivides_Z_iff (p q : seq Z) : pnorm p = p -> pnorm q = q -> p <> [::] ->
  (udivides None false p q = Some true <-> exists d : {poly Z}, Poly q = d * Poly p).
Proof.
move=> Hp Hq Hp0; split; first exact: udivides_Z_sound.
exact: udivides_Z_complete.
Qed.
