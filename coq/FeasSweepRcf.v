(* Sign of a non-zero polynomial over a real closed field on the open cells cut out by the sorted,
   complete list of its roots: constant and non-zero on every cell, sign of the leading coefficient on
   the rightmost cell, (-1)^deg times that on the leftmost one.  Pure MathComp (polyrcf). *)
From Coq Require Import ZArith List.
From LP Require Import FeasSweep FeasSweepProofs.
Set Warnings "-notation-overridden,-ambiguous-paths".
From mathcomp Require Import all_ssreflect all_algebra.
From mathcomp Require Import polyrcf.
Set Warnings "notation-overridden,ambiguous-paths".
Import Order.TTheory GRing.Theory Num.Def Num.Theory.
Set Implicit Arguments.
Unset Strict Implicit.
Unset Printing Implicit Defensive.
Local Open Scope ring_scope.

Section SignCells.
Variable R : rcfType.
Implicit Types (p : {poly R}) (rs : seq R) (v w x z : R) (k : nat).

(* number of listed roots strictly below v *)
Definition rank rs (v : R) : nat := count (fun r => r < v) rs.

Lemma rank_size rs v : (rank rs v <= size rs)%N.
Proof. exact: count_size. Qed.

(* a listed point in [v, w[ separates the ranks of v and w (no sortedness needed) *)
Lemma rank_lt rs v w z : z \in rs -> v <= z -> z < w -> (rank rs v < rank rs w)%N.
Proof.
rewrite /rank; elim: rs => // r rs IH; rewrite inE => /predU1P[<-|zrs] vz zw /=.
  rewrite zw ltNge vz /= add0n add1n ltnS; apply: sub_count => x /= xv.
  exact: lt_trans (lt_le_trans xv vz) zw.
have le_b : ((r < v)%R <= (r < w)%R)%N.
  by case rv: (r < v) => //; rewrite (lt_trans rv (le_lt_trans vz zw)).
by rewrite -addnS leq_add // IH.
Qed.

(* same rank, both off the list => same sign *)
Lemma same_cell p rs v w :
  (forall x, root p x = (x \in rs)) -> v \notin rs -> w \notin rs ->
  rank rs v = rank rs w -> sgr p.[v] = sgr p.[w].
Proof.
move=> rootE; wlog vw : v w / v <= w => [hw|] nv nw E.
  by case: (leP v w) => [|/ltW] /hw; [apply | move=> /(_ nw nv (esym E)) ->].
apply: (@polyrN0_itv _ `[v, w]); rewrite ?in_itv /= ?lexx ?vw // => z.
rewrite in_itv /= => /andP[vz zw]; rewrite rootE; apply/negP => zrs.
have {}zw : z < w by rewrite lt_neqAle zw andbT; apply: contraNneq nw => <-.
by have := rank_lt zrs vz zw; rewrite E ltnn.
Qed.

(* x above the first k entries and below the others has rank k *)
Lemma rank_between rs k x :
  (k <= size rs)%N -> (forall i, (i < k)%N -> nth 0 rs i < x) ->
  (forall i, (k <= i < size rs)%N -> x < nth 0 rs i) -> rank rs x = k.
Proof.
move=> kle lo hi; rewrite /rank -{1}(cat_take_drop k rs) count_cat.
have /eqP -> : count (fun r => r < x) (take k rs) == size (take k rs).
  rewrite -all_count; apply/(all_nthP 0) => i; rewrite size_takel // => ik.
  by rewrite nth_take // lo.
have /eqP -> : count (fun r => r < x) (drop k rs) == 0%N.
  rewrite eqn0Ngt -has_count -all_predC; apply/(all_nthP 0) => i.
  rewrite size_drop nth_drop ltn_subRL /= => ik.
  by rewrite -leNgt ltW // hi // leq_addr.
by rewrite addn0 size_takel.
Qed.

(* one sample point per cell *)
Definition sample rs k : R :=
  if k is k'.+1 then
    if (k < size rs)%N then (nth 0 rs k' + nth 0 rs k) / 2 else last 0 rs + 1
  else head 0 rs - 1.

Lemma sample_bounds rs k :
  sorted <%R rs -> (k <= size rs)%N ->
  (forall i, (i < k)%N -> nth 0 rs i < sample rs k) /\
  (forall i, (k <= i < size rs)%N -> sample rs k < nth 0 rs i).
Proof.
move=> srt kle; split; case: k kle => [|k] kle i //=.
- rewrite ltnS => ik; case: ltnP => klt.
    have /midf_lt[lo _] : nth 0 rs k < nth 0 rs k.+1.
      by rewrite (lt_sorted_ltn_nth 0 srt) // inE // ltnW.
    by apply: le_lt_trans lo; rewrite (lt_sorted_leq_nth 0 srt) // inE (leq_ltn_trans ik kle).
  have -> : last 0 rs = nth 0 rs k.
    rewrite -nth_last; congr nth; case: (size rs) klt kle => // n.
    by rewrite !ltnS => a b; apply/eqP; rewrite eqn_leq a b.
  apply: le_lt_trans (_ : nth 0 rs k < _); last by rewrite ltr_addl ltr01.
  by rewrite (lt_sorted_leq_nth 0 srt) // inE //; exact: leq_ltn_trans ik kle.
- rewrite -nth0 => ilt; apply: lt_le_trans (_ : nth 0 rs 0 <= _).
    by rewrite ltr_subl_addr ltr_addl ltr01.
  by rewrite (lt_sorted_leq_nth 0 srt) // inE (leq_ltn_trans (leq0n i)).
- case/andP=> ki ilt; have klt := leq_ltn_trans ki ilt; rewrite klt.
  have /midf_lt[_ hi] : nth 0 rs k < nth 0 rs k.+1.
    by rewrite (lt_sorted_ltn_nth 0 srt) // inE.
  by apply: lt_le_trans hi _; rewrite (lt_sorted_leq_nth 0 srt) // inE.
Qed.

Lemma rank_sample rs k :
  sorted <%R rs -> (k <= size rs)%N -> rank rs (sample rs k) = k.
Proof. by move=> srt kle; have [lo hi] := sample_bounds srt kle; apply: rank_between. Qed.

Lemma sample_notin rs k :
  sorted <%R rs -> (k <= size rs)%N -> sample rs k \notin rs.
Proof.
move=> srt kle; have [lo hi] := sample_bounds srt kle.
apply/negP => /(nthP 0)[i ilt E]; case: (ltnP i k) => [/lo|ki].
  by rewrite E ltxx.
by have := hi i; rewrite ki ilt E ltxx => /(_ isT).
Qed.

(* the sign of p on cell number k *)
Definition cell_sign p rs k : int := sgz p.[sample rs k].

Theorem poly_sign_cells_sample p rs :
  p != 0 -> sorted <%R rs -> (forall x, root p x = (x \in rs)) ->
  [/\ forall v, v \notin rs -> sgz p.[v] = cell_sign p rs (rank rs v),
      forall k, (k <= size rs)%N -> cell_sign p rs k != 0,
      cell_sign p rs (size rs) = sgz (lead_coef p)
    & cell_sign p rs 0%N = (-1) ^+ (size p).-1 * sgz (lead_coef p) ].
Proof.
move=> pn0 srt rootE; rewrite /cell_sign; split.
- move=> v nv; rewrite -sgz_sgr -[RHS]sgz_sgr; congr sgz.
  apply: (same_cell rootE) => //; first exact/sample_notin/rank_size.
  by rewrite rank_sample // rank_size.
- by move=> k kle; rewrite sgz_eq0 -/(root p _) rootE sample_notin.
- have [lo _] := sample_bounds srt (leqnn (size rs)).
  rewrite -sgz_sgr (@sgp_pinftyP _ (sample rs (size rs)) p) ?in_itv /= ?lexx //.
    by rewrite sgz_sgr.
  move=> z; rewrite in_itv /= andbT rootE => sz; apply/negP => /(nthP 0)[i ilt E].
  by have := lo i ilt; rewrite E ltNge sz.
- have [_ hi] := sample_bounds srt (leq0n (size rs)).
  rewrite -sgz_sgr (@sgp_minftyP _ (sample rs 0) p) ?in_itv /= ?lexx //.
    by rewrite sgz_sgr sgzM sgzX sgzN1.
  move=> z; rewrite in_itv /= rootE => sz; apply/negP => /(nthP 0)[i ilt E].
  by have := hi i ilt; rewrite E ltNge sz.
Qed.

Theorem poly_sign_cells p rs :
  p != 0 -> sorted <%R rs -> (forall x, root p x = (x \in rs)) ->
  exists cell : nat -> int,
    [/\ forall v, v \notin rs -> sgz p.[v] = cell (rank rs v),
        forall k, (k <= size rs)%N -> cell k != 0,
        cell (size rs) = sgz (lead_coef p)
      & cell 0%N = (-1) ^+ (size p).-1 * sgz (lead_coef p) ].
Proof. by move=> pn0 srt rootE; exists (cell_sign p rs); apply: poly_sign_cells_sample. Qed.

End SignCells.

(* ------------------------------------------------------------------------------------------------ *)
(* Bridge to the abstract sweep of FeasSweep.v / FeasSweepProofs.v                                    *)

Section Bridge.
Variable R : rcfType.
Implicit Types (p : {poly R}) (rs : seq R) (v w x z : R) (k : nat).

Definition cmpR (a b : R) : comparison := if a < b then Lt else if a == b then Eq else Gt.

Lemma cmpR_Lt a b : (cmpR a b = Lt) <-> (a < b).
Proof. by rewrite /cmpR; case: ifP => //; case: ifP. Qed.

Lemma is_lt_cmpR a b : is_lt (cmpR a b) = (a < b).
Proof. by rewrite /cmpR; case: ifP => //; case: ifP. Qed.

Lemma cmpR_total_order : total_order cmpR.
Proof.
split=> [a b|a b|a b c].
- by rewrite /cmpR; case: (ltgtP a b) => [ab|ab|->]; split=> // E; move: ab; rewrite E ltxx.
- by rewrite /cmpR; case: (ltgtP a b).
- by move=> /cmpR_Lt ab /cmpR_Lt bc; apply/cmpR_Lt/(lt_trans ab bc).
Qed.

Definition Zint (i : int) : Z :=
  match i with Posz n => Z.of_nat n | Negz n => Z.opp (Z.of_nat n.+1) end.
Definition zsg (x : R) : Z := Zint (sgz x).

Lemma ZintN i : Zint (- i) = Z.opp (Zint i).
Proof. by case: i => [[|n]|n] //=; rewrite Z.opp_involutive. Qed.

Lemma InE (T : eqType) (x : T) (s : seq T) : List.In x s <-> x \in s.
Proof.
elim: s => [|y s IH] //=; rewrite inE; split.
  by case=> [->|/IH ->]; rewrite ?eqxx ?orbT.
by case/predU1P => [->|/IH]; auto.
Qed.

Lemma lengthE (T : Type) (s : seq T) : length s = size s.
Proof. by elim: s => //= _ s ->. Qed.

Lemma Nat_oddE n : Nat.odd n = odd n.
Proof.
by elim: n => // n IH; rewrite Nat.odd_succ -Nat.negb_odd IH.
Qed.

Lemma rankE rs v : FeasSweepProofs.rank R cmpR rs v = rank rs v.
Proof.
rewrite /FeasSweepProofs.rank /rank; elim: rs => //= r rs IH.
by rewrite is_lt_cmpR; case: (r < v) => /=; rewrite IH.
Qed.

Lemma increasing_sorted rs : sorted <%R rs -> increasing R cmpR rs.
Proof.
rewrite (sorted_pairwise lt_trans); elim: rs => [|r rs IH] /=; first by constructor.
case/andP=> /allP rlt /IH srt; constructor => //.
by apply/Forall_forall => y /InE /rlt /cmpR_Lt.
Qed.

Lemma notin_between rs k x :
  (forall i, (i < k)%N -> nth 0 rs i < x) ->
  (forall i, (k <= i < size rs)%N -> x < nth 0 rs i) -> x \notin rs.
Proof.
move=> lo hi; apply/negP => /(nthP 0)[i ilt E]; case: (ltnP i k) => [/lo|ki].
  by rewrite E ltxx.
by have := hi i; rewrite ki ilt E ltxx => /(_ isT).
Qed.

Lemma mid_bounds rs i x :
  sorted <%R rs -> (i.+1 < size rs)%N -> nth 0 rs i < x < nth 0 rs i.+1 ->
  (forall j, (j < i.+1)%N -> nth 0 rs j < x) /\
  (forall j, (i.+1 <= j < size rs)%N -> x < nth 0 rs j).
Proof.
move=> srt ilt /andP[lo hi]; split=> j.
  rewrite ltnS => ji; apply: le_lt_trans lo.
  by rewrite (lt_sorted_leq_nth 0 srt) // inE ?(ltnW ilt) // (leq_ltn_trans ji (ltnW ilt)).
case/andP=> ij jlt; apply: lt_le_trans hi _.
by rewrite (lt_sorted_leq_nth 0 srt) // inE.
Qed.

(* the feasible-set sweep run on the exact roots, the exact degree, the exact sign of the leading
   coefficient and the exact signs at ARBITRARY points strictly between consecutive roots returns
   exactly the solution set of the (possibly negated) sign condition on p, in normal form - over
   every real closed field *)
Theorem feasible_set_poly_exact p rs (mids : nat -> R) sc negated :
  p != 0 -> sorted <%R rs -> (forall x, root p x = (x \in rs)) ->
  (forall i, (i.+1 < size rs)%N -> nth 0 rs i < mids i < nth 0 rs i.+1) ->
  let res := constraint_feasible_set R cmpR rs (size p).-1 (zsg p`_0) (zsg (lead_coef p))
               (fun i => zsg p.[mids i]) sc negated in
  (forall v : R, set_contains R cmpR res v = xorb negated (sc_consistent sc (zsg p.[v]))) /\
  set_nf R cmpR res = true.
Proof.
move=> pn0 srt rootE midsP.
have [C1 C2 C3 C4] := poly_sign_cells_sample pn0 srt rootE.
apply: (@constraint_feasible_set_exact R cmpR cmpR_total_order rs _ _ _ _ sc negated
          (fun v => zsg p.[v]) (fun k => Zint (cell_sign p rs k))).
- exact: increasing_sorted.
- move=> d0 v; have sp : (size p <= 1)%N by rewrite -subn_eq0 subn1 d0.
  by rewrite {1}(size1_polyC sp) hornerC.
- move=> _; split; [|split; [|split; [|split]]].
  + by move=> r /InE; rewrite -rootE /zsg => /eqP ->; rewrite sgz0.
  + by move=> v /InE /negP nv; rewrite rankE /zsg C1.
  + by rewrite lengthE C3.
  + move=> _; rewrite C4 -signr_odd Nat_oddE; case: (odd _).
      by rewrite expr1 mulN1r ZintN.
    by rewrite expr0 mul1r.
  + move=> i; rewrite !Nat.add_1_r lengthE => /ssrnat.ltP ilt.
    have [lo hi] := mid_bounds srt ilt (midsP i ilt).
    by rewrite /zsg C1 ?(rank_between (ltnW ilt) lo hi) // (notin_between lo hi).
Qed.

End Bridge.

Print Assumptions poly_sign_cells.
Print Assumptions feasible_set_poly_exact.
