(* C04 REFERENCE: resultant, principal subresultant coefficients and subresultants as determinants of
   (sub-matrices of) the Sylvester matrix, by Laplace expansion.  Executable, stdlib only, no proofs here
   (SylvesterProofs.v relates it to MathComp's \det and mxpoly.resultant).

   Everything is written ONCE over an abstract coefficient type A with ring operations and instantiated
   (a) with A = mpoly (MPoly.v) - the object libpoly's multivariate results are compared with - and
   (b) with A = Z - dense univariate integer polynomials, the instance tied to MathComp {poly Z}.

   Conventions (the classical ones of Habicht / Ducos 2000 "Optimizations of the subresultant algorithm" 2):
   a polynomial in the main variable x is its coefficient list, LOW degree first; m = length p - 1 and
   n = length q - 1 are the (formal) degrees.  For 0 <= k <= min(m, n) the k-th Sylvester-Habicht matrix has the
   m + n - 2k rows
        x^(n-k-1) p, ..., x p, p,  x^(m-k-1) q, ..., x q, q
   written in the basis x^(m+n-k-1), ..., x, 1 (HIGH degree first: column c holds the coefficient of x^(m+n-k-1-c)).
   sylv_mat k j p q is the SQUARE matrix made of its first m+n-2k-1 columns and the column of x^j (0 <= j <= k):
     - k = j = 0: the Sylvester matrix; resultant_ref p q = its determinant
       (= a_m^n b_n^m prod (alpha_i - beta_j); e.g. res(a1 x + a0, b1 x + b0) = a1 b0 - a0 b1);
     - psc_ref k p q    = det (sylv_mat k k p q)   (k-th principal subresultant coefficient);
     - subres_ref k p q = sum_{j <= k} det (sylv_mat k j p q) x^j   (k-th subresultant, the determinant polynomial).
   These are what libpoly's lp_polynomial_resultant / _psc[k] / _subres[k] return for deg p >= deg q; the top
   element of libpoly's subresultant list for deg p = deg q = n is q itself (Ducos' convention S_n = q; the empty
   determinant polynomial is not used there): see subres_chain_ref. *)
From Coq Require Import ZArith NArith List Bool.
From LP Require Import UPoly MPoly.
Import ListNotations.

Section Generic.
Variable A : Type.
Variables (zero one : A) (add : A -> A -> A) (opp : A -> A) (mul : A -> A -> A) (is_zero : A -> bool).

Definition sy_nth (l : list A) (i : nat) : A := nth i l zero.

Fixpoint sy_drop_nth (j : nat) (l : list A) : list A :=
  match l, j with
  | [], _ => []
  | _ :: t, O => t
  | h :: t, S j' => h :: sy_drop_nth j' t
  end.

(* determinant of the n x n matrix given as list of rows, Laplace expansion along the first row:
   sum_j (-1)^j m[0][j] det(minor_0j); zero entries are skipped (Sylvester matrices are sparse).
   Missing rows/entries read as zero, so the function is total on any list of lists. *)
Fixpoint mdet (n : nat) (m : list (list A)) : A :=
  match n with
  | O => one
  | S n' =>
    let row := hd [] m in
    let rest := tl m in
    fold_right (fun j acc =>
       let a := sy_nth row j in
       if is_zero a then acc
       else let t := mul a (mdet n' (map (sy_drop_nth j) rest)) in
            add (if Nat.even j then t else opp t) acc)
      zero (seq 0 n)
  end.

(* coefficient number a - b of l; zero when b > a or beyond the list *)
Definition sy_cf (l : list A) (a b : nat) : A := if Nat.leb b a then sy_nth l (a - b) else zero.

Definition sylv_cols (m n k j : nat) : list nat := seq 0 (m + n - 2 * k - 1) ++ [m + n - k - 1 - j].

Definition sylv_mat (k j : nat) (p q : list A) : list (list A) :=
  let m := pred (length p) in
  let n := pred (length q) in
  let cols := sylv_cols m n k j in
  map (fun i => map (fun c => sy_cf p (m + i) c) cols) (seq 0 (n - k)) ++
  map (fun i => map (fun c => sy_cf q (n + i) c) cols) (seq 0 (m - k)).

Definition sylv_det (k j : nat) (p q : list A) : A :=
  mdet (pred (length p) + pred (length q) - 2 * k) (sylv_mat k j p q).

Definition resultant_ref (p q : list A) : A := sylv_det 0 0 p q.
Definition psc_ref (k : nat) (p q : list A) : A := sylv_det k k p q.
(* coefficient list (low degree first, k+1 entries, not trimmed) of the k-th subresultant *)
Definition subres_ref (k : nat) (p q : list A) : list A := map (fun j => sylv_det k j p q) (seq 0 (S k)).

(* the lists libpoly returns for deg p >= deg q: entries k = 0 .. n *)
Definition psc_chain_ref (p q : list A) : list A :=
  map (fun k => psc_ref k p q) (seq 0 (length q)).
Definition subres_chain_ref (p q : list A) : list (list A) :=
  let m := pred (length p) in
  let n := pred (length q) in
  map (fun k => if Nat.eqb k n && Nat.eqb m n then q else subres_ref k p q) (seq 0 (length q)).

End Generic.

(* ---- instance: coefficients in Z[x1, x2, ...] (reference multivariate polynomials) *)
Definition mp_one : mpoly := mp_const 1.
Definition mdet_mp := mdet mpoly [] mp_one mp_add mp_neg mp_mul mp_is_zero.
Definition sylv_mat_mp := sylv_mat mpoly [].
Definition resultant_mp := resultant_ref mpoly [] mp_one mp_add mp_neg mp_mul mp_is_zero.
Definition psc_mp := psc_ref mpoly [] mp_one mp_add mp_neg mp_mul mp_is_zero.
Definition subres_mp := subres_ref mpoly [] mp_one mp_add mp_neg mp_mul mp_is_zero.
Definition psc_chain_mp := psc_chain_ref mpoly [] mp_one mp_add mp_neg mp_mul mp_is_zero.
Definition subres_chain_mp := subres_chain_ref mpoly [] mp_one mp_add mp_neg mp_mul mp_is_zero.

(* ---- instance: integer coefficients (dense univariate polynomials of UPoly.v) *)
Definition z_is_zero (a : Z) : bool := Z.eqb a 0.
Definition mdet_Z := mdet Z 0%Z 1%Z Z.add Z.opp Z.mul z_is_zero.
Definition sylv_mat_Z := sylv_mat Z 0%Z.
Definition resultant_Z := resultant_ref Z 0%Z 1%Z Z.add Z.opp Z.mul z_is_zero.
Definition psc_Z := psc_ref Z 0%Z 1%Z Z.add Z.opp Z.mul z_is_zero.
Definition subres_Z := subres_ref Z 0%Z 1%Z Z.add Z.opp Z.mul z_is_zero.
Definition psc_chain_Z := psc_chain_ref Z 0%Z 1%Z Z.add Z.opp Z.mul z_is_zero.
Definition subres_chain_Z := subres_chain_ref Z 0%Z 1%Z Z.add Z.opp Z.mul z_is_zero.

(* specialisation of a coefficient list at an integer point of the parameters *)
Definition spec_coeffs (rho : var -> Z) (p : list mpoly) : list Z := map (mp_eval rho) p.
