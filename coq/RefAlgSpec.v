(* Meaning of the reference univariate machinery over an arbitrary real closed field (MathComp).
   Integers embed by  zr z := (int_of_Z z)%:~R,  polynomials by  pr p := map_poly zr (Poly p),
   canonical rationals (n, d) by  qr q := zr n / zr d. *)
From Coq Require Import ZArith.
From LP Require Import Scalar UPoly RefAlg.
Set Warnings "-notation-overridden,-ambiguous-paths".
From mathcomp Require Import all_ssreflect all_algebra all_real_closed.
From mathcomp Require Import ssrZ zify ring.
Set Warnings "notation-overridden,ambiguous-paths".
From LP Require Import UPolySpec ScalarProofs.
Import GRing.Theory Num.Theory Num.Def Order.TTheory.
Set Implicit Arguments.
Unset Strict Implicit.
Unset Printing Implicit Defensive.
Local Open Scope ring_scope.

Section Embed.
Variable R : rcfType.

Definition zr (z : Z) : R := (int_of_Z z)%:~R.
Definition pr (p : seq Z) : {poly R} := map_poly zr (Poly p).
Definition qr (q : Z * Z) : R := zr q.1 / zr q.2.

Lemma zr_is_rmorphism : rmorphism zr.
Proof.
have H : zr =1 (intr \o int_of_Z) by [].
split; [move=> x y|split; [move=> x y|]]; rewrite /zr.
- by rewrite rmorphB /= rmorphB.
- by rewrite rmorphM /= rmorphM.
- by rewrite rmorph1.
Qed.
Canonical zr_additive := Additive zr_is_rmorphism.
Canonical zr_rmorphism := RMorphism zr_is_rmorphism.

Lemma zr0 : zr 0 = 0. Proof. exact: rmorph0. Qed.
Lemma zrD (x y : Z) : zr (Z.add x y) = zr x + zr y. Proof. exact: (rmorphD zr_rmorphism). Qed.
Lemma zrM (x y : Z) : zr (Z.mul x y) = zr x * zr y. Proof. exact: (rmorphM zr_rmorphism). Qed.

Lemma zr_gt0 (z : Z) : Z.lt 0 z -> 0 < zr z.
Proof. by move=> Hz; rewrite /zr ltr0z; lia. Qed.
Lemma zr_sgn (z : Z) : sgr (zr z) = zr (Z.sgn z).
Proof.
rewrite /zr -intr_sg; congr (_%:~R).
by case: z => [|p|p] //=; rewrite ?gtr0_sg ?ltr0_sg //; lia.
Qed.

Lemma pr_cons c p : pr (c :: p) = (zr c)%:P + pr p * 'X.
Proof. by rewrite /pr Poly_cons0 rmorphD rmorphM /= map_polyC map_polyX. Qed.
Lemma pr_nil : pr [::] = 0. Proof. by rewrite /pr /= rmorph0. Qed.

(* homogeneous evaluation: fst = b^(size p - 1) * p(a/b) for p <> [::] (0 for [::]), snd = b^(size p) *)
Lemma peval_hom_auxP (p : seq Z) (a b : Z) : zr b != 0 ->
  let: (v, bp) := peval_hom_aux p a b in
  zr bp = zr b ^+ size p /\ zr v = zr b ^+ (size p).-1 * (pr p).[zr a / zr b] /\ (p = [::] -> v = Z0).
Proof.
move=> Hb; elim: p => [|c p IH] /=.
  by rewrite pr_nil horner0 mulr0 expr0 zr0; split; [exact: rmorph1|split].
case E: (peval_hom_aux p a b) IH => [v bp] [IH1 [IH2 IH3]].
split; first by rewrite zrM IH1 exprSr.
split; last by [].
rewrite zrD !zrM IH1 IH2 pr_cons hornerD hornerC hornerMX mulrDr.
congr (_ + _); first by rewrite mulrC.
case: p {E IH1 IH3} IH2 => [|d p] IH2 /=.
  by rewrite pr_nil horner0 !mulr0 mul0r mulr0.
rewrite exprS.
set q := (pr (d :: p)).[_]; set B := zr b ^+ size p; set A := zr a; set Bb := zr b.
rewrite -/A -/Bb; field; exact: Hb.
Qed.

(* the sign computed by the model at a rational point a/b, b > 0, is the sign of the polynomial there *)
Lemma psgn_at_ratP (p : seq Z) (a b : Z) : Z.lt 0 b ->
  zr (psgn_at_rat p a b) = sgr (pr p).[zr a / zr b].
Proof.
move=> Hb; have Hb0 : 0 < zr b by exact: zr_gt0.
have Hbn : zr b != 0 by rewrite gt_eqF.
rewrite /psgn_at_rat; have := peval_hom_auxP p a Hbn.
case: (peval_hom_aux p a b) => v bp [_ [Hv _]] /=.
by rewrite -zr_sgn Hv sgrM gtr0_sg ?mul1r // exprn_gt0.
Qed.

End Embed.

Arguments zr {R} z.
Arguments pr {R} p.
Arguments qr {R} q.

Section Numbers.
Variable R : rcfType.
Local Notation zr := (@zr R).
Local Notation pr := (@pr R).
Local Notation qr := (@qr R).

(* a rational (n, d) of the model with positive denominator *)
Definition qpos (q : Z * Z) : Prop := Z.lt 0 q.2.

(* what a reference number denotes: v is THE root of p in (lo, hi), p changes sign across the interval *)
Definition rn_denotes (x : rnum) (v : R) : Prop :=
  match x with
  | RQ q => qpos q /\ v = qr q
  | RA p lo hi =>
    [/\ qpos lo /\ qpos hi, qr lo < v < qr hi, root (pr p) v,
        (forall w, root (pr p) w -> qr lo < w < qr hi -> w = v)
      & sgr (pr p).[qr lo] * sgr (pr p).[qr hi] = -1]
  end.

Lemma psgn_qP (p : seq Z) (q : Z * Z) : qpos q -> zr (psgn_q p q) = sgr (pr p).[qr q].
Proof. by move=> Hq; rewrite /psgn_q psgn_at_ratP. Qed.

Lemma zr_inj : injective zr.
Proof.
move=> x y /eqP; rewrite /zr eqr_int => /eqP H.
by rewrite -(int_of_ZK x) -(int_of_ZK y) H.
Qed.

Lemma zr_lt0 (z : Z) : (zr z < 0) = (Z.ltb z 0).
Proof. by rewrite /zr ltrz0; apply/idP/idP => H; lia. Qed.
Lemma zr_eq0 (z : Z) : (zr z == 0) = (Z.eqb z 0).
Proof. by rewrite /zr intr_eq0; apply/idP/idP => H; lia. Qed.

(* order of model rationals = order of their values *)
Lemma q_cmp_sgn (a b : Z * Z) : qpos a -> qpos b ->
  zr (q_cmp a b) = sgr (qr a - qr b).
Proof.
move=> Ha Hb; rewrite /q_cmp /qr.
have Ha0 : 0 < zr a.2 by apply: zr_gt0.
have Hb0 : 0 < zr b.2 by apply: zr_gt0.
have -> : zr a.1 / zr a.2 - zr b.1 / zr b.2 = (zr a.1 * zr b.2 - zr b.1 * zr a.2) / (zr a.2 * zr b.2).
  by field; rewrite !gt_eqF.
rewrite sgrM sgrV [sgr (_ * _)]gtr0_sg ?mulr_gt0 // mulr1 -!zrM -rmorphB /= zr_sgn.
congr zr; rewrite /cmp_to_Z.
by case: Z.compare_spec => H; rewrite /GRing.add /GRing.opp /=; lia.
Qed.

Lemma q_le_spec (a b : Z * Z) : qpos a -> qpos b -> q_le a b = (qr a <= qr b).
Proof.
move=> Ha Hb; rewrite /q_le -subr_le0 -sgr_le0 -q_cmp_sgn // /q_cmp.
by case: Z.compare => /=; rewrite /zr /= ?lexx ?ler10 ?lerN10 // mulrN1z oppr_le0 ler01.
Qed.

(* comparison of a number with a rational: the sign of v - q *)
Theorem rn_cmp_q_spec (x : rnum) (q : Z * Z) (v : R) : rn_denotes x v -> qpos q ->
  zr (rn_cmp_q x q) = sgr (v - qr q).
Proof.
case: x => [a|p lo hi] /=.
  by move=> [Ha ->] Hq; exact: q_cmp_sgn.
move=> [[Hlo Hhi] /andP[lov vhi] rv uniq sgn] Hq.
rewrite q_le_spec // (q_le_spec Hhi Hq).
case: (lerP (qr q) (qr lo)) => [qlo|loq].
  by rewrite gtr0_sg ?subr_gt0 ?(le_lt_trans qlo) // /zr.
case: (lerP (qr hi) (qr q)) => [hiq|qhi].
  by rewrite ltr0_sg ?subr_lt0 ?(lt_le_trans vhi) // /zr /= mulrN1z.
have Hsq := psgn_qP p Hq; have Hsl := psgn_qP p Hlo.
rewrite -zr_eq0 Hsq.
case: (altP (sgr (pr p).[qr q] =P 0)) => [/eqP|nz].
  rewrite sgr_eq0 -rootE => rq.
  by rewrite -(uniq _ rq) ?loq ?qhi // subrr sgr0 /zr.
have Hprod : zr (Z.mul (psgn_q p lo) (psgn_q p q)) = sgr (pr p).[qr lo] * sgr (pr p).[qr q].
  by rewrite zrM Hsl Hsq.
rewrite -zr_lt0 Hprod.
have nzlo : sgr (pr p).[qr lo] != 0.
  by apply/eqP => H0; move: sgn; rewrite H0 mul0r => /eqP; rewrite eq_sym oppr_eq0 oner_eq0.
case: ifP => [neg|pos].
  (* sign change on (lo, q): the root is below q *)
  have H : sgr (pr p).[qr lo] * sgr (pr p).[qr q] = -1.
    by move: neg; rewrite -sgrM sgr_lt0 => /ltr0_sg.
  have [w] := ivt_sign (ltW loq) H; rewrite in_itv /= => /andP[low wq] rw.
  rewrite -(uniq w rw); last by rewrite low (lt_trans wq qhi).
  by rewrite ltr0_sg ?subr_lt0 // /zr /= mulrN1z.
(* no sign change on (lo, q): sign change on (q, hi), the root is above q *)
have H1 : sgr (pr p).[qr lo] * sgr (pr p).[qr q] = 1.
  rewrite -sgrM; apply: gtr0_sg; rewrite lt_neqAle eq_sym.
  have nzq : (pr p).[qr q] != 0 by rewrite -sgr_eq0.
  have nzl : (pr p).[qr lo] != 0 by rewrite -sgr_eq0.
  rewrite mulf_neq0 //= leNgt -sgr_lt0 sgrM.
  by rewrite pos.
have H : sgr (pr p).[qr q] * sgr (pr p).[qr hi] = -1.
  have sq1 : sgr (pr p).[qr lo] * sgr (pr p).[qr lo] = 1.
    by rewrite -expr2 sqr_sg -sgr_eq0 nzlo.
  transitivity ((sgr (pr p).[qr lo] * sgr (pr p).[qr q]) * (sgr (pr p).[qr lo] * sgr (pr p).[qr hi])).
    by rewrite mulrACA sq1 mul1r.
  by rewrite H1 sgn mul1r.
have [w] := ivt_sign (ltW qhi) H; rewrite in_itv /= => /andP[qw whi] rw.
rewrite -(uniq w rw); last by rewrite whi (lt_trans loq qw).
by rewrite gtr0_sg ?subr_gt0 // /zr.
Qed.

(* ---- canonicalisation and midpoints *)
Lemma qr_canon' (n d : Z) : d <> Z0 ->
  qpos (q_canon' (n, d)) /\ qr (q_canon' (n, d)) = zr n / zr d.
Proof.
move=> Hd; rewrite /q_canon'.
have [r Hr] := ScalarProofs.q_canon_some n d Hd; rewrite Hr.
have [[Hpos _] Heq] := ScalarProofs.q_canon_spec n d r Hr.
split=> //; rewrite /qr.
have r2 : zr r.2 != 0 by rewrite gt_eqF // zr_gt0.
have d0 : zr d != 0 by rewrite zr_eq0; apply/negP => /Z.eqb_eq.
have E : zr r.1 * zr d = zr n * zr r.2 by rewrite -!zrM Heq.
by apply/eqP; rewrite eqr_div // E.
Qed.

Lemma qr_add (a b : Z * Z) : qpos a -> qpos b ->
  qpos (q_add a b) /\ qr (q_add a b) = qr a + qr b.
Proof.
move=> Ha Hb; rewrite /q_add.
have Hd : Z.mul a.2 b.2 <> Z0 by move: Ha Hb; rewrite /qpos; lia.
have [Hp ->] := qr_canon' (Z.add (Z.mul a.1 b.2) (Z.mul b.1 a.2)) Hd; split=> //.
rewrite zrD !zrM /qr; field.
by rewrite !gt_eqF // zr_gt0.
Qed.

Lemma qr_mid (a b : Z * Z) : qpos a -> qpos b ->
  qpos (q_mid a b) /\ qr (q_mid a b) = (qr a + qr b) / 2%:R.
Proof.
move=> Ha Hb; rewrite /q_mid /q_div_2exp.
have [Hs Es] := qr_add Ha Hb.
have Hd : Z.mul (q_add a b).2 (pow2 1) <> Z0 by move: Hs; rewrite /qpos /pow2 /=; lia.
have [Hp ->] := qr_canon' (q_add a b).1 Hd; split=> //.
rewrite -Es /qr zrM; have -> : zr (pow2 1) = 2%:R by rewrite /zr /pow2.
by field; rewrite gt_eqF ?zr_gt0 //= pnatr_eq0.
Qed.

(* one bisection step keeps the number *)
Theorem rn_refine_spec (x : rnum) (v : R) : rn_denotes x v -> rn_denotes (rn_refine x) v.
Proof.
case: x => [a|p lo hi] //=.
move=> [[Hlo Hhi] /andP[lov vhi] rv uniq sgn].
have [Hm Em] := qr_mid Hlo Hhi.
set m := q_mid lo hi in Hm Em *.
have lom : qr lo < qr m by rewrite Em ltr_pdivl_mulr ?ltr0n // mulr_natr mulr2n ltr_add2l (lt_trans lov vhi).
have mhi : qr m < qr hi by rewrite Em ltr_pdivr_mulr ?ltr0n // mulr_natr mulr2n ltr_add2r (lt_trans lov vhi).
have Hsm := psgn_qP p Hm; have Hsl := psgn_qP p Hlo.
have nzlo : sgr (pr p).[qr lo] != 0.
  by apply/eqP => H0; move: sgn; rewrite H0 mul0r => /eqP; rewrite eq_sym oppr_eq0 oner_eq0.
rewrite -zr_eq0 Hsm.
case: (altP (sgr (pr p).[qr m] =P 0)) => [/eqP|nz].
  rewrite sgr_eq0 -rootE => rm /=; split=> //.
  by rewrite (uniq _ rm) // lom mhi.
have Hprod : zr (Z.mul (psgn_q p lo) (psgn_q p m)) = sgr (pr p).[qr lo] * sgr (pr p).[qr m].
  by rewrite zrM Hsl Hsm.
rewrite -zr_lt0 Hprod.
case: ifP => [neg|pos] /=.
  have H : sgr (pr p).[qr lo] * sgr (pr p).[qr m] = -1.
    by move: neg; rewrite -sgrM sgr_lt0 => /ltr0_sg.
  have [w] := ivt_sign (ltW lom) H; rewrite in_itv /= => /andP[low wm] rw.
  have Ew : w = v by apply: uniq => //; rewrite low (lt_trans wm mhi).
  split=> //; first by rewrite -Ew low wm.
  by move=> z rz /andP[loz zm]; apply: uniq => //; rewrite loz (lt_trans zm mhi).
have nzm : (pr p).[qr m] != 0 by rewrite -sgr_eq0.
have nzl : (pr p).[qr lo] != 0 by rewrite -sgr_eq0.
have H1 : sgr (pr p).[qr lo] * sgr (pr p).[qr m] = 1.
  rewrite -sgrM; apply: gtr0_sg; rewrite lt_neqAle eq_sym mulf_neq0 //= leNgt -sgr_lt0 sgrM.
  by rewrite pos.
have H : sgr (pr p).[qr m] * sgr (pr p).[qr hi] = -1.
  have sq1 : sgr (pr p).[qr lo] * sgr (pr p).[qr lo] = 1.
    by rewrite -expr2 sqr_sg -sgr_eq0 nzlo.
  transitivity ((sgr (pr p).[qr lo] * sgr (pr p).[qr m]) * (sgr (pr p).[qr lo] * sgr (pr p).[qr hi])).
    by rewrite mulrACA sq1 mul1r.
  by rewrite H1 sgn mul1r.
have [w] := ivt_sign (ltW mhi) H; rewrite in_itv /= => /andP[mw whi] rw.
have Ew : w = v by apply: uniq => //; rewrite whi (lt_trans lom mw).
split=> //; first by rewrite -Ew mw whi.
by move=> z rz /andP[mz zhi]; apply: uniq => //; rewrite zhi (lt_trans lom mz).
Qed.

End Numbers.
