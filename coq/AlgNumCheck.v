(* C07: the ACCEPTANCE TEST of the model driver (ocaml/p_c07.ml) for the results of libpoly's algebraic-number arithmetic
   and order, as ONE Gallina function.  Executable, stdlib only, no proofs here: AlgNumCheckProofs.v proves that whatever
   `accept_op` accepts is the mathematically right answer, in every real closed field.

   The driver hands to `accept_op`
     - the operation (lp_algebraic_number_add / sub / neg / mul / inv / div / pow / positive_root / sgn / cmp /
       cmp_integer / cmp_dyadic_rational / cmp_rational / floor / ceiling / is_integer / is_rational / to_rational, and the
       approximations to_double / midpoints as `KApprox eps`; `KSame` for an operand struct re-read after a const call),
     - the operand representations exactly as libpoly printed them (each read as a RefAlg.rnum: RQ for a point, RA f lo hi
       for a proper algebraic number; the polynomial is libpoly's, not normalised),
     - what libpoly answered: a representation, an integer, a truth value, a rational, or "undefined".
   `accept_op` computes the answer with the PROVED reference arithmetic of RefAlg.v (Properties_Base.v: Base_rn_add ..
   Base_rn_to_rational) on the normalised operands and compares: representations through `same_num` (the certificate
   test cert_eq, else RefineCheck.same_number = rn_valid + rn_cmp = Some 0: valid and the same real number), scalars exactly. *)
From Coq Require Import ZArith NArith List Bool.
From LP Require Import Scalar UPoly RefAlg RefineCheck AlgNum.
Import ListNotations.
Local Open Scope Z_scope.

Inductive c07_op :=
| KAdd | KSub | KNeg | KMul | KInv | KDiv
| KPow (n : nat)                    (* lp_algebraic_number_pow *)
| KRoot (n : nat)                   (* lp_algebraic_number_positive_root *)
| KSgn | KCmp
| KCmpZ (z : Z)                     (* cmp_integer *)
| KCmpD (d : dyadic)                (* cmp_dyadic_rational: the dyadic da / 2^dn *)
| KCmpQ (q : rat)                   (* cmp_rational *)
| KFloor | KCeil | KIsInt | KIsRat
| KToRat                            (* to_rational of a number the library holds as a rational: the exact value *)
| KApprox (eps : rat)               (* a rational approximation with |answer - number| <= eps *)
| KSame.                            (* a representation of the same number (copy, operand re-read after a call) *)

Inductive c07_result :=
| VNum (r : rnum) | VInt (z : Z) | VBool (b : bool) | VRat (q : rat)
| VUndef.                           (* the library refused: division by / inverse of zero, root of a negative number *)

(* ---------------------------------------------------------------- the reference operations with the Sturm chain of the
   annihilating polynomial computed ONCE per operation.  RefAlg.rn_select re-computes `sturm_chain r` in every round of its
   refinement loop (count_open); the chain of a degree-16 resultant costs about a second in the extracted arithmetic.
   AlgNum.rv_select takes the chain function as an argument: with the constant function returning the chain computed up
   front it IS RefAlg.rn_select (AlgNumCheckProofs.sel_sharedE), hence add_sh = rn_add, mul_sh = rn_mul, ... (add_shE ...),
   and the theorems of Properties_Base.v apply to what is executed here. *)
Definition sel_shared (fuel : nat) (r : poly) (encl : rnum -> rnum -> rat * rat) (x y : rnum) : option rnum :=
  let ch := sturm_chain r in rv_select (fun _ => ch) fuel r encl x y.

Definition add_sh (fuel : nat) (x y : rnum) : option rnum :=
  match x, y with
  | RQ a, RQ b => Some (RQ (q_add a b))
  | _, _ =>
    let r := psqfree (ann_add (rn_poly x) (rn_poly y)) in
    sel_shared fuel r (fun x y => RefAlg.iv_add (rn_lo x) (rn_hi x) (rn_lo y) (rn_hi y)) x y
  end.
Definition sub_sh (fuel : nat) (x y : rnum) : option rnum := add_sh fuel x (rn_neg y).
Definition mul_sh (fuel : nat) (x y : rnum) : option rnum :=
  match x, y with
  | RQ a, RQ b => Some (RQ (q_mul a b))
  | _, _ =>
    if (rn_sgn x =? 0) || (rn_sgn y =? 0) then Some (RQ (0, 1)) else
    let r := psqfree (ann_mul (rn_poly x) (rn_poly y)) in
    sel_shared fuel r (fun x y => RefAlg.iv_mul (rn_lo x) (rn_hi x) (rn_lo y) (rn_hi y)) x y
  end.
Definition div_sh (fuel : nat) (x y : rnum) : option rnum :=
  match rn_inv fuel y with Some i => mul_sh fuel x i | None => None end.
Definition pow_sh (fuel : nat) (x : rnum) (n : nat) : option rnum :=
  match n with
  | O => Some (RQ (1, 1))
  | S O => Some x
  | _ =>
    match x with
    | RQ q => Some (RQ (q_pow q (N.of_nat n)))
    | RA p _ _ =>
      if rn_sgn x =? 0 then Some (RQ (0, 1)) else
      let r := psqfree (ann_pow p n) in
      sel_shared fuel r (fun x _ => iv_pow (rn_lo x) (rn_hi x) n) x x
    end
  end.

(* the two representations are literally the same (an operand struct that a const call did not touch) *)
Fixpoint zl_eqb (a b : list Z) : bool :=
  match a, b with
  | [], [] => true
  | x :: a', y :: b' => (x =? y) && zl_eqb a' b'
  | _, _ => false
  end.
Definition q_eqrep (a b : rat) : bool := (fst a =? fst b) && (snd a =? snd b).
Definition rn_eqrep (x y : rnum) : bool :=
  match x, y with
  | RQ a, RQ b => q_eqrep a b
  | RA p lo hi, RA p' lo' hi' => zl_eqb p p' && q_eqrep lo lo' && q_eqrep hi hi'
  | _, _ => false
  end.

(* r (printed by libpoly: RA f lo hi, f as it is) against a reference number z = RA q l h, by CERTIFICATE instead of a second
   root count: r is valid (exactly one root w of f in ]lo,hi[), the number v of z lies in ]lo,hi[ (two comparisons with
   rationals), and gcd(f, q) has opposite signs at l and h - so f and q have a common root in ]l,h[, which is v (the only
   root of q there); hence f(v) = 0 and w = v.  One gcd, no square-free part or Sturm chain of the gcd.  Complete when q
   is square-free (the reference results are); anything else falls back to RefineCheck.same_number. *)
Definition cert_eq (r z : rnum) : bool :=
  match r, z with
  | RA f lo hi, RA q l h =>
    rn_valid r && (0 <? rn_cmp_q z lo) && (rn_cmp_q z hi <? 0) &&
    (let g := pgcd f q in
     (psgn_q g l <? 0) && (0 <? psgn_q g h) || (0 <? psgn_q g l) && (psgn_q g h <? 0))
  | _, _ => false
  end.
Definition same_num (fuel : nat) (r z : rnum) : bool := cert_eq r z || same_number fuel r z.

(* the reference result exists and the printed representation is a valid representation of the same real *)
Definition same_as (fuel : nat) (r : rnum) (o : option rnum) : bool :=
  match o with Some z => same_num fuel r z | None => false end.

Definition dy_q (d : dyadic) : rat := (da d, pow2 (dn d)).
Definition z_q (z : Z) : rat := (z, 1).

Definition cmp_q_is (x : rnum) (q : rat) (c : Z) : bool := qposb q && (rn_cmp_q x q =? c).

(* |x - q| <= eps, decided exactly by two comparisons with rationals *)
Definition within_eps (x : rnum) (q eps : rat) : bool :=
  qposb q && qposb eps && (0 <=? fst eps) &&
  (0 <=? rn_cmp_q x (q_add q (q_neg eps))) && (rn_cmp_q x (q_add q eps) <=? 0).

Definition accept_op (fuel : nat) (op : c07_op) (args : list rnum) (res : c07_result) : bool :=
  match op, args, res with
  | KSame, [x], VNum r => rn_eqrep x r || same_num fuel r (rn_norm x)
  | _, _, _ =>
  match op, map rn_norm args, res with
  | KAdd, [x; y], VNum r => same_as fuel r (add_sh fuel x y)
  | KSub, [x; y], VNum r => same_as fuel r (sub_sh fuel x y)
  | KMul, [x; y], VNum r => same_as fuel r (mul_sh fuel x y)
  | KDiv, [x; y], VNum r => same_as fuel r (div_sh fuel x y)
  | KDiv, [x; y], VUndef => rn_sgn y =? 0
  | KNeg, [x], VNum r => same_num fuel r (rn_neg x)
  | KInv, [x], VNum r => same_as fuel r (rn_inv fuel x)
  | KInv, [x], VUndef => rn_sgn x =? 0
  | KPow n, [x], VNum r => same_as fuel r (pow_sh fuel x n)
  | KRoot n, [x], VNum r =>
    (* the result is a valid number >= 0 whose n-th power is the operand *)
    Nat.ltb 0 n && rn_valid r && (0 <=? rn_sgn (rn_norm r)) &&
    match pow_sh fuel (rn_norm r) n with
    | Some w => opt_is (rn_cmp fuel w x) 0
    | None => false
    end
  | KRoot n, [x], VUndef => Nat.eqb n 0 || (rn_sgn x <? 0)
  | KSgn, [x], VInt c => rn_sgn x =? c
  | KCmp, [x; y], VInt c => opt_is (rn_cmp fuel x y) c
  | KCmpZ z, [x], VInt c => cmp_q_is x (z_q z) c
  | KCmpD d, [x], VInt c => cmp_q_is x (dy_q d) c
  | KCmpQ q, [x], VInt c => cmp_q_is x q c
  | KFloor, [x], VInt z => opt_is (rn_floor fuel x) z
  | KCeil, [x], VInt z => opt_is (rn_ceiling fuel x) z
  | KIsInt, [x], VBool b =>
    match rn_is_integer fuel x with Some w => Bool.eqb w b | None => false end
  | KIsRat, [x], VBool b =>
    (* libpoly's is_rational is a syntactic test (point or linear polynomial): answering 0 for a rational number hidden
       behind a polynomial of higher degree is documented behaviour; answering 1 must be right *)
    if b then match rn_is_rational fuel x with Some w => w | None => false end else true
  | KToRat, [x], VRat q => q_is_canon q && (rn_cmp_q x q =? 0)
  | KApprox eps, [x], VRat q => within_eps x q eps
  | _, _, _ => false
  end
  end.
