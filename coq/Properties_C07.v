(* Property C07 - real algebraic numbers form an ordered field.  ONLY theorem statements, each closed by `exact` of a
   lemma of AlgNumProofs.v, with Print Assumptions beneath, and non-vacuity examples.
   Model: AlgNum.v (faithful model of number/algebraic_number.c).  Everything is over an ARBITRARY real closed field
   R : rcfType (MathComp); integer polynomials act through polyR = map_poly ZR, dyadics denote dyR d = a / 2^n.
   `Den x v` : the model number x denotes v in R (a point denotes itself; (p, ]a,b[, sa, sb) denotes the unique root of
   p in ]a,b[ - MathComp's `roots p a b = [:: v]` - with sa, sb the non-zero opposite signs of p at the ends).
   Strength labels: FULL = closed theorem about the model for all inputs; COND = premises named in the statement;
   PARTIAL = weaker than the intended statement, which is kept as a Definition ..._full_statement. *)
From Coq Require Import ZArith NArith List.
From LP Require Import Scalar ScalarProofs UPoly RefAlg AlgNum AlgNumCheck.
Set Warnings "-notation-overridden,-ambiguous-paths".
From mathcomp Require Import all_ssreflect all_algebra all_real_closed.
From mathcomp Require Import ssrZ.
From LP Require Import AlgNumProofs AlgNumRootProofs AlgNumGcd RefAlgSpec AlgNumCheckProofs.
Set Warnings "notation-overridden,ambiguous-paths".
Import GRing.Theory Num.Theory Num.Def Order.TTheory.
Local Open Scope ring_scope.
Delimit Scope Z_scope with ZZ.

(* ---- 1. refinement keeps the denoted root (FULL).  lp_algebraic_number_refine / refine_const_internal: bisection
        keeping the half with the sign change, collapse to the midpoint on an exact hit; refine_with_point. *)
Theorem C07_refine : forall (R : rcfType) (x : anum) (v : R), Den x v -> Den (an_refine x) v.
Proof. exact refine_Den. Qed.
Print Assumptions C07_refine.

Theorem C07_refine_with_point : forall (R : rcfType) (x : anum) (q : dyadic) (v : R),
  Den x v -> Den (an_refine_with_point x q) v.
Proof. exact refine_with_point_Den. Qed.
Print Assumptions C07_refine_with_point.

(* the invariant read by floor / ceiling / is_integer (the interval lies between two consecutive integers) survives *)
Theorem C07_refine_keeps_integer_free : forall (R : rcfType) (x : anum) (v : R),
  Den x v -> int_free x -> int_free (an_refine x).
Proof. exact refine_int_free. Qed.
Print Assumptions C07_refine_keeps_integer_free.

(* the characterisation used throughout: MathComp's root list is [:: x] iff x is THE root in the open interval *)
Theorem C07_unique_root_characterisation : forall (R : rcfType) (p : {poly R}) (a b x : R),
  roots p a b = [:: x] <->
  [/\ p != 0, a < x < b, root p x & forall y, a < y < b -> root p y -> y = x].
Proof. exact urootP. Qed.
Print Assumptions C07_unique_root_characterisation.

(* ---- 2. construction (FULL for the denotation): lp_algebraic_number_construct on a polynomial with exactly one root v
        in ]lo,hi[ and a sign change returns a number denoting v *)
Theorem C07_construct : forall (R : rcfType) fuel (p : UPoly.poly) (lo hi : dyadic) (y : anum) (v : R),
  roots (polyR p) (dyR lo) (dyR hi) = [:: v] ->
  Z.ltb (an_psgn_dy p lo * an_psgn_dy p hi) 0 ->
  an_construct fuel p lo hi = Some y -> Den y v.
Proof. exact construct_sound. Qed.
Print Assumptions C07_construct.

(* ... and ESTABLISHES the invariant read by floor / ceiling / is_integer: after `while (size >= 0) refine` the width is
   below 1/2, and the refinement with ceil(a) leaves the interval between two consecutive integers (FULL) *)
Theorem C07_construct_integer_free : forall (R : rcfType) fuel (p : UPoly.poly) (lo hi : dyadic) (y : anum) (v : R),
  roots (polyR p) (dyR lo) (dyR hi) = [:: v] ->
  Z.ltb (an_psgn_dy p lo * an_psgn_dy p hi) 0 ->
  an_construct fuel p lo hi = Some y -> int_free y.
Proof. exact construct_int_free. Qed.
Print Assumptions C07_construct_integer_free.

(* ---- 3. sign and comparison with integers, dyadic rationals, rationals (FULL): when the call returns, its answer is
        the sign of (value - scalar) and the refined operand denotes the same value *)
Theorem C07_cmp_integer : forall (R : rcfType) fuel (x : anum) (v : R) (z : Z) (c : Z) (x' : anum),
  Den x v -> an_cmp_integer fuel x z = Some (c, x') -> ZR (Z.sgn c) = sgr (v - ZR z) /\ Den x' v.
Proof. exact cmp_integer_sound. Qed.
Print Assumptions C07_cmp_integer.

Theorem C07_cmp_dyadic : forall (R : rcfType) fuel (x : anum) (v : R) (q : dyadic) (c : Z) (x' : anum),
  Den x v -> an_cmp_dyadic fuel x q = Some (c, x') -> ZR (Z.sgn c) = sgr (v - dyR q) /\ Den x' v.
Proof. exact cmp_dyadic_sound. Qed.
Print Assumptions C07_cmp_dyadic.

Theorem C07_cmp_rational : forall (R : rcfType) fuel (x : anum) (v : R) (q : Scalar.rat) (c : Z) (x' : anum),
  q_wf q -> Den x v -> an_cmp_rational fuel x q = Some (c, x') -> ZR (Z.sgn c) = sgr (v - ratR q) /\ Den x' v.
Proof. exact cmp_rational_sound. Qed.
Print Assumptions C07_cmp_rational.

Theorem C07_sgn : forall (R : rcfType) fuel (x : anum) (v : R) (c : Z) (x' : anum),
  Den x v -> an_sgn fuel x = Some (c, x') -> ZR (Z.sgn c) = sgr v /\ Den x' v.
Proof. exact sgn_sound. Qed.
Print Assumptions C07_sgn.

(* ---- 4. floor, ceiling, integrality, rationality (FULL, from the invariant int_free) *)
Theorem C07_floor : forall (R : rcfType) (x : anum) (v : R),
  Den x v -> int_free x -> ZR (an_floor x) <= v < ZR (an_floor x) + 1.
Proof. exact floor_sound. Qed.
Print Assumptions C07_floor.

Theorem C07_ceiling : forall (R : rcfType) (x : anum) (v : R),
  Den x v -> int_free x -> ZR (an_ceiling x) - 1 < v <= ZR (an_ceiling x).
Proof. exact ceiling_sound. Qed.
Print Assumptions C07_ceiling.

Theorem C07_is_integer_sound : forall (R : rcfType) (x : anum) (v : R),
  Den x v -> an_is_integer x = true -> exists z : Z, v = ZR z.
Proof. exact is_integer_sound. Qed.
Print Assumptions C07_is_integer_sound.

(* completeness of the integrality test: a number kept with a polynomial is never an integer *)
Theorem C07_is_integer_complete : forall (R : rcfType) (x : anum) (p : UPoly.poly) (v : R) (z : Z),
  an_f x = Some p -> Den x v -> int_free x -> v <> ZR z.
Proof. exact proper_not_integer. Qed.
Print Assumptions C07_is_integer_complete.

(* the (incomplete) rationality test never answers true for an irrational number *)
Theorem C07_is_rational_sound : forall (R : rcfType) (x : anum) (v : R),
  Den x v -> an_is_rational x = true -> exists n d : Z, d <> Z0 /\ v * ZR d = ZR n.
Proof. exact is_rational_sound. Qed.
Print Assumptions C07_is_rational_sound.

(* ---- 5. negation (FULL): the result of lp_algebraic_number_neg denotes the negation *)
Theorem C07_neg : forall (R : rcfType) fuel (x y : anum) (v : R),
  Den x v -> an_neg fuel x = Some y -> Den y (- v).
Proof. exact neg_sound. Qed.
Print Assumptions C07_neg.

Theorem C07_neg_integer_free : forall (R : rcfType) fuel (x y : anum) (v : R),
  Den x v -> an_neg fuel x = Some y -> int_free y.
Proof. exact neg_int_free. Qed.
Print Assumptions C07_neg_integer_free.

(* ---- 6. arithmetic: the selection argument (FULL) and the selection loop of lp_algebraic_number_op (COND) *)
(* a root of r known to lie in an interval where r has exactly one root IS that root (what RefAlg.rn_select and
   libpoly's filter loop both rely on) *)
Theorem C07_select_unique : forall (R : rcfType) (r : {poly R}) (l h z w : R),
  root r z -> l < z < h -> roots r l h = [:: w] -> w = z.
Proof. exact select_unique. Qed.
Print Assumptions C07_select_unique.

(* lp_dyadic_interval_disjoint is sound for every combination of open / closed / point intervals *)
Theorem C07_disjoint_sound : forall (R : rcfType) (I1 I2 : an_ivl) (v : R),
  iv_disjoint I1 I2 = true -> iv_mem I1 v -> iv_mem I2 v -> Logic.False.
Proof. exact iv_disjoint_sound. Qed.
Print Assumptions C07_disjoint_sound.

(* COND: premises  iop_encloses (interval arithmetic is inclusion-correct: C15)  and  roots_complete (the isolated roots
   handed to the loop contain a number denoting a op b: "the resultant vanishes at a op b" (C04, annihilates_add / annihilates_mul) plus
   completeness of root isolation (C06)).  Then the loop can only return a number denoting a op b, whatever the
   refinement schedule, and the refined operands keep their values. *)
Theorem C07_op_select_cond : forall (R : rcfType) (op : R -> R -> R) (iop : an_ivl -> an_ivl -> an_ivl),
  (forall I1 I2 u w, iv_mem I1 u -> iv_mem I2 w -> iv_mem (iop I1 I2) (op u w)) ->
  forall fuel (a b : anum) (rts : seq anum) (va vb : R) (r a' : anum) (b' : option anum) (r0 : anum),
  Den a va -> Den b vb -> List.In r0 rts -> Den r0 (op va vb) ->
  an_op_loop fuel iop a (Some b) rts = OpOk r a' b' ->
  [/\ Den r (op va vb), Den a' va & exists2 b1, b' = Some b1 & Den b1 vb].
Proof. exact op_loop_sound. Qed.
Print Assumptions C07_op_select_cond.

(* the loop of lp_algebraic_number_positive_root (COND): premise root_encloses (the over-approximated root interval
   contains the non-negative n-th root of every point of the operand's interval: C15 on top of C07_root_approx_floor /
   _ceil) and the isolated roots of f(x^n) contain a number denoting the root *)
Theorem C07_root_select_cond : forall (R : rcfType) (n : N),
  (forall I (prec : N) (u w : R), iv_mem I u -> 0 <= w -> w ^+ (N.to_nat n) = u -> iv_mem (iv_root_overapprox I n prec) w) ->
  forall fuel (prec : N) (a : anum) (rts : seq anum) (va v : R) (r a' : anum) (b' : option anum) (r0 : anum),
  Den a va -> 0 <= v -> v ^+ (N.to_nat n) = va -> List.In r0 rts -> Den r0 v ->
  an_root_loop fuel n prec a rts = OpOk r a' b' -> Den r v /\ Den a' va.
Proof. exact root_loop_sound. Qed.
Print Assumptions C07_root_select_cond.

(* the annihilating polynomial of a sum / difference, for MathComp's resultant (polyXY): FULL about the mathematical
   resultant; that libpoly's subresultant algorithm computes it is property C04's *)
Theorem C07_annihilates_add : forall (R : rcfType) (p q : {poly R}) (x y : R),
  p != 0 -> q != 0 -> root p x -> root q y ->
  sub_annihilant p (q \Po (- 'X)) != 0 /\ root (sub_annihilant p (q \Po (- 'X))) (x + y).
Proof. exact annihilates_add. Qed.
Print Assumptions C07_annihilates_add.

Theorem C07_annihilates_sub : forall (R : rcfType) (p q : {poly R}) (x y : R),
  p != 0 -> q != 0 -> root p x -> root q y ->
  sub_annihilant p q != 0 /\ root (sub_annihilant p q) (x - y).
Proof. exact annihilates_sub. Qed.
Print Assumptions C07_annihilates_sub.

(* the product analogue is NOT proved here: named premise of the arithmetic (stated, not used as an axiom) *)
Definition annihilates_mul_statement : Prop := forall (R : rcfType) (p q : {poly R}) (x y : R),
  p != 0 -> q != 0 -> root p x -> root q y -> y != 0 ->
  exists r : {poly R}, r != 0 /\ root r (x * y) /\
    (forall z, root r z -> exists x' y', [/\ root p x', root q y' & z = x' * y']).

(* ---- 7. comparison of two numbers (COND, one premise  gcd_divides : the polynomial returned by lp_upolynomial_gcd
        vanishes only at common roots of its arguments [C03]).  When lp_algebraic_number_cmp returns, the answer has
        the sign of v - w: EQUAL NUMBERS COMPARE EQUAL whatever polynomials and intervals represent them, different
        numbers never do; and both operands - refined through const pointers, possibly with their polynomials
        replaced by the gcd - keep their values.  Covers the refinement with the ends of the intersection (after which
        the intervals are separated or equal), the gcd test, the bisection race and the open/closed tie-breaks. *)
Theorem C07_cmp_cond : forall (R : rcfType) fuel (gcdf : UPoly.poly -> UPoly.poly -> UPoly.poly)
  (x y : anum) (c : Z) (x' y' : anum) (v w : R),
  (forall p q (z : R), root (polyR (gcdf p q)) z -> root (polyR p) z /\ root (polyR q) z) ->
  Den x v -> Den y w -> an_cmp fuel gcdf x y = Some (c, x', y') ->
  [/\ ZR (Z.sgn c) = sgr (v - w), Den x' v & Den y' w].
Proof. exact cmp_sound. Qed.
Print Assumptions C07_cmp_cond.

(* the equality branch on its own: equal intervals + sign change of the gcd => the numbers ARE equal and both reduced
   representations denote them *)
Theorem C07_cmp_equal_branch_cond : forall (R : rcfType) (x y : anum) (p q g : UPoly.poly) (v w : R),
  an_f x = Some p -> an_f y = Some q -> Den x v -> Den y w ->
  dyR (an_a x) = dyR (an_a y) :> R -> dyR (an_b x) = dyR (an_b y) :> R ->
  (forall z : R, root (polyR g) z -> root (polyR p) z /\ root (polyR q) z) ->
  Z.ltb (an_psgn_dy g (an_a x) * an_psgn_dy g (an_b x)) 0 ->
  [/\ v = w,
      Den (an_reduce_polynomial x g (an_psgn_dy g (an_a x)) (an_psgn_dy g (an_b x))) v &
      Den (an_reduce_polynomial y g (an_psgn_dy g (an_a x)) (an_psgn_dy g (an_b x))) w].
Proof. exact cmp_gcd_branch_sound. Qed.
Print Assumptions C07_cmp_equal_branch_cond.

(* ---- 7'. the same WITHOUT the premise (FULL), for the model in which the gcd is computed by the reference
        an_ref_gcd p q = ppp (UPoly.pgcd p q): property C03 proved that UPoly.pgcd divides both operands
        (C03_pgcd_divides_both), hence vanishes only at common roots, and so does its primitive part.  libpoly's own
        lp_upolynomial_gcd is tied to this reference by the C03 correspondence, and C07's correspondence compares the
        operands of lp_algebraic_number_cmp after the call EXACTLY with this instantiated model. *)
Theorem C07_cmp_full : forall (R : rcfType) fuel (x y : anum) (c : Z) (x' y' : anum) (v w : R),
  Den x v -> Den y w -> an_cmp fuel an_ref_gcd x y = Some (c, x', y') ->
  [/\ ZR (Z.sgn c) = sgr (v - w), Den x' v & Den y' w].
Proof. exact cmp_full. Qed.
Print Assumptions C07_cmp_full.

Theorem C07_cmp_equal_branch_full : forall (R : rcfType) (x y : anum) (p q : UPoly.poly) (v w : R),
  let g := an_ref_gcd p q in
  an_f x = Some p -> an_f y = Some q -> Den x v -> Den y w ->
  dyR (an_a x) = dyR (an_a y) :> R -> dyR (an_b x) = dyR (an_b y) :> R ->
  Z.ltb (an_psgn_dy g (an_a x) * an_psgn_dy g (an_b x)) 0 ->
  [/\ v = w,
      Den (an_reduce_polynomial x g (an_psgn_dy g (an_a x)) (an_psgn_dy g (an_b x))) v &
      Den (an_reduce_polynomial y g (an_psgn_dy g (an_a x)) (an_psgn_dy g (an_b x))) w].
Proof. exact cmp_equal_branch_full. Qed.
Print Assumptions C07_cmp_equal_branch_full.

(* the end game of cmp: once the intervals are separated, comparing the lower ends (with the open/closed tie-breaks)
   gives the sign of v - w  (FULL) *)
Theorem C07_cmp_final : forall (R : rcfType) (x y : anum) (v w : R),
  Den x v -> Den y w -> Sep R x y -> ZR (Z.sgn (cmp_final x y)) = sgr (v - w).
Proof. exact cmp_final_sound. Qed.
Print Assumptions C07_cmp_final.

(* ---- 8. the REPAIRED dyadic_rational_root_approx (Scalar.v; History.v keeps the refuted pre-repair version) brackets
        the n-th root, for every a > 0, n >= 1 and precision (FULL; stdlib Z arithmetic).  The result is the
        normalisation (value preserving, C17) of r / 2^e with  (r/2^e)^n <= a  for floor,  a <= (r/2^e)^n  for ceil. *)
Theorem C07_iroot : forall n a : Z, (0 < n)%ZZ -> (0 < a)%ZZ ->
  let r := iroot (Z.to_N n) a in (0 <= r)%ZZ /\ (r ^ n <= a < (r + 1) ^ n)%ZZ.
Proof. exact iroot_spec. Qed.
Print Assumptions C07_iroot.

Theorem C07_root_approx_floor : forall (a : dyadic) (n prec : N), (0 < da a)%ZZ -> N.lt 0 n ->
  exists r e, fst (dy_root_approx a n prec false) = dy_normalize (mkDy r e) /\ (0 <= r)%ZZ /\
    (r ^ Z.of_N n * pow2 (dn a) <= da a * pow2 (e * n))%ZZ /\
    (snd (dy_root_approx a n prec false) = true -> (r ^ Z.of_N n * pow2 (dn a) = da a * pow2 (e * n))%ZZ).
Proof. exact dy_root_approx_floor. Qed.
Print Assumptions C07_root_approx_floor.

Theorem C07_root_approx_ceil : forall (a : dyadic) (n prec : N), (0 < da a)%ZZ -> N.lt 0 n ->
  exists r e, fst (dy_root_approx a n prec true) = dy_normalize (mkDy r e) /\ (0 <= r)%ZZ /\
    (da a * pow2 (e * n) <= r ^ Z.of_N n * pow2 (dn a))%ZZ.
Proof. exact dy_root_approx_ceil. Qed.
Print Assumptions C07_root_approx_ceil.

(* ---- non-vacuity: a concrete proper number in EVERY real closed field: (2x - 1, ]0,1[, -, +) denotes 1/2, it is
        integer-free, and the theorems above apply to it (its refinement collapses to the point 1/2) *)
Example C07_example_den : forall R : rcfType, Den an_half_example (2%:R^-1 : R).
Proof. exact an_half_example_Den. Qed.
Example C07_example_int_free : int_free an_half_example.
Proof. reflexivity. Qed.
Example C07_example_refine : an_refine an_half_example = an_point (mkDy 1 1).
Proof. reflexivity. Qed.
Example C07_example_cmp : an_cmp_integer 10 an_half_example 1 = Some (Zneg xH, an_half_example).
Proof. reflexivity. Qed.
Example C07_example_neg : exists y, an_neg 10 an_half_example = Some y /\ an_f y = None.
Proof. eexists; split; reflexivity. Qed.
Example C07_example_root_approx :   (* floor of cbrt(3/2) at precision 5 is 1; the pre-repair code gave 5/4 > cbrt(3/2) *)
  fst (dy_root_approx (mkDy 3%ZZ (N.of_nat 1)) (N.of_nat 3) (N.of_nat 5) false) = mkDy 1%ZZ (N.of_nat 0).
Proof. reflexivity. Qed.
(* equal numbers in different representations compare equal: (2x - 1, ]0,1[) against the point 1/2 *)
Example C07_example_cmp_equal :
  an_cmp 10 an_ref_gcd an_half_example (an_point (mkDy 1%ZZ (N.of_nat 1)))
  = Some (Z0, an_point (mkDy 1%ZZ (N.of_nat 1)), an_point (mkDy 1%ZZ (N.of_nat 1))).
Proof. reflexivity. Qed.

(* ---- 10. THE ACCEPTANCE TEST of the driver is sound (FULL).  `AlgNumCheck.accept_op fuel op args result` is the extracted
        function by which ocaml/p_c07.ml accepts what libpoly printed for an lp_algebraic_number_* call: the operands and the
        result are the printed structs read as RefAlg.rnum (point -> RQ, (f, ]a,b[) -> RA f a b; `rn_norm` replaces f by its
        square-free part), scalars are the printed integers / truth values / rationals.  Whenever the operand
        representations denote a, b in a real closed field R (`RefAlgSpec.rn_denotes`: THE root of the polynomial in the
        open interval, with a sign change) and the test says `true`, libpoly's answer is the mathematically right one. *)
Theorem C07_accept_add_sound : forall (R : rcfType) (fuel : nat) (x y r : rnum) (a b : R),
  RefAlgSpec.rn_denotes (rn_norm x) a -> RefAlgSpec.rn_denotes (rn_norm y) b ->
  accept_op fuel KAdd [:: x; y] (VNum r) -> RefAlgSpec.rn_denotes (rn_norm r) (a + b).
Proof. exact accept_add_sound. Qed.
Print Assumptions C07_accept_add_sound.

Theorem C07_accept_sub_sound : forall (R : rcfType) (fuel : nat) (x y r : rnum) (a b : R),
  RefAlgSpec.rn_denotes (rn_norm x) a -> RefAlgSpec.rn_denotes (rn_norm y) b ->
  accept_op fuel KSub [:: x; y] (VNum r) -> RefAlgSpec.rn_denotes (rn_norm r) (a - b).
Proof. exact accept_sub_sound. Qed.
Print Assumptions C07_accept_sub_sound.

Theorem C07_accept_neg_sound : forall (R : rcfType) (fuel : nat) (x r : rnum) (a : R),
  RefAlgSpec.rn_denotes (rn_norm x) a ->
  accept_op fuel KNeg [:: x] (VNum r) -> RefAlgSpec.rn_denotes (rn_norm r) (- a).
Proof. exact accept_neg_sound. Qed.
Print Assumptions C07_accept_neg_sound.

Theorem C07_accept_mul_sound : forall (R : rcfType) (fuel : nat) (x y r : rnum) (a b : R),
  RefAlgSpec.rn_denotes (rn_norm x) a -> RefAlgSpec.rn_denotes (rn_norm y) b ->
  accept_op fuel KMul [:: x; y] (VNum r) -> RefAlgSpec.rn_denotes (rn_norm r) (a * b).
Proof. exact accept_mul_sound. Qed.
Print Assumptions C07_accept_mul_sound.

(* an accepted inverse / quotient: the operand / divisor is not zero and the result is 1/a, a/b; an accepted refusal
   ("undefined") happens only at zero *)
Theorem C07_accept_inv_sound : forall (R : rcfType) (fuel : nat) (x r : rnum) (a : R),
  RefAlgSpec.rn_denotes (rn_norm x) a ->
  accept_op fuel KInv [:: x] (VNum r) -> a != 0 /\ RefAlgSpec.rn_denotes (rn_norm r) a^-1.
Proof. exact accept_inv_sound. Qed.
Print Assumptions C07_accept_inv_sound.

Theorem C07_accept_inv_undef_sound : forall (R : rcfType) (fuel : nat) (x : rnum) (a : R),
  RefAlgSpec.rn_denotes (rn_norm x) a -> accept_op fuel KInv [:: x] VUndef -> a = 0.
Proof. exact accept_inv_undef_sound. Qed.
Print Assumptions C07_accept_inv_undef_sound.

Theorem C07_accept_div_sound : forall (R : rcfType) (fuel : nat) (x y r : rnum) (a b : R),
  RefAlgSpec.rn_denotes (rn_norm x) a -> RefAlgSpec.rn_denotes (rn_norm y) b ->
  accept_op fuel KDiv [:: x; y] (VNum r) -> b != 0 /\ RefAlgSpec.rn_denotes (rn_norm r) (a / b).
Proof. exact accept_div_sound. Qed.
Print Assumptions C07_accept_div_sound.

Theorem C07_accept_div_undef_sound : forall (R : rcfType) (fuel : nat) (x y : rnum) (a b : R),
  RefAlgSpec.rn_denotes (rn_norm x) a -> RefAlgSpec.rn_denotes (rn_norm y) b ->
  accept_op fuel KDiv [:: x; y] VUndef -> b = 0.
Proof. exact accept_div_undef_sound. Qed.
Print Assumptions C07_accept_div_undef_sound.

Theorem C07_accept_pow_sound : forall (R : rcfType) (fuel n : nat) (x r : rnum) (a : R),
  RefAlgSpec.rn_denotes (rn_norm x) a ->
  accept_op fuel (KPow n) [:: x] (VNum r) -> RefAlgSpec.rn_denotes (rn_norm r) (a ^+ n).
Proof. exact accept_pow_sound. Qed.
Print Assumptions C07_accept_pow_sound.

(* positive_root: the accepted result denotes THE non-negative n-th root of a (it exists, and it is the only one);
   an accepted refusal happens only for n = 0 or a negative operand *)
Theorem C07_accept_positive_root_sound : forall (R : rcfType) (fuel n : nat) (x r : rnum) (a : R),
  RefAlgSpec.rn_denotes (rn_norm x) a -> accept_op fuel (KRoot n) [:: x] (VNum r) ->
  exists v : R, [/\ RefAlgSpec.rn_denotes (rn_norm r) v, 0 <= v, v ^+ n = a &
                    forall w : R, 0 <= w -> w ^+ n = a -> w = v].
Proof. exact accept_root_sound. Qed.
Print Assumptions C07_accept_positive_root_sound.

Theorem C07_accept_positive_root_undef_sound : forall (R : rcfType) (fuel n : nat) (x : rnum) (a : R),
  RefAlgSpec.rn_denotes (rn_norm x) a -> accept_op fuel (KRoot n) [:: x] VUndef -> n = 0%N \/ a < 0.
Proof. exact accept_root_undef_sound. Qed.
Print Assumptions C07_accept_positive_root_undef_sound.

(* sign and order: the printed integer IS the sign of a, of a - b, of a - z, a - m/2^k, a - q *)
Theorem C07_accept_sgn_sound : forall (R : rcfType) (fuel : nat) (x : rnum) (c : Z) (a : R),
  RefAlgSpec.rn_denotes (rn_norm x) a -> accept_op fuel KSgn [:: x] (VInt c) -> RefAlgSpec.zr c = sgr a.
Proof. exact accept_sgn_sound. Qed.
Print Assumptions C07_accept_sgn_sound.

Theorem C07_accept_cmp_sound : forall (R : rcfType) (fuel : nat) (x y : rnum) (c : Z) (a b : R),
  RefAlgSpec.rn_denotes (rn_norm x) a -> RefAlgSpec.rn_denotes (rn_norm y) b ->
  accept_op fuel KCmp [:: x; y] (VInt c) -> RefAlgSpec.zr c = sgr (a - b).
Proof. exact accept_cmp_sound. Qed.
Print Assumptions C07_accept_cmp_sound.

Theorem C07_accept_cmp_integer_sound : forall (R : rcfType) (fuel : nat) (z : Z) (x : rnum) (c : Z) (a : R),
  RefAlgSpec.rn_denotes (rn_norm x) a ->
  accept_op fuel (KCmpZ z) [:: x] (VInt c) -> RefAlgSpec.zr c = sgr (a - RefAlgSpec.zr z).
Proof. exact accept_cmp_integer_sound. Qed.
Print Assumptions C07_accept_cmp_integer_sound.

Theorem C07_accept_cmp_dyadic_sound : forall (R : rcfType) (fuel : nat) (d : dyadic) (x : rnum) (c : Z) (a : R),
  RefAlgSpec.rn_denotes (rn_norm x) a ->
  accept_op fuel (KCmpD d) [:: x] (VInt c) ->
  RefAlgSpec.zr c = sgr (a - RefAlgSpec.zr (da d) / RefAlgSpec.zr (pow2 (dn d))).
Proof. exact accept_cmp_dyadic_sound. Qed.
Print Assumptions C07_accept_cmp_dyadic_sound.

Theorem C07_accept_cmp_rational_sound : forall (R : rcfType) (fuel : nat) (q : Z * Z) (x : rnum) (c : Z) (a : R),
  RefAlgSpec.rn_denotes (rn_norm x) a ->
  accept_op fuel (KCmpQ q) [:: x] (VInt c) -> RefAlgSpec.zr c = sgr (a - RefAlgSpec.qr q).
Proof. exact accept_cmp_rational_sound. Qed.
Print Assumptions C07_accept_cmp_rational_sound.

(* floor, ceiling, integrality, rationality, the rational value *)
Theorem C07_accept_floor_sound : forall (R : rcfType) (fuel : nat) (x : rnum) (z : Z) (a : R),
  RefAlgSpec.rn_denotes (rn_norm x) a ->
  accept_op fuel KFloor [:: x] (VInt z) -> RefAlgSpec.zr z <= a < RefAlgSpec.zr z + 1.
Proof. exact accept_floor_sound. Qed.
Print Assumptions C07_accept_floor_sound.

Theorem C07_accept_ceiling_sound : forall (R : rcfType) (fuel : nat) (x : rnum) (z : Z) (a : R),
  RefAlgSpec.rn_denotes (rn_norm x) a ->
  accept_op fuel KCeil [:: x] (VInt z) -> RefAlgSpec.zr z - 1 < a <= RefAlgSpec.zr z.
Proof. exact accept_ceiling_sound. Qed.
Print Assumptions C07_accept_ceiling_sound.

Theorem C07_accept_is_integer_sound : forall (R : rcfType) (fuel : nat) (x : rnum) (w : bool) (a : R),
  RefAlgSpec.rn_denotes (rn_norm x) a ->
  accept_op fuel KIsInt [:: x] (VBool w) -> w = true <-> exists z : Z, a = RefAlgSpec.zr z.
Proof. exact accept_is_integer_sound. Qed.
Print Assumptions C07_accept_is_integer_sound.

(* is_rational is compared one-sidedly (libpoly's test is syntactic; answering 0 for a hidden rational is documented) *)
Theorem C07_accept_is_rational_sound : forall (R : rcfType) (fuel : nat) (x : rnum) (a : R),
  RefAlgSpec.rn_denotes (rn_norm x) a ->
  accept_op fuel KIsRat [:: x] (VBool true) -> exists q : Z * Z, RefAlgSpec.qpos q /\ a = RefAlgSpec.qr q.
Proof. exact accept_is_rational_sound. Qed.
Print Assumptions C07_accept_is_rational_sound.

Theorem C07_accept_to_rational_sound : forall (R : rcfType) (fuel : nat) (x : rnum) (q : Z * Z) (a : R),
  RefAlgSpec.rn_denotes (rn_norm x) a ->
  accept_op fuel KToRat [:: x] (VRat q) -> RefAlgSpec.qpos q /\ a = RefAlgSpec.qr q.
Proof. exact accept_to_rational_sound. Qed.
Print Assumptions C07_accept_to_rational_sound.

(* approximations (to_rational of a number kept with a polynomial, to_double, midpoints): within eps of the number *)
Theorem C07_accept_approx_sound : forall (R : rcfType) (fuel : nat) (eps : Z * Z) (x : rnum) (q : Z * Z) (a : R),
  RefAlgSpec.rn_denotes (rn_norm x) a ->
  accept_op fuel (KApprox eps) [:: x] (VRat q) -> `|a - RefAlgSpec.qr q| <= RefAlgSpec.qr eps.
Proof. exact accept_approx_sound. Qed.
Print Assumptions C07_accept_approx_sound.

(* a struct re-read after a call that may refine it through a const pointer (and copies): still the same number *)
Theorem C07_accept_same_sound : forall (R : rcfType) (fuel : nat) (x r : rnum) (a : R),
  RefAlgSpec.rn_denotes (rn_norm x) a ->
  accept_op fuel KSame [:: x] (VNum r) -> RefAlgSpec.rn_denotes (rn_norm r) a.
Proof. exact accept_same_sound. Qed.
Print Assumptions C07_accept_same_sound.

(* all of the above in one statement (result_true lists, per operation, what the accepted answer means; anything
   `accept_op` has no case for is rejected), and the hypothesis is satisfiable for every operand list that passes the
   driver's validity test rn_valid *)
Theorem C07_accept_op_sound : forall (R : rcfType) (fuel : nat) (op : c07_op) (args : seq rnum) (vals : seq R)
  (res : c07_result),
  args_denote args vals -> accept_op fuel op args res -> result_true op vals res.
Proof. exact accept_op_sound. Qed.
Print Assumptions C07_accept_op_sound.

Theorem C07_accept_valid_args_denote : forall (R : rcfType) (args : seq rnum),
  List.forallb rn_valid args -> exists vals : seq R, args_denote args vals.
Proof. exact valid_args_denote. Qed.
Print Assumptions C07_accept_valid_args_denote.

(* non-vacuity: sqrt2 = (x^2 - 2, ]1,2[), sqrt3 = (x^2 - 3, ]1,2[) are valid; the test accepts sqrt2 + sqrt3 =
   (x^4 - 10x^2 + 1, ]3,4[) (and libpoly-style non-square-free input (x^2-2)^2 for sqrt2), sqrt2 * sqrt3 = (x^2 - 6, ]2,3[),
   1/sqrt2 = (2x^2 - 1, ]1/2,1[), sqrt2^3 = (x^2 - 8, ]2,3[), positive_root(sqrt2 + sqrt3 squared ...), signs, order, floor,
   and REJECTS wrong answers: the other positive root of x^4 - 10x^2 + 1, a wrong sign, a wrong floor *)
Section AcceptExamples.
Local Open Scope Z_scope.
Let s2 : rnum := RA [:: -2; 0; 1] (1, 1) (2, 1).
Let s3 : rnum := RA [:: -3; 0; 1] (1, 1) (2, 1).
Let s2s3 : rnum := RA [:: 1; 0; -10; 0; 1] (3, 1) (4, 1).
Example C07_accept_example_valid : List.forallb rn_valid [:: s2; s3; s2s3] = true.
Proof. by vm_compute. Qed.
Example C07_accept_example_valid2 : List.forallb rn_valid [:: s2; s3] = true.
Proof. by vm_compute. Qed.
Example C07_accept_example_add : accept_op 60 KAdd [:: s2; s3] (VNum s2s3) = true.
Proof. by vm_compute. Qed.
Example C07_accept_example_add_nonsquarefree :
  accept_op 60 KAdd [:: RA [:: 4; 0; -4; 0; 1] (1, 1) (2, 1); s3] (VNum s2s3) = true.
Proof. by vm_compute. Qed.
Example C07_accept_example_add_rejects : accept_op 60 KAdd [:: s2; s3] (VNum (RA [:: 1; 0; -10; 0; 1] (0, 1) (1, 1))) = false.
Proof. by vm_compute. Qed.
Example C07_accept_example_sub : accept_op 60 KSub [:: s2s3; s2] (VNum s3) = true.
Proof. by vm_compute. Qed.
Example C07_accept_example_mul : accept_op 60 KMul [:: s2; s3] (VNum (RA [:: -6; 0; 1] (2, 1) (3, 1))) = true.
Proof. by vm_compute. Qed.
Example C07_accept_example_inv : accept_op 60 KInv [:: s2] (VNum (RA [:: -1; 0; 2] (1, 2) (1, 1))) = true.
Proof. by vm_compute. Qed.
Example C07_accept_example_inv_undef : accept_op 60 KInv [:: RQ (0, 1)] VUndef = true /\ accept_op 60 KInv [:: s2] VUndef = false.
Proof. by vm_compute. Qed.
Example C07_accept_example_div : accept_op 60 KDiv [:: RA [:: -6; 0; 1] (2, 1) (3, 1); s2] (VNum s3) = true.
Proof. by vm_compute. Qed.
Example C07_accept_example_neg : accept_op 60 KNeg [:: s2] (VNum (RA [:: -2; 0; 1] (-2, 1) (-1, 1))) = true.
Proof. by vm_compute. Qed.
Example C07_accept_example_pow : accept_op 60 (KPow 3) [:: s2] (VNum (RA [:: -8; 0; 1] (2, 1) (3, 1))) = true.
Proof. by vm_compute. Qed.
Example C07_accept_example_root : accept_op 60 (KRoot 2) [:: s2] (VNum (RA [:: -2; 0; 0; 0; 1] (1, 1) (2, 1))) = true
  /\ accept_op 60 (KRoot 2) [:: s2] (VNum (RA [:: -2; 0; 0; 0; 1] (-2, 1) (-1, 1))) = false
  /\ accept_op 60 (KRoot 2) [:: RQ (-1, 1)] VUndef = true.
Proof. by vm_compute. Qed.
Example C07_accept_example_order :
  accept_op 60 KSgn [:: s2] (VInt 1) = true /\ accept_op 60 KSgn [:: s2] (VInt 0) = false /\
  accept_op 60 KCmp [:: s2; s3] (VInt (-1)) = true /\ accept_op 60 KCmp [:: s2; s3] (VInt 1) = false /\
  accept_op 60 KCmp [:: s2; RA [:: 4; 0; -4; 0; 1] (0, 1) (3, 1)] (VInt 0) = true /\
  accept_op 60 (KCmpZ 1) [:: s2] (VInt 1) = true /\ accept_op 60 (KCmpD (mkDy 3 1)) [:: s2] (VInt (-1)) = true /\
  accept_op 60 (KCmpQ (7, 5)) [:: s2] (VInt 1) = true /\ accept_op 60 (KCmpQ (17, 12)) [:: s2] (VInt 1) = false.
Proof. by vm_compute. Qed.
Example C07_accept_example_floor :
  accept_op 60 KFloor [:: s2s3] (VInt 3) = true /\ accept_op 60 KFloor [:: s2s3] (VInt 4) = false /\
  accept_op 60 KCeil [:: s2s3] (VInt 4) = true /\ accept_op 60 KIsInt [:: s2] (VBool false) = true /\
  accept_op 60 KIsInt [:: RA [:: -2; 1] (1, 1) (3, 1)] (VBool true) = true /\
  accept_op 60 KIsRat [:: s2] (VBool true) = false /\ accept_op 60 KIsRat [:: RA [:: -1; 2] (0, 1) (1, 1)] (VBool true) = true /\
  accept_op 60 KToRat [:: RA [:: -1; 2] (0, 1) (1, 1)] (VRat (1, 2)) = true /\
  accept_op 60 (KApprox (1, 100)) [:: s2] (VRat (141, 100)) = true /\
  accept_op 60 (KApprox (1, 1000)) [:: s2] (VRat (141, 100)) = false.
Proof. by vm_compute. Qed.
(* ... and in every real closed field the accepted sum IS the sum of the two numbers the operands denote *)
Example C07_accept_example_meaning : forall R : rcfType, exists a b : R,
  [/\ RefAlgSpec.rn_denotes (rn_norm s2) a, RefAlgSpec.rn_denotes (rn_norm s3) b &
      RefAlgSpec.rn_denotes (rn_norm s2s3) (a + b)].
Proof.
move=> R; have [vals dv] := @C07_accept_valid_args_denote R [:: s2; s3] C07_accept_example_valid2.
have [a [b [_ da db]]] := args2 dv; exists a, b; split=> //.
exact: (@C07_accept_add_sound R 60 s2 s3 s2s3 a b da db C07_accept_example_add).
Qed.
End AcceptExamples.
